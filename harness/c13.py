"""C13 — conversion leaves the host process as it found it.
Proof: coq/props/C13.v over coq/theories/Patch.v (hand-written executable model of apply_patches,
apply_monkey_patches, the x64 managers and the jit trace cache, in two CODE SHAPES: /repo since
commit b0781c1 — exact restoration, PART F — and before it — PART L).
Ties: the shape of the running code is probed; (D) model(shape) == the running apply_patches /
apply_monkey_patches on synthetic targets with a fault at every position; the model run on the REAL
spec list of this run predicts exactly the attribute changes the real process shows; for the old
shape the side conditions of PART L are evaluated on that list.
Real process (worker subprocesses): getattr_static snapshot of the jax*/flax*/equinox* namespace,
x64 flag, user model leaves and behavioural probes across a random history of succeeding and
failing conversions; an exception inside the enter loop of apply_monkey_patches."""
import functools
import json
import os
import subprocess
import sys
import tempfile
import time

HERE = os.path.dirname(os.path.abspath(__file__))
SCOPE = ("jax", "jaxlib", "flax", "equinox", "einops", "dm_pix", "optax", "orbax", "chex")

K_JIT_CALLEE = "jit-cache-pollution:cold-inner-jit:eager-callee-same-avals"
K_JIT_CALLER = "jit-cache-pollution:cold-inner-jit:eager-converted-callable"
K_AMP_ENTER = "amp-enter-fault-leak:onnx_function-target-not-a-module-attribute"


def _scope(name):
    return isinstance(name, str) and name.split(".")[0] in SCOPE


# =====================================================================================  WORKER
class _Missing:
    def __repr__(self):
        return "<MISSING>"


MISSING = _Missing()


def _qual(obj):
    import inspect
    import types
    if isinstance(obj, types.ModuleType):
        return obj.__name__
    if inspect.isclass(obj):
        return f"{obj.__module__}.{obj.__qualname__}"
    return f"<{type(obj).__module__}.{type(obj).__qualname__} object>"


def _obj_module(obj):
    import types
    if isinstance(obj, types.ModuleType):
        return obj.__name__
    return getattr(obj, "__module__", "") or ""


def _mro_strict(t):
    import inspect
    import types
    if isinstance(t, types.ModuleType):
        return []
    if inspect.isclass(t):
        return [c for c in t.__mro__[1:] if c is not object]
    return [c for c in type(t).__mro__ if c is not object]


def _all_subclasses(t):
    out, st = [], [t]
    while st:
        x = st.pop()
        try:
            subs = type.__subclasses__(x)
        except Exception:
            subs = []
        for s in subs:
            if not any(s is o for o in out):
                out.append(s)
                st.append(s)
    return out


def collect_real_specs():
    """(amp_keys, frames): what conversion_api._activate_plugin_worlds would apply, in its order.
    amp_keys: [(tgt, attr)] of apply_monkey_patches; frames: one list per leaf plugin of
    (tgt, attr, kind, plugin_name)."""
    from jax2onnx.plugins import plugin_system as ps
    from jax2onnx.plugins._patching import _resolve, AssignSpec
    ps.import_all_plugins()
    amp = []
    for _fn, targets, attr in ps._iter_patch_specs():
        for t in targets:
            amp.append((t, attr))
    frames = []
    for name, plugin in ps.PLUGIN_REGISTRY.items():
        if isinstance(plugin, ps.PrimitiveLeafPlugin):
            fr = []
            for s in plugin.__class__.binding_specs():
                fr.append((_resolve(s.target), s.attr, "assign" if isinstance(s, AssignSpec) else "monkey", name))
            frames.append(fr)
    return amp, frames


class Universe:
    """numbering of targets / attrs / values of the real process for the Coq model"""

    def __init__(self, amp, frames):
        import inspect
        self.targets, self.tid = [], {}
        self.attrs, self.aid = [], {}
        self.vals, self.vid = [], {}
        keys = list(amp) + [(t, a) for fr in frames for (t, a, _k, _n) in fr]
        self.keys = keys
        for t, a in keys:
            self._t(t)
            self._a(a)
        for t, _a in list(keys):
            for c in _mro_strict(t):
                self._t(c)
            if inspect.isclass(t):
                for s in _all_subclasses(t):
                    self._t(s)
                    for c in _mro_strict(s):
                        self._t(c)
        # attributes relevant per target: those of keys on the target itself or on a relative
        self.rel = {}
        for t, a in keys:
            rel = [t] + _mro_strict(t) + (_all_subclasses(t) if inspect.isclass(t) else [])
            for r in list(rel):
                rel += _mro_strict(r)
            for r in rel:
                self.rel.setdefault(id(r), set()).add(a)

    def _t(self, t):
        if id(t) not in self.tid:
            self.tid[id(t)] = len(self.targets)
            self.targets.append(t)
        return self.tid[id(t)]

    def _a(self, a):
        if a not in self.aid:
            self.aid[a] = len(self.attrs)
            self.attrs.append(a)
        return self.aid[a]

    def _v(self, v):
        if id(v) not in self.vid:
            self.vid[id(v)] = len(self.vals) + 1
            self.vals.append(v)
        return self.vid[id(v)]

    def observe(self):
        """[(tid, aid, own value id|None, python getattr value id|None, model-adequate?)] for all
        relevant (target, attr)"""
        out = []
        for t in self.targets:
            for a in sorted(self.rel.get(id(t), ())):
                d = vars(t) if hasattr(t, "__dict__") else {}
                own = self._v(d[a]) if a in d else None
                got = getattr(t, a, MISSING)
                # the model's getattr: first own entry along [t] + strict MRO
                mdl = MISSING
                for c in [t] + _mro_strict(t):
                    dc = vars(c) if hasattr(c, "__dict__") else {}
                    if a in dc:
                        mdl = dc[a]
                        break
                adequate = (got is mdl)
                out.append((self.tid[id(t)], self.aid[a], own, None if got is MISSING else self._v(got), adequate))
        return out

    def dump(self, amp, frames):
        seen = set()
        amp_first = []
        for t, a in amp:
            k = (id(t), a)
            if k not in seen:
                seen.add(k)
                amp_first.append((self.tid[id(t)], self.aid[a]))
        return {
            "targets": [_qual(t) for t in self.targets],
            "attrs": list(self.attrs),
            "mro": [[self.tid[id(c)] for c in _mro_strict(t)] for t in self.targets],
            "amp": amp_first,
            "amp_dups": len(amp) - len(amp_first),
            "frames": [[(self.tid[id(t)], self.aid[a], k, n) for (t, a, k, n) in fr] for fr in frames],
        }


class Snapshot:
    """inspect.getattr_static view of every public attribute (plus every patched attribute) of the
    loaded in-scope modules and of the classes any spec touches (with their MRO)."""

    def __init__(self, spec_keys):
        import inspect
        import types
        self.objs = []
        seen = set()

        def add(o):
            if id(o) not in seen:
                seen.add(id(o))
                self.objs.append(o)
        for n, m in sorted(sys.modules.items()):
            if m is not None and _scope(n) and isinstance(m, types.ModuleType):
                add(m)
        self.extra = {}
        for t, a in spec_keys:
            if _scope(_obj_module(t)):
                add(t)
                for c in _mro_strict(t):
                    if _scope(_obj_module(c)):
                        add(c)
                        self.extra.setdefault(id(c), set()).add(a)
                if inspect.isclass(t):
                    for s in _all_subclasses(t):
                        add(s)
                        self.extra.setdefault(id(s), set()).add(a)
            self.extra.setdefault(id(t), set()).add(a)
        self.base = self.take()
        self.origin = self.base

    def take(self):
        import inspect
        snap = {}
        for o in self.objs:
            try:
                d = dict(vars(o))
            except TypeError:
                continue
            names = [k for k in d if isinstance(k, str) and not k.startswith("_")]
            names += [k for k in self.extra.get(id(o), ()) if k not in names]
            for k in names:
                own = d.get(k, MISSING)
                try:
                    res = inspect.getattr_static(o, k, MISSING)
                except Exception:
                    res = MISSING
                snap[(id(o), k)] = (o, own, res)
        return snap

    def diff(self):
        """(lookup_diffs, own_only_diffs, added) against the baseline, each [(obj, name, before, after)]"""
        import types
        now = self.take()
        lookup, own_only, added = [], [], []
        for key, (o, own0, res0) in self.base.items():
            if key in now:
                _o, own1, res1 = now[key]
            else:
                own1 = MISSING
                try:
                    import inspect
                    res1 = inspect.getattr_static(o, key[1], MISSING)
                except Exception:
                    res1 = MISSING
            if res1 is not res0:
                lookup.append((o, key[1], res0, res1))
            elif own1 is not own0:
                own_only.append((o, key[1], own0, own1))
        for key, (o, own1, res1) in now.items():
            if key not in self.base:
                added.append((o, key[1], MISSING, res1, isinstance(res1, types.ModuleType)))
        return lookup, own_only, added


def _leaves(model):
    import jax
    import numpy as np
    leaves, treedef = jax.tree_util.tree_flatten(model)
    return [np.array(l) if hasattr(l, "shape") else l for l in leaves], str(treedef)


def _same_leaves(a, b):
    import numpy as np
    if a[1] != b[1] or len(a[0]) != len(b[0]):
        return False
    for x, y in zip(a[0], b[0]):
        if hasattr(x, "shape"):
            if not (hasattr(y, "shape") and x.shape == y.shape and x.dtype == y.dtype and np.array_equal(x, y, equal_nan=True)):
                return False
        elif x is not y and x != y:
            return False
    return True


def _call(fn, *args):
    """('ok', numpy result) | ('raised', 'Type: msg')"""
    import numpy as np
    import jax
    try:
        r = fn(*args)
        r = jax.tree_util.tree_map(lambda z: np.asarray(z), r)
        return ("ok", r)
    except Exception as e:  # noqa: BLE001
        return ("raised", f"{type(e).__name__}: {str(e)[:160]}")


def _same_result(a, b):
    import numpy as np
    import jax
    if a[0] != b[0]:
        return False
    if a[0] == "raised":
        return a[1].split(":")[0] == b[1].split(":")[0]
    la, ta = jax.tree_util.tree_flatten(a[1])
    lb, tb = jax.tree_util.tree_flatten(b[1])
    return ta == tb and all(x.shape == y.shape and x.dtype == y.dtype and np.allclose(x, y, rtol=1e-5, atol=1e-6, equal_nan=True)
                            for x, y in zip(la, lb))


def object_graph(fn, max_depth=5, max_objects=400):
    """the converted callable's reachable USER objects: closure cells, __self__, __wrapped__, defaults,
    the globals it names; then instance attributes / container items, bounded.  Per object: type, the
    keys of vars(), identity of every non-array value, equality of array values, the pytree structure,
    nnx.graphdef for nnx modules."""
    import types
    import dataclasses
    import numpy as np
    import jax
    try:
        from flax import nnx
    except Exception:  # noqa: BLE001
        nnx = None
    seen, order = {}, []

    def is_array(v):
        return isinstance(v, (np.ndarray, np.generic, jax.Array))

    def interesting(v):
        if v is None or isinstance(v, (bool, int, float, complex, str, bytes, type, types.ModuleType, types.BuiltinFunctionType)):
            return False
        if is_array(v):
            return False
        return True

    def add(v, path, depth):
        if not interesting(v) or id(v) in seen or len(order) >= max_objects:
            return
        seen[id(v)] = path
        order.append((path, v, depth))
    roots = [("fn", fn)]
    q = list(roots)
    add(fn, "fn", 0)
    i = 0
    while i < len(order):
        path, v, depth = order[i]
        i += 1
        if depth >= max_depth:
            continue
        kids = []
        if isinstance(v, (types.FunctionType, types.MethodType)):
            f = v.__func__ if isinstance(v, types.MethodType) else v
            if isinstance(v, types.MethodType):
                kids.append((path + ".__self__", v.__self__))
            for j, c in enumerate(f.__closure__ or ()):
                try:
                    kids.append((f"{path}.<closure:{f.__code__.co_freevars[j]}>", c.cell_contents))
                except ValueError:
                    pass
            for n in f.__code__.co_names:
                if n in f.__globals__ and not isinstance(f.__globals__[n], (types.ModuleType, type, types.FunctionType)):
                    kids.append((f"{path}.<global:{n}>", f.__globals__[n]))
            for j, dv in enumerate(f.__defaults__ or ()):
                kids.append((f"{path}.<default:{j}>", dv))
            if hasattr(f, "__wrapped__"):
                kids.append((path + ".__wrapped__", f.__wrapped__))
        elif isinstance(v, functools.partial):
            kids += [(path + ".func", v.func)] + [(f"{path}.args[{j}]", a) for j, a in enumerate(v.args)] + \
                    [(f"{path}.kw[{k}]", a) for k, a in (v.keywords or {}).items()]
        elif isinstance(v, (list, tuple)):
            kids += [(f"{path}[{j}]", x) for j, x in enumerate(v[:50])]
        elif isinstance(v, dict):
            kids += [(f"{path}[{k!r}]", x) for k, x in list(v.items())[:50]]
        else:
            d = getattr(v, "__dict__", None)
            if isinstance(d, dict):
                kids += [(f"{path}.{k}", x) for k, x in list(d.items())[:80]]
            for sl in getattr(type(v), "__slots__", ()) if isinstance(getattr(type(v), "__slots__", ()), (tuple, list)) else ():
                if hasattr(v, sl):
                    kids.append((f"{path}.{sl}", getattr(v, sl)))
        for kp, kv in kids:
            add(kv, kp, depth + 1)
    rec = {}
    keep = []
    for path, v, _d in order:
        if isinstance(v, (types.FunctionType, types.MethodType)):
            continue
        keep.append(v)
        e = {"type": f"{type(v).__module__}.{type(v).__qualname__}"}
        d = getattr(v, "__dict__", None)
        if isinstance(d, dict):
            e["vars"] = sorted(map(str, d))
            e["ids"] = {str(k): (("arr", np.asarray(x).tobytes()[:64], np.asarray(x).shape) if is_array(x) else ("id", id(x)))
                        for k, x in d.items()}
        elif isinstance(v, (list, tuple)):
            e["len"] = len(v)
        elif isinstance(v, dict):
            e["keys"] = sorted(map(repr, v))
        if not isinstance(v, (list, tuple, dict)):
            try:
                leaves, td = jax.tree_util.tree_flatten(v)
                e["treedef"] = str(td)
                e["n_leaves"] = len(leaves)
            except Exception:  # noqa: BLE001
                pass
            if nnx is not None and isinstance(v, nnx.Module):
                try:
                    e["graphdef"] = nnx.graphdef(v)
                except Exception:  # noqa: BLE001
                    pass
            if dataclasses.is_dataclass(v):
                e["fields"] = sorted(f.name for f in dataclasses.fields(v))
        rec[path] = e
    return rec, keep


def object_graph_diff(a, b):
    out = []
    for path in a:
        if path not in b:
            out.append(f"{path}: no longer reachable")
            continue
        x, y = a[path], b[path]
        for k in sorted(set(x) | set(y)):
            if k == "ids":
                xi, yi = x.get("ids", {}), y.get("ids", {})
                ch = [n for n in xi if n in yi and xi[n] != yi[n]]
                if ch:
                    out.append(f"{path}: attribute value(s) replaced: {ch[:4]}")
            elif k == "vars":
                if x.get(k) != y.get(k):
                    out.append(f"{path}: attributes added {sorted(set(y.get(k, [])) - set(x.get(k, [])))} "
                               f"removed {sorted(set(x.get(k, [])) - set(y.get(k, [])))}")
            elif k == "graphdef":
                try:
                    same = x.get(k) == y.get(k)
                except Exception:  # noqa: BLE001
                    same = True
                if not same:
                    out.append(f"{path}: nnx.graphdef changed")
            elif x.get(k) != y.get(k):
                out.append(f"{path}: {k} changed")
    for path in b:
        if path not in a:
            out.append(f"{path}: newly reachable")
    return out


def worker_history(seed, tier, out_path):
    import random
    import numpy as np
    import jax
    import jax.numpy as jnp
    import flax.linen as nn
    from flax import nnx
    import equinox as eqx
    from unittest import mock
    from jax2onnx import to_onnx, onnx_function
    from jax2onnx.plugins import plugin_system as ps
    try:
        from jax.extend.core import Primitive
    except Exception:  # pragma: no cover
        from jax.core import Primitive
    rng = random.Random(seed)
    t0 = time.time()
    res = {"findings": [], "steps": [], "notes": {}}
    reported = set()

    def finding(key, what, replay):
        if key not in reported:
            reported.add(key)
            res["findings"].append({"key": key, "what": what, "replay": replay})

    # ---------------- user-level objects (registered BEFORE the spec dump)
    G = globals()

    def user_scale(x):
        return jnp.tanh(x) * 2.0
    user_scale.__module__ = "__main__"
    G["user_scale"] = user_scale
    onnx_function(user_scale)

    def user_inner(x):
        return jnp.cos(x) + 1.0
    user_inner.__module__ = "__main__"
    G["user_inner"] = user_inner
    onnx_function(user_inner)

    def user_outer(x):
        return G["user_inner"](x) * jnp.sin(x)       # through the module attribute, as user code does
    user_outer.__module__ = "__main__"
    G["user_outer"] = user_outer
    onnx_function(user_outer)

    unsupported = Primitive("c13_unsupported")
    unsupported.def_impl(lambda x: x)
    unsupported.def_abstract_eval(lambda x: x)

    def user_body_fails(x):
        if ps._IN_FUNCTION_BUILD.get():
            raise RuntimeError("c13: raised while the function body is re-traced during lowering")
        return jnp.sin(x) + 2.0
    user_body_fails.__module__ = "__main__"
    G["user_body_fails"] = user_body_fails
    onnx_function(user_body_fails)

    def user_body_unsupported(x):
        return unsupported.bind(jnp.sin(x))
    user_body_unsupported.__module__ = "__main__"
    G["user_body_unsupported"] = user_body_unsupported
    onnx_function(user_body_unsupported)

    class UserBlock(nnx.Module):
        def __init__(self, rngs):
            self.lin = nnx.Linear(4, 4, rngs=rngs)

        def __call__(self, x):
            return jnp.tanh(self.lin(x))
    UserBlock.__module__ = "__main__"
    UserBlock.__qualname__ = "UserBlock"
    G["UserBlock"] = UserBlock
    onnx_function(UserBlock)

    # @onnx_function(unique=True) classes WITH parameters (nnx and equinox)
    class UBlock(nnx.Module):
        def __init__(self, dim, rngs):
            self.linear = nnx.Linear(dim, dim, rngs=rngs)

        def __call__(self, x):
            return jnp.tanh(self.linear(x))
    UBlock.__module__ = "__main__"
    UBlock.__qualname__ = "UBlock"
    G["UBlock"] = UBlock
    onnx_function(unique=True)(UBlock)

    class UModel(nnx.Module):
        def __init__(self):
            self.a = UBlock(4, nnx.Rngs(0))
            self.b = UBlock(4, nnx.Rngs(0))

        def __call__(self, x):
            return self.b(self.a(x))

    class EqxU(eqx.Module):
        lin: eqx.nn.Linear

        def __call__(self, x):
            return jnp.tanh(self.lin(x))
    EqxU.__module__ = "__main__"
    EqxU.__qualname__ = "EqxU"
    G["EqxU"] = EqxU
    onnx_function(unique=True)(EqxU)
    BASE_KIND = [KeyboardInterrupt]

    def user_body_fails_base(x):
        if ps._IN_FUNCTION_BUILD.get():
            raise BASE_KIND[0]("c13: BaseException while the function body is re-traced during lowering")
        return jnp.sin(x) + 3.0
    user_body_fails_base.__module__ = "__main__"
    G["user_body_fails_base"] = user_body_fails_base
    onnx_function(user_body_fails_base)

    umodel = UModel()
    eqxu = EqxU(eqx.nn.Linear(4, 4, key=jax.random.PRNGKey(7)))
    linear = nnx.Linear(4, 3, rngs=nnx.Rngs(0))
    block = UserBlock(nnx.Rngs(1))
    dense = nn.Dense(3)
    dense_params = dense.init(jax.random.PRNGKey(0), jnp.ones((2, 4), jnp.float32))
    mha = nn.MultiHeadAttention(num_heads=2, qkv_features=4)
    mha_params = mha.init(jax.random.PRNGKey(1), jnp.ones((1, 3, 4), jnp.float32))
    eqx_lin = eqx.nn.Linear(4, 3, key=jax.random.PRNGKey(2))
    models = {"UModel(unique)": umodel, "EqxU(unique)": eqxu, "nnx.Linear": linear, "UserBlock": block, "linen.Dense.params": dense_params,
              "linen.MHA.params": mha_params, "eqx.Linear": eqx_lin}

    # ---------------- real spec list, universe, baseline
    amp, frames = collect_real_specs()
    uni = Universe(amp, frames)
    obs0 = uni.observe()
    res["dump"] = uni.dump(amp, frames)
    res["obs0"] = obs0
    snap = Snapshot(uni.keys)
    spec_key_ids = {(id(t), a) for (t, a) in uni.keys}
    res["notes"]["snapshot_objects"] = len(snap.objs)
    res["notes"]["snapshot_entries"] = len(snap.base)
    leaves0 = {k: _leaves(v) for k, v in models.items()}
    vars0 = {k: sorted(vars(v)) for k, v in models.items() if hasattr(v, "__dict__")}

    x4 = jnp.linspace(-1.0, 1.0, 8, dtype=jnp.float32).reshape(2, 4)
    x3 = jnp.asarray([0.1, 0.2, 0.3], jnp.float32)

    # fixed jitted probes
    @jax.jit
    def probe_warm(x):
        return jnp.sin(x) * 2.0 + jnp.sum(jnp.tanh(x))

    @jax.jit
    def probe_cold(x):          # never called before the first conversion, never used in one
        return jnp.cos(x) * 3.0 + jnp.mean(x)
    eager_probes = {
        "probe_warm": (probe_warm, x3),
        "jnp_chain": (lambda x: jnp.where(x > 0, jnp.sin(x), jnp.exp(x)).sum(), x4),
        "nnx.Linear": (lambda x: linear(x), x4),
        "UserBlock": (lambda x: block(x), x4),
        "linen.Dense": (lambda x: dense.apply(dense_params, x), x4),
        "linen.MHA": (lambda x: mha.apply(mha_params, x), jnp.ones((1, 3, 4), jnp.float32)),
        "linen.MHA.jit": (jax.jit(lambda x: mha.apply(mha_params, x)), jnp.ones((1, 3, 4), jnp.float32)),
        "eqx.Linear": (lambda x: eqx_lin(x), x4[0]),
        "jit(nnx.Linear)": (jax.jit(lambda x: linear(x)), x4),
        "user_outer": (lambda x: G["user_outer"](x), x3),
    }
    probe0 = {k: _call(f, a) for k, (f, a) in eager_probes.items()}
    cold_probe_checked = [False]

    flag_user = [bool(jax.config.jax_enable_x64)]
    tmpdir = tempfile.mkdtemp(prefix="c13w-")
    blocker = os.path.join(tmpdir, "iam_a_file")
    open(blocker, "w").write("x")

    # ---------------- conversions
    def boom_lower(self, *a, **k):
        raise RuntimeError("c13: injected lowering failure")

    jnp_fns = [
        ("sin+1", lambda x: jnp.sin(x) + 1.0, [(3,)], x3),
        ("tanh*x", lambda x: jnp.tanh(x) * x, [("B", 4)], x4),
        ("matmul", lambda x: x @ jnp.ones((4, 2), x.dtype), [(2, 4)], x4),
        ("reshape.T", lambda x: jnp.transpose(jnp.reshape(x, (4, 2))), [(2, 4)], x4),
        ("where-sum", lambda x: jnp.where(x > 0, x, -x).sum(axis=0), [(2, 4)], x4),
        ("concat", lambda x: jnp.concatenate([x, x * 2.0], axis=0), [(2, 4)], x4),
        ("softmax", lambda x: jax.nn.softmax(x, axis=-1), [(2, 4)], x4),
        ("relu-nnx", lambda x: nnx.relu(x) + nnx.gelu(x), [(2, 4)], x4),
    ]

    def mk_step(kind):
        """-> (label, expect_ok|None, thunk, eager (fn, arg) | None)"""
        dbl = rng.random() < 0.3
        if kind == "ok_jnp":
            n, f, spec, arg = rng.choice(jnp_fns)
            return (f"ok_jnp:{n}", True, lambda: to_onnx(f, spec, enable_double_precision=dbl), (f, arg), dbl)
        if kind == "ok_linear":
            f = lambda x: linear(x)
            return ("ok_linear", True, lambda: to_onnx(f, [("B", 4)], enable_double_precision=dbl), (f, x4), dbl)
        if kind == "ok_linen":
            f = lambda x: dense.apply(dense_params, x)
            return ("ok_linen", True, lambda: to_onnx(f, [(2, 4)], enable_double_precision=dbl), (f, x4), dbl)
        if kind == "ok_eqx":
            f = lambda x: eqx_lin(x)
            return ("ok_eqx", True, lambda: to_onnx(f, [(4,)], enable_double_precision=dbl), (f, x4[0]), dbl)
        if kind == "ok_unique_nnx":
            f = (lambda x: umodel(x)) if rng.random() < 0.5 else umodel
            return ("ok_unique_nnx", True, lambda: to_onnx(f, [(1, 4)], enable_double_precision=dbl), (f, x4[:1]), dbl)
        if kind == "ok_unique_eqx":
            f = (lambda x: eqxu(x)) if rng.random() < 0.5 else eqxu
            return ("ok_unique_eqx", True, lambda: to_onnx(f, [(4,)], enable_double_precision=dbl), (f, x4[0]), dbl)
        if kind in ("fail_trace_base", "fail_lowering_base", "fail_body_base", "fail_enter_base"):
            bk = rng.choice([KeyboardInterrupt, SystemExit, _BaseErr, GeneratorExit])
            if kind == "fail_trace_base":
                def f(x):
                    y = jnp.sin(x) + nnx.relu(x)
                    if isinstance(y, jax.core.Tracer):
                        raise bk("c13: BaseException while being traced")
                    return y
                return (f"fail_trace_base:{bk.__name__}", False, lambda: to_onnx(f, [(3,)], enable_double_precision=dbl), (f, x3), dbl)
            if kind == "fail_lowering_base":
                f = lambda x: jnp.sin(linear(x))
                pl = ps.PLUGIN_REGISTRY.get("jax.numpy.sin")

                def boom_base(self, *a, **k):
                    raise bk("c13: BaseException injected in lowering")

                def thunk():
                    with mock.patch.object(type(pl), "lower", boom_base):
                        return to_onnx(f, [(2, 4)], enable_double_precision=dbl)
                return (f"fail_lowering_base:{bk.__name__}", False, thunk, (f, x4), dbl)
            if kind == "fail_body_base":
                f = lambda x: G["user_body_fails_base"](x) * 2.0

                def thunk():
                    BASE_KIND[0] = bk
                    return to_onnx(f, [(3,)], enable_double_precision=dbl)
                return (f"fail_body_base:{bk.__name__}", False, thunk, (f, x3), dbl)
            # a leaf plugin whose activation raises while the ExitStack is half entered
            f = lambda x: jnp.sin(x) + 1.0
            import types as _types
            from jax2onnx.plugins._patching import MonkeyPatchSpec as _MPS
            names = [n for n, p_ in ps.PLUGIN_REGISTRY.items() if isinstance(p_, ps.PrimitiveLeafPlugin)]
            pl = ps.PLUGIN_REGISTRY[names[rng.randrange(len(names) // 3, len(names))]]
            dummy = _types.ModuleType("c13_dummy_target")
            dummy.x = 1
            orig_specs = type(pl).binding_specs()

            def _mk(orig):
                raise bk("c13: BaseException in make_value while entering the plugin stack")

            def thunk():
                with mock.patch.object(type(pl), "binding_specs", classmethod(lambda c: list(orig_specs) + [_MPS(dummy, "x", _mk)])):
                    return to_onnx(f, [(3,)], enable_double_precision=dbl)
            return (f"fail_enter_base:{bk.__name__}", False, thunk, (f, x3), dbl)
        if kind == "ok_onnx_function":
            f = lambda x: G["user_scale"](block(x))
            return ("ok_onnx_function", True, lambda: to_onnx(f, [(2, 4)], enable_double_precision=dbl), (f, x4), dbl)
        if kind == "ok_nested_function":
            f = lambda x: G["user_outer"](x) + 1.0
            return ("ok_nested_function", True, lambda: to_onnx(f, [(3,)], enable_double_precision=dbl), (f, x3), dbl)
        if kind == "ok_file":
            f = lambda x: jnp.sin(x) * 2.0
            p = os.path.join(tmpdir, f"m{rng.randint(0, 9)}.onnx")
            return ("ok_file", True, lambda: to_onnx(f, [(3,)], return_mode="file", output_path=p, enable_double_precision=dbl), (f, x3), dbl)
        if kind == "fail_trace":
            def f(x):
                y = jnp.sin(x) + nnx.relu(x)
                if isinstance(y, jax.core.Tracer):
                    raise ValueError("c13: user function raises while being traced")
                return y
            return ("fail_trace", False, lambda: to_onnx(f, [(3,)], enable_double_precision=dbl), (f, x3), dbl)
        if kind == "fail_unsupported":
            f = lambda x: unsupported.bind(jnp.sin(x)) + 1.0
            return ("fail_unsupported", False, lambda: to_onnx(f, [(3,)], enable_double_precision=dbl), (f, x3), dbl)
        if kind == "fail_lowering":
            f = lambda x: jnp.sin(linear(x))
            pl = ps.PLUGIN_REGISTRY.get("jax.numpy.sin")

            def thunk():
                with mock.patch.object(type(pl), "lower", boom_lower):
                    return to_onnx(f, [(2, 4)], enable_double_precision=dbl)
            return ("fail_lowering", False, thunk, (f, x4), dbl)
        if kind == "fail_function_body_trace":
            f = lambda x: G["user_body_fails"](x) * 2.0
            return ("fail_function_body_trace", False, lambda: to_onnx(f, [(3,)], enable_double_precision=dbl), (f, x3), dbl)
        if kind == "fail_function_body_lowering":
            f = lambda x: G["user_body_unsupported"](x) * 2.0
            return ("fail_function_body_lowering", False, lambda: to_onnx(f, [(3,)], enable_double_precision=dbl), (f, x3), dbl)
        if kind == "fail_serialization":
            f = lambda x: jnp.cos(x)
            p = os.path.join(blocker, "sub", "m.onnx")
            return ("fail_serialization", False, lambda: to_onnx(f, [(3,)], return_mode="file", output_path=p, enable_double_precision=dbl), (f, x3), dbl)
        if kind == "fail_output_names":
            f = lambda x: jnp.cos(x)
            return ("fail_output_names", False, lambda: to_onnx(f, [(3,)], output_names=["a", "b"], enable_double_precision=dbl), (f, x3), dbl)
        if kind == "user_toggles_x64":
            v = not flag_user[0]

            def thunk():
                jax.config.update("jax_enable_x64", v)
                flag_user[0] = v
            return (f"user_sets_x64={v}", None, thunk, None, False)
        raise KeyError(kind)

    lookup_seen, own_seen = set(), set()
    abort = [None]
    first_conv_obs = [None]
    stats = {"conversions": 0, "ok": 0, "raised": 0, "snapshots": 0, "probe_calls": 0, "kinds": {}}

    def check_after(label, idx):
        # x64 flag
        if bool(jax.config.jax_enable_x64) != flag_user[0]:
            finding(f"x64-flag:{label.split(':')[0]}", f"jax_enable_x64 is {bool(jax.config.jax_enable_x64)} after step {label}, "
                    f"was {flag_user[0]} before", {"kind": "history", "seed": seed, "step": idx, "label": label})
            jax.config.update("jax_enable_x64", flag_user[0])
        # patch bookkeeping
        if ps._PATCH_STATE:
            finding(f"patch-state-not-empty:{label.split(':')[0]}", f"_PATCH_STATE keeps {len(ps._PATCH_STATE)} entries after {label}",
                    {"kind": "history", "seed": seed, "step": idx, "label": label})
        if ps._IN_FUNCTION_BUILD.get():
            finding(f"contextvar-in-function-build:{label.split(':')[0]}", f"_IN_FUNCTION_BUILD = {ps._IN_FUNCTION_BUILD.get()} after {label}",
                    {"kind": "history", "seed": seed, "step": idx, "label": label})
        # namespace
        lookup, own_only, added = snap.diff()
        stats["snapshots"] += 1
        if len(lookup) > 25 and not abort[0]:
            # the process is no longer usable (hundreds of library attributes left patched): report and stop
            abort[0] = f"{len(lookup)} attributes changed by step {label}"
            finding(f"mass-attr-leak:{label.split(':')[0]}",
                    f"after to_onnx ({label}) {len(lookup)} library attributes no longer resolve to what they did right before "
                    f"the call, e.g. {[_qual(o) + '.' + n for (o, n, _b, _a) in lookup[:4]]}",
                    {"kind": "history", "seed": seed, "step": idx, "label": label,
                     "history": [x["label"] for x in res["steps"]]})
        for (o, name, b, a) in lookup:
            k = f"{_qual(o)}.{name}"
            if not ((id(o), name) in spec_key_ids or callable(b) or callable(a)):
                # plain data re-bound by the library itself (counters, flags): recorded, not a patch leak
                if k not in lookup_seen:
                    lookup_seen.add(k)
                    res.setdefault("data_rebinds", []).append({"attr": k, "before": repr(b)[:60], "after": repr(a)[:60]})
                continue
            if k not in lookup_seen:
                lookup_seen.add(k)
                res.setdefault("lookup_diffs", []).append({"attr": k, "before": repr(b)[:120], "after": repr(a)[:120],
                                                           "first_seen_after": label, "step": idx})
        for (o, name, b, a) in own_only:
            k = f"{_qual(o)}.{name}"
            if k not in own_seen:
                own_seen.add(k)
                res.setdefault("own_only_diffs", []).append({"attr": k, "before": repr(b)[:80], "after": repr(a)[:80],
                                                             "first_seen_after": label})
        res["added"] = [{"attr": f"{_qual(o)}.{n}", "module_valued": m, "value": repr(a)[:80]} for (o, n, _b, a, m) in added][:200]
        # user models
        for k, v in models.items():
            if not _same_leaves(leaves0[k], _leaves(v)):
                finding(f"user-model-mutated:{k}", f"pytree leaves of user object {k} differ after {label}",
                        {"kind": "history", "seed": seed, "step": idx, "label": label})
            if k in vars0 and sorted(vars(v)) != vars0[k]:
                finding(f"user-model-mutated:{k}:attributes", f"instance attributes of {k} changed after {label}: "
                        f"{sorted(set(vars(v)) ^ set(vars0[k]))}", {"kind": "history", "seed": seed, "step": idx, "label": label})

    def check_probes(label, idx):
        for k, (f, a) in eager_probes.items():
            r = _call(f, a)
            stats["probe_calls"] += 1
            if not _same_result(probe0[k], r):
                finding(f"eager-probe-changed:{k}", f"eager probe {k} gave {probe0[k][0]} before any conversion and "
                        f"{r[0]} ({r[1] if r[0] == 'raised' else 'different value'}) after {label}",
                        {"kind": "history", "seed": seed, "step": idx, "label": label, "probe": k})
        if not cold_probe_checked[0]:
            cold_probe_checked[0] = True
            r = _call(probe_cold, x3)
            exp = np.cos(np.asarray(x3)) * 3.0 + np.mean(np.asarray(x3))
            if r[0] != "ok" or not np.allclose(r[1], exp, rtol=1e-5):
                finding("eager-probe-changed:probe_cold", f"jitted probe first called after a conversion: {r}",
                        {"kind": "history", "seed": seed, "step": idx, "label": label})

    def do_step(kind, idx):
        label, expect_ok, thunk, eager, dbl = mk_step(kind)
        stats["kinds"][kind] = stats["kinds"].get(kind, 0) + 1
        before = _call(*eager) if eager else None
        raised = None
        g0 = object_graph(eager[0]) if eager else None
        snap.base = snap.take()          # the property is per call: compare with the state right before it
        try:
            thunk()
        except BaseException as e:  # noqa: BLE001  (KeyboardInterrupt / SystemExit are injected on purpose)
            raised = f"{type(e).__name__}: {str(e)[:120]}"
        if g0 is not None:
            stats["object_graphs"] = stats.get("object_graphs", 0) + 1
            stats["objects_compared"] = stats.get("objects_compared", 0) + len(g0[0])
            gd = object_graph_diff(g0[0], object_graph(eager[0])[0])
            if gd:
                finding(f"user-object-mutated:{label.split(':')[0]}",
                        f"to_onnx ({label}) changed objects of the USER reachable from the converted callable: {gd[:4]}",
                        {"kind": "history", "seed": seed, "step": idx, "label": label, "changes": gd[:10]})
        if expect_ok is not None:
            stats["conversions"] += 1
            stats["ok" if raised is None else "raised"] += 1
        res["steps"].append({"i": idx, "label": label, "double": dbl, "raised": raised, "expected_ok": expect_ok})
        check_after(label, idx)
        if eager:
            after = _call(*eager)
            stats["probe_calls"] += 1
            if not _same_result(before, after):
                finding(f"converted-callable-changed:{label.split(':')[0]}",
                        f"the converted callable of step {label} gave {before[0]} eagerly before and {after[0]} "
                        f"({after[1] if after[0] == 'raised' else 'different value'}) after the conversion",
                        {"kind": "history", "seed": seed, "step": idx, "label": label})
        return raised

    # step 0: one plain successful conversion, then record the model-level observation
    idx = 0
    do_step("ok_jnp", idx)
    first_conv_obs[0] = uni.observe()
    res["obs1"] = first_conv_obs[0]
    check_probes("first conversion", idx)

    must = ["ok_unique_nnx", "ok_unique_eqx", "ok_unique_nnx", "fail_trace_base", "fail_lowering_base", "fail_body_base",
            "fail_enter_base", "fail_trace_base", "fail_enter_base",
            "ok_linear", "ok_linen", "ok_eqx", "ok_onnx_function", "ok_nested_function", "ok_file", "fail_trace",
            "fail_unsupported", "fail_lowering", "fail_function_body_trace", "fail_function_body_lowering",
            "fail_serialization", "fail_output_names", "user_toggles_x64", "ok_jnp", "fail_trace", "user_toggles_x64",
            "ok_linear", "fail_lowering"]
    extra_n = 14 if tier == "quick" else 400
    allk = ["ok_unique_nnx", "ok_unique_eqx", "fail_trace_base", "fail_lowering_base", "fail_body_base", "fail_enter_base",
            "ok_jnp", "ok_linear", "ok_linen", "ok_eqx", "ok_onnx_function", "ok_nested_function", "ok_file", "fail_trace",
            "fail_unsupported", "fail_lowering", "fail_function_body_trace", "fail_function_body_lowering",
            "fail_serialization", "fail_output_names", "user_toggles_x64"]
    plan = must + [rng.choice(allk) for _ in range(extra_n)]
    rng.shuffle(plan)
    for kind in plan:
        idx += 1
        do_step(kind, idx)
        if abort[0]:
            break
        if idx % 6 == 0:
            check_probes(f"step {idx}", idx)
    if abort[0]:
        res["aborted"] = abort[0]
        res["obs_end"] = uni.observe()
        res["cache_cases"] = []
        res["stats"] = stats
        res["wall"] = round(time.time() - t0, 2)
        json.dump(res, open(out_path, "w"), default=str)
        return
    if flag_user[0]:
        jax.config.update("jax_enable_x64", False)
        flag_user[0] = False
    check_probes("end of history", idx)
    res["obs_end"] = uni.observe()

    # ---------------- histories [convert; the HOST rebinds / deletes a patched attribute; convert]
    import inspect as _inspect
    import importlib
    rebind_log = []

    def _resolve_attr(path):
        mod, _, name = path.rpartition(".")
        try:
            return importlib.import_module(mod), name
        except Exception:  # noqa: BLE001
            m2, _, cls = mod.rpartition(".")
            return getattr(importlib.import_module(m2), cls), name
    conv_block = nnx.Conv(1, 1, kernel_size=(1,), rngs=nnx.Rngs(3))
    xc = jnp.ones((1, 4, 1), jnp.float32)
    lconv = nn.Conv(features=1, kernel_size=(1,))
    lconv_params = lconv.init(jax.random.PRNGKey(5), xc)
    G_main = sys.modules["__main__"]
    # (attribute, mechanism(s) that patch it, conversion exercised, eager callable that goes through the attribute)
    rebind_targets = [
        ("flax.nnx.relu", (nnx, "relu"), lambda: to_onnx(lambda x: nnx.relu(x) + 1.0, [(3,)]), (lambda: nnx.relu(x3) + 1.0)),
        ("flax.nnx.nn.linear.Conv.__call__", (nnx.Conv, "__call__"), lambda: to_onnx(lambda x: jnp.sin(x), [(3,)]), (lambda: conv_block(xc))),
        ("flax.linen.linear.Conv.__call__", (nn.Conv, "__call__"), lambda: to_onnx(lambda x: jnp.sin(x), [(3,)]), (lambda: lconv.apply(lconv_params, xc))),
        ("__main__.user_scale", (G_main, "user_scale"), lambda: to_onnx(lambda x: G_main.user_scale(x) + 1.0, [(3,)]), (lambda: G_main.user_scale(x3))),
        ("__main__.UserBlock.__call__", (UserBlock, "__call__"), lambda: to_onnx(lambda x: block(x), [(2, 4)]), (lambda: block(x4))),
        ("jax.numpy.sin", (jnp, "sin"), lambda: to_onnx(lambda x: jnp.sin(x) * 2.0, [(3,)]), (lambda: jnp.sin(x3) * 2.0)),
        ("flax.nnx.nn.linear.Linear.__call__", (nnx.Linear, "__call__"), lambda: to_onnx(lambda x: linear(x), [(2, 4)]), (lambda: linear(x4))),
        ("jax.nn.relu", (jax.nn, "relu"), lambda: to_onnx(lambda x: jax.nn.relu(x), [(3,)]), (lambda: jax.nn.relu(x3))),
    ]
    amp_ids = {(id(t), a) for (t, a) in amp}
    leaf_ids = {(id(t), a) for fr in frames for (t, a, _k, _n) in fr}

    def rebind_history(name, obj, attr, kind, conv, eager):
        mech = "+".join(m for m, ids in (("apply_monkey_patches", amp_ids), ("apply_patches", leaf_ids)) if (id(obj), attr) in ids) or "unpatched"
        d = vars(obj)
        had_own = attr in d
        orig_own = d.get(attr, MISSING)
        cur = getattr(obj, attr, MISSING)
        if cur is MISSING or (kind == "delete" and not had_own):
            return
        calls = [0]
        steps = ["to_onnx"]
        try:
            conv()
        except Exception:  # noqa: BLE001
            pass
        if kind == "wrapper":
            def host_binding(*a, **k):
                calls[0] += 1
                return cur(*a, **k)
            try:
                host_binding.__signature__ = _inspect.signature(cur)
            except Exception:  # noqa: BLE001
                pass
        elif kind == "different":
            def host_binding(*a, **k):       # a different function object of the host (same behaviour, so models keep working)
                calls[0] += 1
                return cur(*a, **k)
            host_binding.__name__ = getattr(cur, "__name__", "f")
            host_binding.__qualname__ = "host_redefinition"
        if kind == "delete":
            delattr(obj, attr)
            steps.append(f"host: del {name}")
        else:
            setattr(obj, attr, host_binding)
            steps.append(f"host: {name} = <{kind}>")
        try:
            for rnd in range(2):
                pre_static = _inspect.getattr_static(obj, attr, MISSING)
                pre_own = vars(obj).get(attr, MISSING)
                pre_eager = _call(eager)
                snap.base = snap.take()
                raised = None
                try:
                    conv()
                except Exception as e:  # noqa: BLE001
                    raised = f"{type(e).__name__}: {str(e)[:80]}"
                steps.append("to_onnx" + (f" (raised {raised})" if raised else ""))
                stats["conversions"] += 1
                post_static = _inspect.getattr_static(obj, attr, MISSING)
                post_own = vars(obj).get(attr, MISSING)
                c0 = calls[0]
                post_eager = _call(eager)
                went_through = (kind == "delete") or pre_eager[0] != "ok" or calls[0] > c0
                ok = (post_static is pre_static) and (post_own is pre_own) and _same_result(pre_eager, post_eager) and went_through
                rebind_log.append({"attr": name, "kind": kind, "mechanism": mech, "round": rnd, "ok": bool(ok), "raised": raised})
                if not ok:
                    finding(f"host-binding-lost:{name}:{kind}",
                            f"history {steps}: right before the last to_onnx {name} was the host's {pre_static!r}"[:300]
                            + f"; after it {name} is {post_static!r}"[:200]
                            + (f" (own entry {pre_own!r} -> {post_own!r})"[:160] if post_own is not pre_own else "")
                            + ("" if went_through else "; eager calls no longer go through the host's binding")
                            + f" [patched by {mech}]",
                            {"kind": "rebind", "seed": seed, "attr": name, "rebinding": kind, "history": steps})
                check_after(f"rebind:{name}:{kind}", -2)
        finally:
            if had_own:
                setattr(obj, attr, orig_own)
            elif attr in vars(obj):
                delattr(obj, attr)
    for (name, (obj, attr), conv, eager) in rebind_targets:
        for kind in ("wrapper", "different"):
            rebind_history(name, obj, attr, kind, conv, eager)
    for (name, (obj, attr), conv, eager) in rebind_targets:
        if name in ("__main__.user_scale", "jax.nn.relu", "__main__.UserBlock.__call__"):
            rebind_history(name, obj, attr, "delete", conv, eager)
    res["rebind_log"] = rebind_log
    # cumulative: everything the host did not change itself is still what it was at the start
    snap.base = snap.origin
    check_after("end of all histories (cumulative)", idx)
    check_probes("after host-rebinding histories", idx)

    # ---------------- (e) jit trace cache: behavioural tie + known defect
    cache_cases = []

    def fresh_jitted(uses_patched):
        if uses_patched:
            @jax.jit
            def g(x):
                return jnp.sin(x) * 2.0
        else:
            @jax.jit
            def g(x):
                return x * 2.0 + 1.0
        return g
    avals = [jnp.ones((3,), jnp.float32), jnp.ones((4,), jnp.float32)]
    scen = [
        ("cold", [("X", 0, 0), ("E", 0, 0)]),
        ("warm", [("E", 0, 0), ("X", 0, 0), ("E", 0, 0)]),
        ("other-avals", [("X", 0, 0), ("E", 0, 1), ("E", 0, 0)]),
        ("cold-export-fails-in-lowering", [("XF", 0, 0), ("E", 0, 0)]),
        ("two-callees", [("X", 0, 0), ("E", 1, 0), ("X", 1, 1), ("E", 1, 1), ("E", 0, 1)]),
    ]
    for _ in range(3 if tier == "quick" else 60):
        n = rng.randint(2, 5)
        scen.append(("random", [(rng.choice(["X", "E", "E", "XF"]), rng.randint(0, 1), rng.randint(0, 1)) for _ in range(n)]))
    for name, evs in scen:
        gs = [fresh_jitted(True), fresh_jitted(True)]
        results = []
        for (ev, gi, ai) in evs:
            g, a = gs[gi], avals[ai]
            if ev in ("X", "XF"):
                f = (lambda g: (lambda x: g(x) + 1.0))(g)
                spec = [tuple(a.shape)]
                exported = None
                snap.base = snap.take()
                try:
                    if ev == "XF":
                        pl = ps.PLUGIN_REGISTRY.get("add")
                        with mock.patch.object(type(pl), "lower", boom_lower):
                            to_onnx(f, spec)
                    else:
                        to_onnx(f, spec)
                    exported = "ok"
                except Exception as e:  # noqa: BLE001
                    exported = f"{type(e).__name__}"
                stats["conversions"] += 1
                results.append({"ev": ev, "g": gi, "av": ai, "export": exported})
                check_after(f"inner-jit-export:{name}", -1)
                # the converted callable itself, eagerly, with the same avals
                r = _call(f, a)
                if r[0] == "raised" and "MLIR translation rule" in r[1]:
                    finding(K_JIT_CALLER, "after to_onnx(f) where f calls a jax.jit-decorated function first traced during that "
                            f"conversion, calling f eagerly with the same avals raises {r[1]}",
                            {"kind": "jit_cache", "scenario": name, "events": evs})
            else:
                r = _call(g, a)
                exp = np.sin(np.asarray(a)) * 2.0
                ok = r[0] == "ok" and np.allclose(r[1], exp, rtol=1e-5)
                mlir = (r[0] == "raised" and "MLIR translation rule" in r[1])
                results.append({"ev": "E", "g": gi, "av": ai, "ok": bool(ok), "mlir": bool(mlir), "detail": None if ok else str(r[1])[:200]})
                if mlir:
                    finding(K_JIT_CALLEE, "after to_onnx(f) where f calls a jax.jit-decorated function g that is traced for the "
                            f"first time during the conversion, calling g eagerly with the same avals raises {r[1]} "
                            "(the jit cache keeps the trace made while the converter's substitutes were active)",
                            {"kind": "jit_cache", "scenario": name, "events": evs})
                elif not ok:
                    finding(f"jit-eager-changed:{name}", f"jitted callee gave {r} after events {evs}",
                            {"kind": "jit_cache", "scenario": name, "events": evs})
        cache_cases.append({"scenario": name, "events": evs, "results": results})
    # control: a callee that uses no substituted function is unaffected
    g = fresh_jitted(False)
    try:
        to_onnx(lambda x: g(x) + 1.0, [(3,)])
    except Exception:  # noqa: BLE001
        pass
    r = _call(g, avals[0])
    res["notes"]["callee_without_substituted_functions_after_export"] = r[0]
    if r[0] != "ok":
        finding("jit-eager-changed:callee-without-substituted-functions", f"{r}", {"kind": "jit_cache", "scenario": "control"})
    res["cache_cases"] = cache_cases
    res["stats"] = stats
    res["wall"] = round(time.time() - t0, 2)
    json.dump(res, open(out_path, "w"), default=str)


def worker_poison(seed, tier, out_path):
    """an exception inside the enter loop of apply_monkey_patches (before its try): @onnx_function on a
    function that is not an attribute of its module -> getattr raises AttributeError"""
    import inspect
    import jax
    import jax.numpy as jnp
    from flax import nnx
    from jax2onnx import to_onnx, onnx_function
    from jax2onnx.plugins import plugin_system as ps
    res = {"findings": []}
    G = globals()

    class UserBlock(nnx.Module):
        def __init__(self, rngs):
            self.lin = nnx.Linear(4, 4, rngs=rngs)

        def __call__(self, x):
            return jnp.tanh(self.lin(x))
    UserBlock.__module__ = "__main__"
    UserBlock.__qualname__ = "UserBlock"
    G["UserBlock"] = UserBlock
    onnx_function(UserBlock)
    block = UserBlock(nnx.Rngs(0))
    x = jnp.ones((2, 4), jnp.float32)
    ps.import_all_plugins()
    to_onnx(lambda x: block(x), [(2, 4)])           # a normal conversion first
    amp = [(t, a) for _f, ts, a in ps._iter_patch_specs() for t in ts]
    before = [inspect.getattr_static(t, a, MISSING) for t, a in amp]
    y0 = _call(lambda x: block(x), x)
    j0 = _call(jax.jit(lambda x: block(x)), x)

    def make():
        @onnx_function
        def local_fn(x):
            return jnp.cos(x)
        return local_fn
    lf = make()
    try:
        to_onnx(lambda x: lf(block(x)), [(2, 4)])
        raised = None
    except Exception as e:  # noqa: BLE001
        raised = f"{type(e).__name__}: {str(e)[:120]}"
    after = [inspect.getattr_static(t, a, MISSING) for t, a in amp]
    leaked = [f"{_qual(t)}.{a}" for (t, a), b, c in zip(amp, before, after) if b is not c]
    lib = [k for (t, a), k in zip([(t, a) for (t, a), b, c in zip(amp, before, after) if b is not c], leaked) if _scope(_obj_module(t))]
    y1 = _call(lambda x: block(x), x)
    j1 = _call(jax.jit(lambda x: block(x)), x)
    res.update({"raised": raised, "leaked": len(leaked), "leaked_library": lib, "patch_state": len(ps._PATCH_STATE),
                "eager_before": y0[0], "eager_after": y1[0] if y1[0] == "ok" else y1[1],
                "jit_before": j0[0], "jit_after": j1[0] if j1[0] == "ok" else j1[1]})
    if leaked:
        res["findings"].append({"key": K_AMP_ENTER,
                                "what": f"to_onnx raised {raised} inside the enter loop of apply_monkey_patches (it runs before the "
                                        f"try); {len(leaked)} attributes patched earlier in that loop stay patched for ever "
                                        f"(_PATCH_STATE keeps {len(ps._PATCH_STATE)} entries), among them {lib[:3]} and the user's "
                                        f"UserBlock.__call__; eager call of the user model afterwards: {res['eager_after']}",
                                "replay": {"kind": "poison"}})
    json.dump(res, open(out_path, "w"), default=str)



# =====================================================================================  MAIN SIDE
COQ_HEADER = """From Coq Require Import ZArith List Bool.
From J2O Require Import Patch.
Import ListNotations.
Open Scope N_scope.
Set Printing Width 1000000.
Set Printing Depth 1000000.
Fixpoint bad_idx_ {A} (f : A -> bool) (i : nat) (l : list A) : list nat :=
  match l with [] => [] | x :: r => if f x then bad_idx_ f (S i) r else i :: bad_idx_ f (S i) r end.
"""


def _lst(items):
    return "[" + "; ".join(items) + "]"


def _opt(x):
    return "None" if x is None else f"(Some {x}%N)"


def _obs_lit(obs):
    return _lst(f"({t},{a},{_opt(o)},{_opt(l)})" for (t, a, o, l) in obs)


def _spec_lit(d):
    if d[0] == "assign":
        return f"DAssign {d[1]} {d[2]} {d[3]}%N"
    if d[0] == "monkey":
        return f"DMonkey {d[1]} {d[2]} {d[3]}%N"
    return f"DMonkeyRaise {d[1]} {d[2]}"


def _fault_lit(f):
    return f if isinstance(f, str) else f"({f[0]} {f[1]})"


class Val:
    __slots__ = ("id",)

    def __init__(self, i):
        self.id = i

    def __repr__(self):
        return f"Val({self.id})"


class FaultMeta(type):
    """classes whose attribute assignment can be made to raise once (before or after taking effect)"""
    trigger = None

    def __setattr__(cls, name, value):
        tr = FaultMeta.trigger
        if tr is not None and tr[0] is cls and tr[1] == name:
            FaultMeta.trigger = None
            if tr[2] == "after":
                super().__setattr__(name, value)
            raise (tr[3] if len(tr) > 3 else RuntimeError)("c13: injected setattr fault")
        super().__setattr__(name, value)


class _BodyError(Exception):
    pass


class _BaseErr(BaseException):
    """a BaseException that is not an Exception (like pytest's Skipped / Failed)"""


# exit kinds injected at every fault point: an Exception and BaseExceptions that are not Exceptions
EXIT_KINDS = [_BodyError, RuntimeError, KeyboardInterrupt, SystemExit, GeneratorExit, _BaseErr]


def _pick_kind(rng):
    return rng.choice(EXIT_KINDS) if rng.random() < 0.7 else _BodyError


def _kind_name(k):
    return "Exception" if issubclass(k, Exception) else f"BaseException:{k.__name__}"


ATTRS = ["a0", "a1", "a2"]


def _synth_targets(rng):
    import types
    classes = []
    for i in range(rng.randint(1, 5)):
        c = None
        for _ in range(6):
            k = rng.choice([0, 1, 1, 2, 2]) if classes else 0
            bases = tuple(rng.sample(classes, min(k, len(classes))))
            try:
                c = FaultMeta(f"C{i}", bases, {})
                break
            except TypeError:
                continue
        if c is None:
            c = FaultMeta(f"C{i}", (), {})
        classes.append(c)
    mods = [types.ModuleType(f"c13_mod{j}") for j in range(rng.randint(1, 2))]
    insts = [rng.choice(classes)() for _ in range(rng.choice([0, 0, 1]))]
    targets = classes + mods + insts
    nid = [0]

    def fresh():
        nid[0] += 1
        return Val(nid[0])
    own = []
    for ti, t in enumerate(targets):
        for ai, a in enumerate(ATTRS):
            if rng.random() < 0.35:
                v = fresh()
                setattr(t, a, v)
                own.append((ti, ai, v.id))
    mro = []
    for t in targets:
        idx = {id(x): i for i, x in enumerate(targets)}
        mro.append([idx[id(c)] for c in _mro_strict(t) if id(c) in idx])
    return targets, classes, mro, own


def _observe(targets):
    out = []
    for ti, t in enumerate(targets):
        for ai, a in enumerate(ATTRS):
            o = vars(t).get(a)
            l = getattr(t, a, MISSING)
            out.append((ti, ai, None if o is None else o.id, None if l is MISSING else l.id))
    return out


def gen_patch_case(rng, ci):
    from jax2onnx.plugins._patching import AssignSpec, MonkeyPatchSpec
    targets, classes, mro, own = _synth_targets(rng)
    n_frames = rng.randint(1, 3)
    real, model = [], []
    kinds_used = []
    body_kind = _pick_kind(rng)
    gidx = 0
    for _fi in range(n_frames):
        fr_r, fr_m = [], []
        for _ in range(rng.randint(0, 4)):
            gidx += 1
            ti = rng.randrange(len(targets))
            ai = rng.randrange(len(ATTRS))
            r = rng.random()
            if r < 0.42:
                v = Val(1000 + gidx)
                fr_r.append(AssignSpec(targets[ti], ATTRS[ai], v))
                fr_m.append(("assign", ti, ai, v.id))
            elif r < 0.94:
                base = 10000 * gidx
                fr_r.append(MonkeyPatchSpec(targets[ti], ATTRS[ai],
                                            (lambda b: (lambda orig: Val(b + (0 if orig is None else orig.id + 1))))(base)))
                fr_m.append(("monkey", ti, ai, base))
            else:
                mk_kind = _pick_kind(rng)
                kinds_used.append(mk_kind)

                def _raise(orig, _k=mk_kind):
                    raise _k("c13: make_value raises")
                fr_r.append(MonkeyPatchSpec(targets[ti], ATTRS[ai], _raise))
                fr_m.append(("raise", ti, ai))
        real.append(fr_r)
        model.append([fr_m, "NoFault"])
    body_raises = False
    fkind = "none"
    positions = [(fi, k) for fi, fr in enumerate(model) for k in range(len(fr[0]))]
    r = rng.random()
    if r < 0.22:
        body_raises, fkind = True, "body"
    elif r < 0.40 and positions:
        fi, k = rng.choice(positions)
        real[fi][k] = AssignSpec("c13_no_such_module_xyz.attr", "a0", Val(1))
        model[fi][0][k] = ("assign", 0, 0, 1)
        model[fi][1] = ("BeforeSet", k)
        fkind = "resolve"
    elif r < 0.62 and positions:
        # setattr raising on a class target, only when this spec is the first to assign that (class, attr)
        cands = []
        seen = set()
        for fi, fr in enumerate(model):
            for k, d in enumerate(fr[0]):
                key = (d[1], d[2])
                if key not in seen and d[1] < len(classes) and d[0] != "raise":
                    cands.append((fi, k, d))
                seen.add(key)
        if cands:
            fi, k, d = rng.choice(cands)
            mode = rng.choice(["before", "after"])
            sk = _pick_kind(rng)
            kinds_used.append(sk)
            FaultMeta.trigger = (targets[d[1]], ATTRS[d[2]], mode, sk)
            model[fi][1] = ("BeforeSet" if mode == "before" else "AfterSet", k)
            fkind = "setattr-" + mode
    if any(d[0] == "raise" for fr in model for d in fr[0]) and fkind == "none":
        fkind = "make_value"
    from jax2onnx.plugins._patching import apply_patches
    before = _observe(targets)
    mid = [None]

    def rec(i):
        if i == len(real):
            mid[0] = _observe(targets)
            if body_raises:
                kinds_used.append(body_kind)
                raise body_kind()
            return
        with apply_patches(real[i]):
            rec(i + 1)
    try:
        rec(0)
        oc = "Returned"
    except BaseException:  # noqa: BLE001  (KeyboardInterrupt / SystemExit are injected on purpose)
        oc = "Raised"
    FaultMeta.trigger = None
    after = _observe(targets)
    lit = ("(" + _lst(f"({i},{_lst(map(str, m))})" for i, m in enumerate(mro)) + ", "
           + _lst(f"({t},{a},{v}%N)" for (t, a, v) in own) + ", "
           + _lst(f"({_lst(_spec_lit(d) for d in fr)},{_fault_lit(f)})" for fr, f in model) + ", "
           + ("false" if body_raises else "true") + ", "
           + ("None" if mid[0] is None else f"(Some {_obs_lit(mid[0])})") + ", "
           + _obs_lit(after) + ", " + oc + ")")
    info = {"exit_kinds": sorted({_kind_name(k) for k in kinds_used}) if oc == "Raised" else [], "fault": fkind, "frames": n_frames, "specs": sum(len(fr[0]) for fr in model),
            "dups": sum(len(fr[0]) for fr in model) - len({(d[1], d[2]) for fr in model for d in fr[0]}),
            "perfect": after == before, "lookup_restored": [x[3] for x in after] == [x[3] for x in before],
            "multi_inherit": any(len(c.__bases__) > 1 for c in classes),
            "model": {"mro": mro, "own": own, "frames": model, "body_raises": body_raises}, "after": after, "before": before}
    return lit, info


def gen_amp_case(rng, ci):
    from unittest import mock
    from jax2onnx.plugins import plugin_system as ps
    targets, classes, mro, own = _synth_targets(rng)
    ks_model = []
    stubs = {}
    gidx = 0
    kinds_used = []
    body_kind = _pick_kind(rng)
    for si in range(rng.randint(1, 4)):
        gidx += 1
        ai = rng.randrange(len(ATTRS))
        resolvable = [i for i, t in enumerate(targets) if getattr(t, ATTRS[ai], MISSING) is not MISSING]
        tis = [rng.choice(resolvable) if resolvable and rng.random() < 0.9 else rng.randrange(len(targets))
               for _ in range(rng.choice([1, 1, 2]))]
        raising = rng.random() < 0.08
        base = 10000 * gidx
        if raising:
            pk = _pick_kind(rng)
            kinds_used.append(pk)

            def fn(orig, _k=pk):
                raise _k("c13: patch_function raises")
        else:
            fn = (lambda b: (lambda orig: Val(b + orig.id + 1)))(base)

        class _Stub:
            pass
        st = _Stub()
        st.patch_info = (lambda tl, f, an: (lambda: {"patch_targets": tl, "patch_function": f, "target_attribute": an}))(
            [targets[i] for i in tis], fn, ATTRS[ai])
        stubs[f"c13_stub_{si}"] = st
        for ti in tis:
            ks_model.append((ti, ai, "PfRaise" if raising else f"(PfAffine {base}%N)"))
    depth = rng.randint(1, 3)
    body_raises = rng.random() < 0.35
    before = _observe(targets)
    ps._PATCH_STATE.clear()

    reached = [False]

    def rec(d):
        if d == 0:
            reached[0] = True
            if body_raises:
                kinds_used.append(body_kind)
                raise body_kind()
            return
        with ps.apply_monkey_patches():
            rec(d - 1)
    with mock.patch.dict(ps.PLUGIN_REGISTRY, stubs, clear=True):
        try:
            rec(depth)
            oc = "Returned"
        except BaseException:  # noqa: BLE001
            oc = "Raised"
    after = _observe(targets)
    psafter = []
    for ti, t in enumerate(targets):
        for ai, a in enumerate(ATTRS):
            st = ps._PATCH_STATE.get((t, a))
            psafter.append((ti, ai, None if st is None else (st["orig"].id, st["count"], bool(st.get("owned", True)))))
    leaked_state = len(ps._PATCH_STATE)
    ps._PATCH_STATE.clear()
    lit = ("(" + _lst(f"({i},{_lst(map(str, m))})" for i, m in enumerate(mro)) + ", "
           + _lst(f"({t},{a},{v}%N)" for (t, a, v) in own) + ", "
           + _lst(f"({t},{a},{p})" for (t, a, p) in ks_model) + ", " + str(depth) + "%nat, "
           + ("false" if body_raises else "true") + ", " + _obs_lit(after) + ", "
           + _lst(f"({t},{a},{'None' if e is None else f'(Some ({e[0]}%N,{e[1]}%Z,{_b(e[2])}))'})" for (t, a, e) in psafter) + ", " + oc + ")")
    missing_key = any(getattr(targets[t], ATTRS[a], MISSING) is MISSING for (t, a, _p) in ks_model)
    info = {"exit_kinds": sorted({_kind_name(k) for k in kinds_used}) if oc == "Raised" else [],
            "depth": depth, "keys": len(ks_model), "body_raises": body_raises, "enter_fault": not reached[0],
            "perfect": after == before and leaked_state == 0, "outcome": oc,
            "lookup_restored": [x[3] for x in after] == [x[3] for x in before],
            "model": {"mro": mro, "own": own, "keys": ks_model, "depth": depth, "body_raises": body_raises},
            "before": before, "after": after,
            "dups": len(ks_model) - len({(t, a) for (t, a, _p) in ks_model})}
    return lit, info


def gen_amp_history_case(rng, ci):
    """activations of the same keys in SEQUENCE, the host rebinding / deleting attributes (mostly
    patched ones) between them; _PATCH_STATE and anything else the real function keeps is NOT reset
    between the rounds"""
    from unittest import mock
    from jax2onnx.plugins import plugin_system as ps
    targets, classes, mro, own = _synth_targets(rng)
    ks_model, stubs = [], {}
    for si in range(rng.randint(1, 3)):
        ai = rng.randrange(len(ATTRS))
        resolvable = [i for i, t in enumerate(targets) if getattr(t, ATTRS[ai], MISSING) is not MISSING]
        tis = [rng.choice(resolvable) if resolvable and rng.random() < 0.95 else rng.randrange(len(targets))
               for _ in range(rng.choice([1, 1, 2]))]
        base = 10000 * (si + 1)
        fn = (lambda b: (lambda orig: Val(b + orig.id + 1)))(base)

        class _Stub:
            pass
        st = _Stub()
        st.patch_info = (lambda tl, f, an: (lambda: {"patch_targets": tl, "patch_function": f, "target_attribute": an}))(
            [targets[i] for i in tis], fn, ATTRS[ai])
        stubs[f"c13_hstub_{si}"] = st
        for ti in tis:
            ks_model.append((ti, ai, f"(PfAffine {base}%N)"))
    ps._PATCH_STATE.clear()
    rounds_lit, rounds_info = [], []
    lost = None
    with mock.patch.dict(ps.PLUGIN_REGISTRY, stubs, clear=True):
        for r in range(rng.randint(2, 4)):
            w = None
            if r > 0 and rng.random() < 0.85:
                ti, ai, _p = rng.choice(ks_model) if rng.random() < 0.8 else (rng.randrange(len(targets)), rng.randrange(len(ATTRS)), None)
                t, a = targets[ti], ATTRS[ai]
                if a in vars(t) and rng.random() < 0.3:
                    delattr(t, a)
                    w = (ti, ai, None)
                else:
                    v = Val(500 + 10 * r + ai)
                    setattr(t, a, v)
                    w = (ti, ai, v.id)
            depth = rng.randint(1, 2)
            body_raises = rng.random() < 0.25
            body_kind = _pick_kind(rng)
            pre = _observe(targets)

            def rec(d):
                if d == 0:
                    if body_raises:
                        raise body_kind()
                    return
                with ps.apply_monkey_patches():
                    rec(d - 1)
            try:
                rec(depth)
                oc = "Returned"
            except BaseException:  # noqa: BLE001
                oc = "Raised"
            after = _observe(targets)
            psafter = []
            for ti2, t2 in enumerate(targets):
                for ai2, a2 in enumerate(ATTRS):
                    st = ps._PATCH_STATE.get((t2, a2))
                    psafter.append((ti2, ai2, None if st is None else (st["orig"].id, st["count"], bool(st.get("owned", True)))))
            wl = "None" if w is None else f"(Some ({w[0]},{w[1]},{_opt(w[2])}))"
            rounds_lit.append(f"({wl}, {depth}%nat, {_b(not body_raises)}, {_obs_lit(after)}, "
                              + _lst(f"({t3},{a3},{'None' if e is None else f'(Some ({e[0]}%N,{e[1]}%Z,{_b(e[2])}))'})" for (t3, a3, e) in psafter)
                              + f", {oc})")
            rounds_info.append({"host_write": w, "depth": depth, "body_raises": body_raises, "outcome": oc,
                                "getattr_before_call": [x[3] for x in pre], "getattr_after_call": [x[3] for x in after]})
            if lost is None and [x[3] for x in pre] != [x[3] for x in after]:
                lost = r
    ps._PATCH_STATE.clear()
    lit = ("(" + _lst(f"({i},{_lst(map(str, m))})" for i, m in enumerate(mro)) + ", "
           + _lst(f"({t},{a},{v}%N)" for (t, a, v) in own) + ", "
           + _lst(f"({t},{a},{p})" for (t, a, p) in ks_model) + ", " + _lst(rounds_lit) + ")")
    info = {"rounds": rounds_info, "call_changed_getattr_in_round": lost,
            "host_writes": sum(1 for x in rounds_info if x["host_write"]),
            "host_writes_on_patched_keys": sum(1 for x in rounds_info if x["host_write"] and
                                               any((x["host_write"][0], x["host_write"][1]) == (k[0], k[1]) for k in ks_model)),
            "model": {"mro": mro, "own": own, "keys": ks_model}}
    return lit, info


def cross_call_state_scan():
    """AST scan: module-level mutable containers that apply_monkey_patches / _iter_patch_specs /
    apply_patches WRITE to.  The model keeps nothing between calls except _PATCH_STATE (which every
    call returns unchanged, empty at top level)."""
    import ast
    import inspect
    import textwrap
    from jax2onnx.plugins import plugin_system as ps
    from jax2onnx.plugins import _patching as pt
    found = []
    mutators = {"setdefault", "update", "pop", "popitem", "append", "add", "extend", "insert", "remove", "discard", "clear", "__setitem__"}
    for mod, fn in ((ps, ps.apply_monkey_patches), (ps, ps._iter_patch_specs), (pt, pt.apply_patches)):
        f = getattr(fn, "__wrapped__", fn)
        tree = ast.parse(textwrap.dedent(inspect.getsource(f)))
        local = {a.arg for n in ast.walk(tree) if isinstance(n, ast.FunctionDef) for a in n.args.args}
        for n in ast.walk(tree):
            if isinstance(n, (ast.Assign, ast.AnnAssign, ast.AugAssign)):
                tg = n.targets if isinstance(n, ast.Assign) else [n.target]
                for t in tg:
                    for nn in ast.walk(t):
                        if isinstance(nn, ast.Name) and isinstance(t, (ast.Name, ast.Tuple)):
                            local.add(nn.id)
        def is_global_container(name):
            if name in local or not hasattr(mod, name):
                return False
            return isinstance(getattr(mod, name), (dict, list, set)) or hasattr(getattr(mod, name), "__setitem__")
        for n in ast.walk(tree):
            name = None
            if isinstance(n, ast.Subscript) and isinstance(n.ctx, (ast.Store, ast.Del)) and isinstance(n.value, ast.Name):
                name = n.value.id
            elif isinstance(n, ast.Call) and isinstance(n.func, ast.Attribute) and n.func.attr in mutators and isinstance(n.func.value, ast.Name):
                name = n.func.value.id
            elif isinstance(n, ast.Global):
                for g in n.names:
                    if g != "_PATCH_STATE":
                        found.append(f"{f.__name__}: global {g}")
            if name and name != "_PATCH_STATE" and is_global_container(name):
                found.append(f"{f.__name__}: writes module-level {name}")
    return sorted(set(found))


def exit_path_scan():
    """AST: the restoring code of every scoped change is reached on EVERY exit path — it sits in the
    `finally:` of the try that contains the `yield` (context managers) / the call (ContextVar), or the
    scope is an ExitStack `with`.  Fail closed: anything else is reported."""
    import ast
    import inspect
    import textwrap
    from jax2onnx.plugins import plugin_system as ps
    from jax2onnx.plugins import _patching as pt
    from jax2onnx.converter import conversion_api as ca
    from jax2onnx import user_interface as ui
    problems = []

    def restoring(nodes, words):
        src = " ".join(ast.unparse(n) for n in nodes)
        return all(any(w in src for w in alt) for alt in words)

    def check_cm(fn, words, name):
        f = getattr(fn, "__wrapped__", fn)
        tree = ast.parse(textwrap.dedent(inspect.getsource(f)))
        ok = False
        for n in ast.walk(tree):
            if isinstance(n, ast.Try) and any(isinstance(x, (ast.Yield, ast.YieldFrom)) for b in n.body for x in ast.walk(b)):
                if n.finalbody and restoring(n.finalbody, words):
                    ok = True
                else:
                    problems.append(f"{name}: the try around `yield` restores in "
                                    f"{'except/else' if n.handlers or n.orelse else 'nothing'} instead of finally")
                    return
            if isinstance(n, ast.With) and any("ExitStack" in ast.unparse(i.context_expr) for i in n.items) and \
                    any(isinstance(x, (ast.Yield, ast.YieldFrom)) for b in n.body for x in ast.walk(b)):
                ok = True
        if not ok:
            problems.append(f"{name}: no try/finally (or ExitStack) around `yield`")
    check_cm(pt.apply_patches, [("setattr(",), ("delattr(",), ("reversed(",)], "_patching.apply_patches")
    check_cm(ps.apply_monkey_patches, [("setattr(",), ("reversed(",), ("_PATCH_STATE",)], "plugin_system.apply_monkey_patches")
    check_cm(ca._activate_plugin_worlds, [], "conversion_api._activate_plugin_worlds")
    check_cm(ps._activate_full_plugin_worlds_for_body, [], "plugin_system._activate_full_plugin_worlds_for_body")
    check_cm(ca._force_jax_x64, [("jax_enable_x64",)], "conversion_api._force_jax_x64")
    check_cm(ui._temporary_x64, [("jax_enable_x64",)], "user_interface._temporary_x64")
    # plugin_binding: `with apply_patches(...): yield`
    src = textwrap.dedent(inspect.getsource(ps.PrimitiveLeafPlugin.plugin_binding.__func__.__wrapped__
                                            if hasattr(ps.PrimitiveLeafPlugin.plugin_binding.__func__, "__wrapped__")
                                            else ps.PrimitiveLeafPlugin.plugin_binding.__func__))
    if "with apply_patches(" not in src:
        problems.append("PrimitiveLeafPlugin.plugin_binding: not a `with apply_patches(...)` scope")
    # every _IN_FUNCTION_BUILD.set(...) that widens the set has its reset in a finally
    tree = ast.parse(inspect.getsource(ps))
    for n in ast.walk(tree):
        if isinstance(n, ast.Try) and "_IN_FUNCTION_BUILD.set(" in " ".join(ast.unparse(x) for x in n.handlers + n.orelse) \
                and "_IN_FUNCTION_BUILD.set(" not in " ".join(ast.unparse(x) for x in n.finalbody):
            problems.append("plugin_system: _IN_FUNCTION_BUILD reset outside finally")
    sets = [n for n in ast.walk(tree) if isinstance(n, ast.Call) and ast.unparse(n.func) == "_IN_FUNCTION_BUILD.set"]
    in_finally = [c for n in ast.walk(tree) if isinstance(n, ast.Try) for b in n.finalbody for c in ast.walk(b)
                  if isinstance(c, ast.Call) and ast.unparse(c.func) == "_IN_FUNCTION_BUILD.set"]
    if len(sets) != 2 * len(in_finally):
        problems.append(f"plugin_system: {len(sets)} _IN_FUNCTION_BUILD.set calls, {len(in_finally)} of them in a finally")
    return problems


# (function, receiver expression) pairs that may be written with setattr / delattr / __dict__ during a
# conversion: the converter's own context objects, and the patch targets inside the two patch managers.
# `actual_target` is written at DECORATION time (@onnx_function marks), not during conversion.
WRITE_ALLOW = {
    ("FunctionPlugin._allocate_friendly_name", "ctx"), ("FunctionPlugin._lower_and_call", "fscope.ctx"),
    ("_mark_onnx_function_target", "actual_target"),
    ("apply_monkey_patches", "tgt"), ("apply_patches", "tgt"), ("_restore", "tgt"),
    ("FunctionScope.to_ir_function", "fn"),
    ("_append_primitive_call_record", "owner"), ("primitive_recording_scope", "owner"), ("current_eqn_scope", "ctx"),
}


def user_object_write_scan():
    """AST, fail closed: every setattr / delattr / object.__setattr__ / __dict__ write in
    plugins/plugin_system.py, plugins/_patching.py, user_interface.py and converter/*.py whose receiver
    is not one of the converter's own objects (WRITE_ALLOW).  A write to an object of the user (the
    model instance being converted) is a mutation of the host's state."""
    import ast
    import glob
    import jax2onnx
    root = os.path.dirname(jax2onnx.__file__)
    files = [os.path.join(root, "plugins", "plugin_system.py"), os.path.join(root, "plugins", "_patching.py"),
             os.path.join(root, "user_interface.py")] + sorted(glob.glob(os.path.join(root, "converter", "*.py")))
    sites = []

    def visit(node, fn, rel):
        if isinstance(node, (ast.FunctionDef, ast.AsyncFunctionDef, ast.ClassDef)):
            fn = fn + [node.name]
        site = None
        if isinstance(node, ast.Call):
            fu = node.func
            if isinstance(fu, ast.Name) and fu.id in ("setattr", "delattr") and node.args:
                site = ast.unparse(node.args[0])
            elif isinstance(fu, ast.Attribute) and fu.attr in ("__setattr__", "__delattr__", "__setitem__") and node.args \
                    and ast.unparse(fu.value) in ("object", "type", "super()"):
                site = ast.unparse(node.args[0])
            elif isinstance(fu, ast.Attribute) and fu.attr in ("update", "setdefault", "pop", "clear", "__setitem__") and \
                    isinstance(fu.value, ast.Attribute) and fu.value.attr == "__dict__":
                site = ast.unparse(fu.value.value)
            elif isinstance(fu, ast.Attribute) and fu.attr in ("update", "setdefault", "pop", "clear", "__setitem__") and \
                    isinstance(fu.value, ast.Call) and ast.unparse(fu.value.func) == "vars":
                site = ast.unparse(fu.value.args[0]) if fu.value.args else "?"
        if isinstance(node, (ast.Assign, ast.AugAssign, ast.Delete)):
            tg = node.targets if isinstance(node, (ast.Assign, ast.Delete)) else [node.target]
            for t in tg:
                if isinstance(t, ast.Subscript) and isinstance(t.value, ast.Attribute) and t.value.attr == "__dict__":
                    site = ast.unparse(t.value.value)
                if isinstance(t, ast.Subscript) and isinstance(t.value, ast.Call) and ast.unparse(t.value.func) == "vars":
                    site = ast.unparse(t.value.args[0]) if t.value.args else "?"
        if site is not None:
            q = ".".join(fn)
            if (q, site) not in WRITE_ALLOW and (q.split(".")[-1], site) not in WRITE_ALLOW:
                sites.append(f"{rel}:{q}: attribute write on `{site}`")
        for c in ast.iter_child_nodes(node):
            visit(c, fn, rel)
    for f in files:
        visit(ast.parse(open(f).read()), [], os.path.relpath(f, root))
    return sorted(set(sites))


def probe_code_shape():
    """which shape of the patch code is running (Patch.v: fixed = true since /repo b0781c1).
    -> (apply_patches restores an unowned attribute by delattr?, apply_monkey_patches likewise?,
        apply_monkey_patches unwinds when its enter loop raises?)"""
    from unittest import mock
    from jax2onnx.plugins import plugin_system as ps
    from jax2onnx.plugins._patching import AssignSpec, apply_patches

    def fresh():
        P = type("P", (), {"a": Val(1)})
        C = type("C", (P,), {})
        return P, C
    _P, C = fresh()
    with apply_patches([AssignSpec(C, "a", Val(2))]):
        pass
    p_del = "a" not in vars(C)
    P2, C2 = fresh()

    class _Stub:
        pass
    ok_stub, bad_stub = _Stub(), _Stub()
    ok_stub.patch_info = lambda: {"patch_targets": [C2], "patch_function": lambda o: Val(3), "target_attribute": "a"}
    bad_stub.patch_info = lambda: {"patch_targets": [P2], "patch_function": lambda o: Val(4), "target_attribute": "missing_attr"}
    ps._PATCH_STATE.clear()
    with mock.patch.dict(ps.PLUGIN_REGISTRY, {"c13_probe_ok": ok_stub}, clear=True):
        with ps.apply_monkey_patches():
            pass
    a_del = "a" not in vars(C2)
    _P3, C3 = fresh()
    ok_stub.patch_info = lambda: {"patch_targets": [C3], "patch_function": lambda o: Val(3), "target_attribute": "a"}
    bad_stub.patch_info = lambda: {"patch_targets": [C3], "patch_function": lambda o: Val(4), "target_attribute": "missing_attr"}
    ps._PATCH_STATE.clear()
    with mock.patch.dict(ps.PLUGIN_REGISTRY, {"c13_probe_ok": ok_stub, "c13_probe_bad": bad_stub}, clear=True):
        try:
            with ps.apply_monkey_patches():
                pass
        except AttributeError:
            pass
    a_unwinds = getattr(C3, "a").id == 1 and not ps._PATCH_STATE
    ps._PATCH_STATE.clear()
    return p_del, a_del, a_unwinds


def x64_cases():
    """the real context managers against every (previous flag, requested, body behaviour, exit)"""
    import jax
    from jax2onnx.user_interface import _temporary_x64
    from jax2onnx.converter.conversion_api import _force_jax_x64
    saved = bool(jax.config.jax_enable_x64)
    out = []
    for which, cm in (("T", _temporary_x64), ("F", _force_jax_x64), ("TF", None)):
        for prev in (False, True):
            for en in (False, True):
                for sets in (None, False, True):
                    for raises in (False, _BodyError, KeyboardInterrupt, SystemExit, _BaseErr):
                        jax.config.update("jax_enable_x64", prev)
                        seen = [None]

                        def body():
                            seen[0] = bool(jax.config.jax_enable_x64)
                            if sets is not None:
                                jax.config.update("jax_enable_x64", sets)
                            if raises:
                                raise raises()
                        try:
                            if which == "TF":
                                with _temporary_x64(en):
                                    with _force_jax_x64(en):
                                        body()
                            else:
                                with cm(en):
                                    body()
                            oc = "Returned"
                        except BaseException:  # noqa: BLE001
                            oc = "Raised"
                        out.append((which, prev, en, sets, bool(raises), seen[0], bool(jax.config.jax_enable_x64), oc))
    jax.config.update("jax_enable_x64", saved)
    return out


def _b(x):
    return "true" if x else "false"


def _parse_coq_values(out):
    """all `= <term> : <type>` results of a coqc run, as Python objects"""
    import ast
    import re
    vals = []
    for m in re.finditer(r"=\s*(.*?)\s*:\s*(?:list|bool|nat|\()", out.replace("\n", " ")):
        t = m.group(1).replace(";", ",").replace("true", "True").replace("false", "False").replace("%nat", "").replace("%N", "")
        t = re.sub(r"\bnil\b", "[]", t)
        try:
            vals.append(ast.literal_eval(t))
        except Exception:  # noqa: BLE001
            vals.append(None)
    return vals


def _spawn(mode, seed, tier, out_path):
    env = dict(os.environ)
    env["PYTHONPATH"] = os.environ.get("VERIF_REPO", "/repo") + os.pathsep + env.get("PYTHONPATH", "")
    env.setdefault("JAX_PLATFORMS", "cpu")
    return subprocess.Popen([sys.executable, os.path.abspath(__file__), mode, str(seed), tier, out_path],
                            stdout=subprocess.PIPE, stderr=subprocess.STDOUT, text=True, env=env, cwd=HERE)


def _collect(proc, out_path, timeout):
    try:
        log, _ = proc.communicate(timeout=timeout)
    except subprocess.TimeoutExpired:
        proc.kill()
        log, _ = proc.communicate()
        return None, "timeout\n" + (log or "")[-1500:]
    if proc.returncode != 0 or not os.path.exists(out_path):
        return None, (log or "")[-2000:]
    return json.load(open(out_path)), ""


def _dedupe(ctx):
    """one violation per key (the first concrete input found for it)"""
    seen, out = set(), []
    for v in ctx.violations:
        if v["key"] not in seen:
            seen.add(v["key"])
            out.append(v)
    ctx.violations[:] = out


def run(ctx):
    import common
    rng = ctx.rng
    quick = ctx.tier == "quick"
    ctx.trusted_base = [
        "Coq 8.16.1 kernel; vm_compute (no native_compute); all C13 theorems closed under the global context (no axioms)",
        "theories/Patch.v is a HAND-WRITTEN model of _patching.apply_patches, plugin_system.apply_monkey_patches, "
        "_temporary_x64/_force_jax_x64 and of jax.jit's trace cache, in two code shapes (since / before /repo b0781c1); the shape "
        "is probed on this run and the model is tied to the running code by the obligations tie:* (differential execution on "
        "synthetic targets with a fault at every position, and on the real spec list)",
        "Python attribute semantics assumed by the model: getattr = first own entry along [obj] + MRO; setattr/delattr act on "
        "the own dict; no descriptors / metaclass fall-back / module __getattr__ on patched keys (checked per key on this run)",
        "inspect.getattr_static, jax.tree_util (observation of the real process)",
    ]
    ctx.assumptions = [
        "single-threaded conversions: patches are process-global, interleaved activations of two threads are outside the model",
        "no asynchronous exception (KeyboardInterrupt, MemoryError) between setattr and applied.append "
        "(C13_async_fault_after_setattr_leaks shows the leak if one strikes there)",
        "setattr that succeeded when applying succeeds when restoring (the finally loop has no handler around setattr)",
        "exceptions arriving INSIDE a restoring loop (finally) are not injected: the code has no handler there (a failing restoring "
        "setattr or a KeyboardInterrupt during unwinding skips the remaining restorations)",
        "user objects: the object graph reachable from the converted callable (closure cells, __self__, named globals, instance "
        "attributes, containers; depth 5, 400 objects) is compared before/after each call; the AST tie "
        "conversion-writes-no-attribute-of-a-user-object closes the rest relative to the receiver allow-list WRITE_ALLOW",
        "the property is checked per call: every snapshot comparison is against the state immediately before that to_onnx call "
        "(the host may rebind attributes between calls); a cumulative comparison with the initial state closes the run",
        "snapshot scope: modules loaded in the worker whose top-level package is one of " + ", ".join(SCOPE) +
        " and every class a patch spec touches, with its MRO and subclasses",
    ]
    work = ctx.work
    hist_out, poison_out = os.path.join(work, "hist.json"), os.path.join(work, "poison.json")
    p_hist = _spawn("history", ctx.seed, ctx.tier, hist_out)
    p_poison = _spawn("poison", ctx.seed, ctx.tier, poison_out)

    # ---- (a) proofs
    common.build_props(ctx, "C13", [])

    # ---- code shape (Patch.v models the code before and since /repo b0781c1)
    p_del, a_del, a_unw = probe_code_shape()
    fixed_p, fixed_a = p_del, (a_del and a_unw)
    mixed_amp = (a_del != a_unw)
    ctx.coverage["code_shape"] = {
        "apply_patches": "since b0781c1 (owned recorded, unowned restored by delattr)" if fixed_p else "before b0781c1 (setattr of the saved getattr value)",
        "apply_monkey_patches": ("since b0781c1 (enter loop inside try, unowned restored by delattr)" if fixed_a else
                                 "before b0781c1" if not (a_del or a_unw) else f"mixed: delattr={a_del}, enter loop unwound={a_unw}"),
        "theorems_that_apply": ("PART F (exact restoration, no side condition)" if fixed_p and fixed_a else
                                "PART L (restoration up to materialisation under no_inherited_clash / mro_coherent / completed enter loop)")}
    ctx.oblige("tie:code-shape-is-one-the-model-knows", not mixed_amp, "tie",
               "" if not mixed_amp else f"apply_monkey_patches: delattr for unowned={a_del} but enter loop unwound={a_unw}")

    # ---- (b) tie D: model == running code on synthetic targets
    n_p = 360 if quick else 8000
    n_a = 160 if quick else 3000
    pc = [gen_patch_case(rng, i) for i in range(n_p)]
    ac = [gen_amp_case(rng, i) for i in range(n_a)]
    xc = x64_cases()
    n_h = 120 if quick else 1500
    hc = [gen_amp_history_case(rng, i) for i in range(n_h)]
    scan = cross_call_state_scan()
    paths = exit_path_scan()
    ctx.oblige("tie:restoration-reached-on-every-exit-path(AST: restore loop in finally / ExitStack; handler shape HFinally)",
               not paths, "tie", "" if not paths else str(paths))
    writes = user_object_write_scan()
    ctx.oblige("tie:conversion-writes-no-attribute-of-a-user-object(AST, fail closed: receivers outside the converter's own objects)",
               not writes, "tie", "" if not writes else str(writes))
    ctx.oblige("tie:apply_monkey_patches-keeps-no-cross-call-state(AST: no module-level container written besides _PATCH_STATE)",
               not scan, "tie", "" if not scan else f"state that survives a call: {scan}")
    bad_h, worse_h, coq_fail_h = [], [], ""
    for c0 in range(0, len(hc), 300):
        txt = COQ_HEADER + "Definition hcs : list ahcase := " + _lst(l for l, _ in hc[c0:c0 + 300]) + ".\n"
        txt += f"Eval vm_compute in bad_idx_ (ahcase_ok {_b(fixed_a)} false) 0 hcs.\n"
        txt += f"Eval vm_compute in bad_idx_ (ahcase_ok {_b(fixed_a)} true) 0 hcs.\n"
        ok, out = common.coq_eval_file(ctx, f"c13_hist_{c0}", txt, timeout=600)
        vals = _parse_coq_values(out) if ok else []
        if not ok or len(vals) < 2 or vals[0] is None or vals[1] is None:
            coq_fail_h = out[-1500:]
            continue
        bad_h += [c0 + i for i in vals[0]]
        worse_h += [c0 + i for i in vals[1]]
    for i in worse_h:
        info = hc[i][1]
        r = info["call_changed_getattr_in_round"]
        if r is not None:
            w = [x["host_write"] for x in info["rounds"][:r + 1]]
            ctx.violate(f"apply_monkey_patches-history:synthetic:getattr-after-call-differs-from-before-call:host-write={'delete' if any(x and x[2] is None for x in w) else 'rebind' if any(w) else 'none'}",
                        f"synthetic history of {len(info['rounds'])} activations with host writes {w}: after activation #{r + 1} getattr differs "
                        f"from what it was immediately before that activation (case {i}); the model (no cross-call state) restores it",
                        {"kind": "synthetic_amp_history", "seed": ctx.seed, "case": i, "n_patch_cases": n_p, "n_amp_cases": n_a,
                         "model": info["model"], "rounds": info["rounds"]})
    ctx.oblige(f"tie:apply_monkey_patches-histories-with-host-writes-model-equals-code({len(hc)} histories)",
               not coq_fail_h and not worse_h, "tie",
               coq_fail_h or ("" if not worse_h else f"model and code differ on histories {worse_h[:8]}: {hc[worse_h[0]][1]['rounds']}"))
    ctx.coverage["tie_apply_monkey_patches_histories"] = {
        "histories": len(hc), "activations": sum(len(i["rounds"]) for _l, i in hc),
        "host_writes": sum(i["host_writes"] for _l, i in hc),
        "host_writes_on_patched_keys": sum(i["host_writes_on_patched_keys"] for _l, i in hc),
        "implementation_restores_more_than_model": len([i for i in bad_h if i not in worse_h])}
    bad_p, bad_a, bad_x = None, None, None
    outs = []
    for chunk0 in range(0, max(len(pc), len(ac)), 450):
        txt = COQ_HEADER
        txt += "Definition pcs : list pcase := " + _lst(l for l, _ in pc[chunk0:chunk0 + 450]) + ".\n"
        txt += f"Eval vm_compute in bad_idx_ (pcase_ok {_b(fixed_p)}) 0 pcs.\n"
        txt += f"Eval vm_compute in bad_idx_ (pcase_ok_tol {_b(fixed_p)}) 0 pcs.\n"
        txt += "Definition acs : list acase := " + _lst(l for l, _ in ac[chunk0:chunk0 + 450]) + ".\n"
        txt += f"Eval vm_compute in bad_idx_ (acase_ok {_b(fixed_a)}) 0 acs.\n"
        txt += f"Eval vm_compute in bad_idx_ (acase_ok_tol {_b(fixed_a)}) 0 acs.\n"
        if chunk0 == 0:
            def xl(c):
                which, prev, en, sets, raises, seen, after, oc = c
                body = f"(fun fl => ({_b(sets) if sets is not None else 'fl'}, {'Raised' if raises else 'Returned'}))"
                fn = {"T": "temporary_x64", "F": "force_x64", "TF": "to_onnx_x64"}[which]
                return (f"(let r := {fn} {_b(en)} {body} {_b(prev)} in Bool.eqb (fst r) {_b(after)} && outcome_eqb (snd r) {oc})")
            txt += "Definition xcs : list bool := " + _lst(xl(c) for c in xc) + ".\n"
            txt += "Eval vm_compute in bad_idx_ (fun b : bool => b) 0 xcs.\n"
        ok, out = common.coq_eval_file(ctx, f"c13_tie_{chunk0}", txt, timeout=600)
        vals = _parse_coq_values(out) if ok else []
        outs.append((ok, out, vals, chunk0))
    bad_p, bad_a, bad_x, coq_fail = [], [], [], ""
    worse_p, worse_a = [], []
    for ok, out, vals, c0 in outs:
        if not ok or len(vals) < 4 or any(v is None for v in vals[:4]):
            coq_fail = out[-1500:]
            continue
        bad_p += [c0 + i for i in vals[0]]
        worse_p += [c0 + i for i in vals[1]]
        bad_a += [c0 + i for i in vals[2]]
        worse_a += [c0 + i for i in vals[3]]
        if c0 == 0:
            bad_x = vals[4] if len(vals) > 4 and vals[4] is not None else [-1]
    # tolerance (pcase_ok_tol / acase_ok_tol): an implementation that restores MORE than the model
    # (entries equal to the initial state where the model predicts a leak or a materialisation) is
    # not a broken tie; everything else is
    better_p = [i for i in bad_p if i not in worse_p]
    better_a = [i for i in bad_a if i not in worse_a]
    for i in worse_p:
        info = pc[i][1]
        if not info["lookup_restored"]:
            ctx.violate(f"apply_patches-leak:synthetic:fault={info['fault']}",
                        f"apply_patches leaves getattr changed on synthetic targets where the model restores it (case {i})",
                        {"kind": "synthetic_patch", "seed": ctx.seed, "case": i, "n_patch_cases": len(pc), "model": info["model"],
                         "before": info["before"], "after": info["after"]})
    for i in worse_a:
        info = ac[i][1]
        if not info["lookup_restored"]:
            ctx.violate(f"apply_monkey_patches-leak:synthetic:depth={info['depth']}:enter_fault={info['enter_fault']}",
                        f"apply_monkey_patches leaves getattr changed on synthetic targets in a way the model does not predict (case {i})",
                        {"kind": "synthetic_amp", "seed": ctx.seed, "case": i, "n_patch_cases": len(pc), "model": info["model"],
                         "before": info["before"], "after": info["after"]})
    ctx.oblige(f"tie:apply_patches-model-equals-code({len(pc)} cases, fault at every position)", not coq_fail and not worse_p, "tie",
               coq_fail or ("" if not worse_p else f"model and code differ on cases {worse_p[:8]}: {[pc[i][1]['model'] for i in worse_p[:2]]}"))
    ctx.oblige(f"tie:apply_monkey_patches-model-equals-code({len(ac)} cases, depth 1-3)", not coq_fail and not worse_a, "tie",
               coq_fail or ("" if not worse_a else f"model and code differ on cases {worse_a[:8]}"))
    ctx.oblige(f"tie:x64-managers-model-equals-code({len(xc)} cases)", not coq_fail and bad_x == [], "tie",
               coq_fail or ("" if bad_x == [] else f"differ on {[xc[i] for i in (bad_x or [])[:5] if i >= 0]}"))
    fh = {}
    for _l, info in pc:
        fh[info["fault"]] = fh.get(info["fault"], 0) + 1
    kh = {}
    for _l, info in list(pc) + list(ac):
        for k in info.get("exit_kinds", []):
            kh[k] = kh.get(k, 0) + 1
    ctx.coverage["exit_kind_histogram(synthetic cases that raised)"] = kh
    distinct_p = len({json.dumps(info["model"], sort_keys=True) for _l, info in pc})
    nontrivial_p = sum(1 for _l, info in pc if info["specs"] > 0 and (info["fault"] != "none" or info["dups"] or not info["perfect"]))
    ctx.coverage.update({
        "tie_apply_patches": {"cases": len(pc), "distinct": distinct_p, "fault_histogram": fh,
                              "with_duplicates": sum(1 for _l, i in pc if i["dups"]),
                              "with_multiple_inheritance": sum(1 for _l, i in pc if i["multi_inherit"]),
                              "getattr_not_restored_in_model_and_code": sum(1 for _l, i in pc if not i["lookup_restored"]),
                              "own_dict_changed_getattr_equal": sum(1 for _l, i in pc if i["lookup_restored"] and not i["perfect"]),
                              "implementation_restores_more_than_model": len(better_p)},
        "tie_apply_monkey_patches": {"cases": len(ac), "enter_faults": sum(1 for _l, i in ac if i["enter_fault"]),
                                     "body_raises": sum(1 for _l, i in ac if i["body_raises"]),
                                     "depth_histogram": {d: sum(1 for _l, i in ac if i["depth"] == d) for d in (1, 2, 3)},
                                     "with_duplicates": sum(1 for _l, i in ac if i["dups"]),
                                     "implementation_restores_more_than_model": len(better_a)},
        "tie_x64": {"cases": len(xc)},
    })

    # ---- workers
    hist, herr = _collect(p_hist, hist_out, 900 if quick else 3000)
    poison, perr = _collect(p_poison, poison_out, 600)
    ctx.oblige("real-process:history-worker-completed", hist is not None, "tie", herr)
    ctx.oblige("real-process:enter-fault-worker-completed", poison is not None, "tie", perr)
    if poison is not None:
        for f in poison["findings"]:
            ctx.violate(f["key"], f["what"], f["replay"])
        ctx.coverage["amp_enter_fault_probe"] = {k: poison.get(k) for k in
                                                 ("raised", "leaked", "leaked_library", "patch_state", "eager_after", "jit_after")}
    if hist is None:
        _dedupe(ctx)
        return ctx

    # ---- (c) the model on the REAL spec list of this run
    d = hist["dump"]
    tn, an = d["targets"], d["attrs"]
    obs0, obs1 = hist["obs0"], hist["obs1"]
    key_set = {(t, a) for (t, a) in d["amp"]} | {(t, a) for fr in d["frames"] for (t, a, _k, _n) in fr}
    inadequate = [(tn[o[0]], an[o[1]]) for o in obs0 if not o[4] and (o[0], o[1]) in key_set]
    inadequate_scope = [k for k in inadequate if _scope(k[0])]
    ctx.oblige("side-condition:model-adequate-on-every-patched-library-key(getattr = first own entry along MRO)",
               not inadequate_scope, "tie", "" if not inadequate_scope else f"getattr is not an MRO dict scan for {inadequate_scope[:6]}")
    own_l = [(o[0], o[1], o[2]) for o in obs0 if o[2] is not None]
    frames_m = []
    amp_m = []
    g = 0
    for (t, a) in d["amp"]:
        g += 1
        amp_m.append(("monkey", t, a, 1000000 * g))
    for fr0 in d["frames"]:
        fr = []
        for (t, a, kind, _n) in fr0:
            g += 1
            fr.append(("assign", t, a, 1000000 * g) if kind == "assign" else ("monkey", t, a, 1000000 * g))
        frames_m.append(fr)
    keys_flat = [(s[1], s[2]) for s in amp_m] + [(s[1], s[2]) for fr in frames_m for s in fr]
    univ = [(o[0], o[1]) for o in obs0]
    inad_idx = {(o[0], o[1]) for o in obs0 if not o[4]}

    def frames_lit(fault_at=None):
        return _lst(f"({_lst(_spec_lit(s) for s in fr)},{_fault_lit(fault_at[1]) if fault_at and fault_at[0] == i else 'NoFault'})"
                    for i, fr in enumerate(frames_m))
    txt = COQ_HEADER
    txt += "Definition ml : list (target * list target) := " + _lst(f"({i},{_lst(map(str, m))})" for i, m in enumerate(d["mro"])) + ".\n"
    txt += "Definition ol : list (target * attr * value) := " + _lst(f"({t},{a},{v}%N)" for (t, a, v) in own_l) + ".\n"
    txt += "Definition univ : list key := " + _lst(f"({t},{a})" for (t, a) in univ) + ".\n"
    txt += "Definition ks : list key := " + _lst(f"({t},{a})" for (t, a) in keys_flat) + ".\n"
    txt += f"Definition ampl : list spec_d := {_lst(_spec_lit(s) for s in amp_m)}.\n"
    txt += f"Definition fr0 := {frames_lit()}.\n"
    txt += f"Eval vm_compute in predicted_diffs {_b(fixed_a)} {_b(fixed_p)} ml ol ampl fr0 univ.\n"
    txt += "Eval vm_compute in real_clashes ml ol ks.\n"
    txt += "Eval vm_compute in real_incoherent ml ol ks univ.\n"
    nonempty = [i for i, fr in enumerate(frames_m) if fr]
    fvar = []
    for _ in range(4 if quick else 40):
        i = rng.choice(nonempty)
        fvar.append((i, rng.choice([("BeforeSet", rng.randrange(len(frames_m[i]))), "InBody"])))
    for j, fv in enumerate(fvar):
        txt += f"Definition fr{j + 1} := {frames_lit(fv)}.\n"
        txt += f"Eval vm_compute in fst (predicted_diffs {_b(fixed_a)} {_b(fixed_p)} ml ol ampl fr{j + 1} univ).\n"
    t_c = time.time()
    ok, out = common.coq_eval_file(ctx, "c13_real_specs", txt, timeout=900)
    vals = _parse_coq_values(out) if ok else []
    if ok and vals and isinstance(vals[0], tuple):
        vals = [list(vals[0][0]), list(vals[0][1])] + vals[1:]
    if not ok or len(vals) < 4 + len(fvar) or any(v is None for v in vals[:4 + len(fvar)]):
        ctx.oblige("tie:model-on-real-spec-list-evaluates", False, "tie", out[-1500:])
        return ctx
    pred_lookup, pred_own, clashes, incoh = vals[0], vals[1], vals[2], vals[3]
    pred_lookup = {tuple(k) for k in pred_lookup}
    pred_own = {tuple(k) for k in pred_own}
    o0 = {(o[0], o[1]): o for o in obs0}
    o1 = {(o[0], o[1]): o for o in obs1}
    real_lookup = {k for k in o0 if o0[k][3] != o1[k][3]}
    real_own = {k for k in o0 if o0[k][2] != o1[k][2]}
    nm = lambda k: f"{tn[k[0]]}.{an[k[1]]}"
    # the model explains every leak of the real process (one direction: an implementation that leaks less is fine)
    unexplained = sorted(nm(k) for k in real_lookup - pred_lookup if k not in inad_idx)
    ctx.oblige(f"tie:model-on-real-spec-list-explains-every-getattr-change({len(keys_flat)} specs, {len(univ)} observed keys)",
               not unexplained, "tie", "" if not unexplained else f"real process changed {unexplained[:6]}, model predicts no change")
    unexplained_own = sorted(nm(k) for k in real_own - pred_own if k not in inad_idx)
    ctx.oblige("tie:model-on-real-spec-list-explains-every-own-dict-change", not unexplained_own, "tie",
               "" if not unexplained_own else f"real own dicts changed at {unexplained_own[:6]}, model predicts no change")
    # side condition no_inherited_clash: every clash must be witnessed by a real leak (then it is a finding)
    clash_keys = {tuple(c[1]) for c in clashes}
    unwitnessed = sorted(nm(k) for k in clash_keys if k not in real_lookup)
    end_lookup = {(o[0], o[1]): o[3] for o in hist["obs_end"]}
    still_fine = all(end_lookup.get(k) == o0[k][3] for k in clash_keys if k not in real_lookup)
    model_pessimistic = bool(better_p) and still_fine
    if fixed_p and fixed_a:
        # PART F: exact restoration needs neither side condition; what PART L would have required is recorded
        ctx.oblige("side-condition:none-required-by-the-running-code-shape(PART F: exact restoration)", True, "tie",
                   f"pre-b0781c1 conditions on this spec list, for the record: inherited clashes at {sorted(nm(k) for k in clash_keys)[:6]}, "
                   f"incoherent MRO at {[nm(tuple(k)) for k in incoh[:6]]}")
    else:
        ctx.oblige("side-condition:no_inherited_clash(real spec list) or every clash witnessed by a real leak",
                   not unwitnessed or model_pessimistic, "tie",
                   "" if not unwitnessed else f"patched ancestor before unowned inheriting key at {unwitnessed[:6]} but no leak observed"
                   + ("; the running apply_patches restores more than the model on the synthetic ties, so the side condition of the "
                      "modelled code is no longer needed" if model_pessimistic else ""))
        ctx.oblige("side-condition:mro_coherent(real spec list, every observed class and subclass)", not incoh, "tie",
                   "" if not incoh else f"materialising would shadow another base for {[nm(tuple(k)) for k in incoh[:6]]}")
    fault_extra = []
    for j, fv in enumerate(fvar):
        extra = {tuple(k) for k in vals[4 + j]} - pred_lookup
        if extra:
            fault_extra.append((fv, sorted(nm(k) for k in extra)[:4]))
    ctx.oblige(f"model-on-real-spec-list:faulted-activations-leak-nothing-more({len(fvar)} fault points)", not fault_extra, "tie",
               str(fault_extra[:3]))
    ctx.coverage["real_spec_list"] = {
        "amp_keys": len(d["amp"]), "pre-b0781c1_side_conditions_required": not (fixed_p and fixed_a), "amp_duplicate_keys_dropped": d["amp_dups"], "leaf_plugin_frames": len(d["frames"]),
        "leaf_specs": sum(len(f) for f in d["frames"]), "targets_in_universe": len(tn), "observed_keys": len(univ),
        "keys_not_owned_by_target": sum(1 for k in set(keys_flat) if o0.get(k) and o0[k][2] is None),
        "keys_missing_entirely": sum(1 for k in set(keys_flat) if o0.get(k) and o0[k][3] is None),
        "clashes(ancestor, key)": [(tn[c[0]], nm(tuple(c[1]))) for c in clashes],
        "predicted_getattr_changes": sorted(nm(k) for k in pred_lookup), "real_getattr_changes": sorted(nm(k) for k in real_lookup if k not in inad_idx),
        "predicted_own_only_changes": sorted(nm(k) for k in pred_own - pred_lookup),
        "real_own_only_changes": sorted(nm(k) for k in real_own - real_lookup),
        "predicted_but_not_observed": sorted(nm(k) for k in pred_lookup - real_lookup),
        "keys_outside_model(metaclass fall-back; not library objects)": [f"{a}.{b}" for a, b in inadequate],
        "fault_points_evaluated": [str(f) for f in fvar], "coq_seconds": round(time.time() - t_c, 1),
    }

    # ---- (d) real process: every getattr-level difference is a violation, keyed by the attribute
    if hist.get("aborted"):
        ctx.coverage["real_process_history_aborted"] = hist["aborted"]
    for dd in (hist.get("lookup_diffs", [])[:3] if hist.get("aborted") else hist.get("lookup_diffs", [])):
        why = ""
        for c in clashes:
            if nm(tuple(c[1])) == dd["attr"]:
                why = (f" (inherited clash: {tn[c[0]]}.{an[c[1][1]]} is patched before the inheriting {dd['attr']}, which "
                       "does not own the attribute; it saves the patched parent value as its original and unwinding writes it back)")
        ctx.violate(f"attr-leak:{dd['attr']}",
                    f"after to_onnx ({dd['first_seen_after']}) {dd['attr']} resolves to {dd['after']} instead of {dd['before']}{why}",
                    {"kind": "history", "seed": ctx.seed, "step": dd["step"], "attr": dd["attr"]})
    for f in hist["findings"]:
        ctx.violate(f["key"], f["what"], f["replay"])

    # ---- (e) jit trace cache: every failure of the real process is one the model predicts
    evs_all, cache_unexplained, n_ev = [], [], 0
    for ci, c in enumerate(hist["cache_cases"]):
        ev_lit = _lst((f"EExport {g_} {a_}" if e in ("X", "XF") else f"EEager {g_} {a_}") for (e, g_, a_) in c["events"])
        evs_all.append((ev_lit, [r for r in c["results"] if r["ev"] == "E"]))
        n_ev += len(c["events"])
    txt = COQ_HEADER + "Definition res_code (r : eager_result) : nat := match r with EagerOk => 0 | NoMlirRule => 1 end.\n"
    for i, (lit, _r) in enumerate(evs_all):
        txt += f"Eval vm_compute in map res_code (run_events {lit} []).\n"
    ok, out = common.coq_eval_file(ctx, "c13_cache", txt, timeout=300)
    vals = _parse_coq_values(out) if ok else []
    pess = 0
    if not ok or len(vals) != len(evs_all):
        ctx.oblige("tie:trace-cache-model-evaluates", False, "tie", out[-1000:])
    else:
        for i, ((lit, rs), mv) in enumerate(zip(evs_all, vals)):
            for r, m in zip(rs, mv):
                if not r["ok"] and m == 0:
                    cache_unexplained.append((hist["cache_cases"][i]["events"], r))
                if r["ok"] and m == 1:
                    pess += 1
        ctx.oblige(f"tie:trace-cache-model-explains-every-eager-failure({len(evs_all)} histories, {n_ev} events)", not cache_unexplained,
                   "tie", str(cache_unexplained[:3]))
    st = hist["stats"]
    ctx.coverage.update({
        "real_process": {"conversions": st["conversions"], "succeeded": st["ok"], "raised": st["raised"], "step_kinds": st["kinds"],
                         "snapshots_compared": st["snapshots"], "snapshot_objects": hist["notes"]["snapshot_objects"],
                         "snapshot_entries": hist["notes"]["snapshot_entries"], "eager_probe_calls": st["probe_calls"],
                         "benign_own_dict_only_changes(getattr equal)": [x["attr"] for x in hist.get("own_only_diffs", [])],
                         "non_callable_data_rebound_by_libraries(not patch keys)": [x["attr"] for x in hist.get("data_rebinds", [])][:20],
                         "attributes_added(not module-valued)": [a["attr"] for a in hist.get("added", []) if not a["module_valued"]][:20],
                         "user_object_graphs_compared(before/after each conversion)": st.get("object_graphs", 0),
                         "user_objects_compared": st.get("objects_compared", 0),
                         "non_Exception_BaseException_exits": {k: v for k, v in st["kinds"].items() if k.endswith("_base")},
                         "worker_seconds": hist["wall"]},
        "host_rebinding_histories": {
            "histories[convert; host rebinds/deletes a patched attribute; convert; convert]": len({(x["attr"], x["kind"]) for x in hist.get("rebind_log", [])}),
            "conversions_checked_against_the_state_right_before_them": len(hist.get("rebind_log", [])),
            "targets": sorted({f"{x['attr']} [{x['mechanism']}]" for x in hist.get("rebind_log", [])}),
            "rebinding_kinds": sorted({x["kind"] for x in hist.get("rebind_log", [])}),
            "failed": [x for x in hist.get("rebind_log", []) if not x["ok"]][:6]},
        "trace_cache": {"histories": len(evs_all), "events": n_ev, "model_pessimistic_on": pess,
                        "callee_without_substituted_functions_after_export": hist["notes"].get("callee_without_substituted_functions_after_export")},
        "evaluations": len(pc) + len(ac) + len(xc) + len(univ) * (1 + len(fvar)) + st["conversions"] + st["probe_calls"] + n_ev,
        "distinct_nontrivial": nontrivial_p + sum(1 for _l, i in ac if i["enter_fault"] or i["body_raises"] or i["depth"] > 1)
                               + st["raised"] + len([c for c in hist["cache_cases"] if len(c["events"]) > 1]),
        "rule": "non-trivial = synthetic apply_patches case with >=1 spec and (a fault, a duplicate key, or an own-dict change), "
                "apply_monkey_patches case with nesting depth > 1 / raising body / enter fault, a real conversion that raised, "
                "or a jit-cache history with >= 2 events; measured on this run",
        "fault_position_histogram": fh,
    })
    _dedupe(ctx)
    ctx.samples = ([{"step": s["label"], "raised": s["raised"]} for s in hist["steps"][:6]]
                   + [{"synthetic_case": pc[i][1]["model"], "fault": pc[i][1]["fault"]} for i in range(2)]
                   + [{"jit_cache": c["events"], "results": [r.get("export") or ("ok" if r.get("ok") else "NoMlirRule") for r in c["results"]]}
                      for c in hist["cache_cases"][:3]])
    return ctx


def replay(path):
    r = json.load(open(path))
    rp = r.get("replay", {})
    kind = rp.get("kind")
    tmp = tempfile.mkdtemp(prefix="c13r-")
    if kind == "poison":
        p = _spawn("poison", 0, "quick", os.path.join(tmp, "o.json"))
        res, err = _collect(p, os.path.join(tmp, "o.json"), 600)
        print(json.dumps(res, indent=1) if res else err)
        return 1 if res and res["findings"] else 0
    if kind in ("history", "jit_cache", "rebind"):
        p = _spawn("history", rp.get("seed", 0), "quick", os.path.join(tmp, "o.json"))
        res, err = _collect(p, os.path.join(tmp, "o.json"), 900)
        if not res:
            print(err)
            return 2
        keys = [f["key"] for f in res["findings"]] + [f"attr-leak:{d['attr']}" for d in res.get("lookup_diffs", [])]
        print("findings now:", keys)
        return 1 if r.get("key") in keys else 0
    if kind == "synthetic_amp_history":
        import random
        rng = random.Random(rp.get("seed", 0))
        for i in range(rp.get("n_patch_cases", 360)):
            gen_patch_case(rng, i)
        for i in range(rp.get("n_amp_cases", 160)):
            gen_amp_case(rng, i)
        info = None
        for i in range(rp["case"] + 1):
            _l, info = gen_amp_history_case(rng, i)
        for x in info["rounds"]:
            print(x)
        return 0 if info["call_changed_getattr_in_round"] is None else 1
    if kind in ("synthetic_patch", "synthetic_amp"):
        import random
        rng = random.Random(rp.get("seed", 0))
        n_p = rp.get("n_patch_cases", 360)
        info = None
        if kind == "synthetic_patch":
            for i in range(rp["case"] + 1):
                _l, info = gen_patch_case(rng, i)
        else:
            for i in range(n_p):
                gen_patch_case(rng, i)
            for i in range(rp["case"] + 1):
                _l, info = gen_amp_case(rng, i)
        print("model input:", json.dumps(info["model"])[:1500])
        print("getattr before:", [x[3] for x in info["before"]])
        print("getattr after: ", [x[3] for x in info["after"]])
        return 0 if info["lookup_restored"] else 1
    print("replay data:", json.dumps(rp)[:2000])
    return 1


if __name__ == "__main__":
    import warnings
    warnings.simplefilter("ignore")
    import logging
    logging.disable(logging.WARNING)
    mode, seed, tier, outp = sys.argv[1], int(sys.argv[2]), sys.argv[3], sys.argv[4]
    {"history": worker_history, "poison": worker_poison}[mode](seed, tier, outp)
