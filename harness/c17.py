"""C17 — cast elimination removes only value-preserving round trips.
Proof: coq/props/C17.v over gen/GenCast.v (translated from /repo on this run).
Ties: translator validated against the running Python on all code pairs (D), the value model of
CastSem.v cross-checked against numpy's cast kernels, and the consumer pass checked to consult
the decision.  Search after a break: numeric witness for any accepted pair."""
import json
import warnings

import numpy as np

import common
from common import zlit, zlist, blit, optlit

GEN_UNITS = ["LibTables", "GenCast"]


def _opt():
    from jax2onnx.converter import ir_optimizations as opt
    return opt


def _np_dtype(ir, code):
    try:
        return ir.DataType(code).numpy()
    except Exception:
        return None


STANDARD = ["BOOL", "INT8", "UINT8", "INT16", "UINT16", "INT32", "UINT32", "INT64", "UINT64",
            "FLOAT16", "BFLOAT16", "FLOAT", "DOUBLE", "COMPLEX64", "COMPLEX128"]


def domain_values(dt, rng, n_random=200):
    """boundary + (for <=16 bit) exhaustive values of numpy dtype dt, as an array of that dtype"""
    dt = np.dtype(dt)
    if dt == np.bool_:
        return np.array([False, True])
    if dt.kind in "iu":
        info = np.iinfo(dt)
        if dt.itemsize <= 2:
            return np.arange(info.min, info.max + 1, dtype=np.int64).astype(dt)
        vals = {info.min, info.min + 1, -1 if info.min < 0 else 0, 0, 1, info.max - 1, info.max}
        for k in range(1, info.bits):
            for d in (-1, 0, 1):
                for sgn in (1, -1):
                    v = sgn * (2 ** k) + d
                    if info.min <= v <= info.max:
                        vals.add(v)
        for _ in range(n_random):
            vals.add(rng.randint(info.min, info.max))
        return np.array(sorted(vals), dtype=object).astype(dt)
    if dt.kind == "c":
        comp = np.float32 if dt == np.complex64 else np.float64
        re = domain_values(comp, rng, n_random)
        im = re[::-1].copy()
        return (re.astype(dt) + 1j * im.astype(dt)).astype(dt)
    # floating (incl. ml_dtypes bfloat16)
    if dt.itemsize == 2:
        return np.arange(0, 65536, dtype=np.uint32).astype(np.uint16).view(dt)
    ut = np.uint32 if dt.itemsize == 4 else np.uint64
    bits = dt.itemsize * 8
    pats = {0, 1, 2, (1 << (bits - 1)), (1 << (bits - 1)) | 1}
    fi = np.finfo(dt)
    base = [0.0, -0.0, 1.0, -1.0, float(fi.max), float(fi.min), float(fi.tiny), float(fi.smallest_subnormal),
            float("inf"), float("-inf"), float("nan"), 1.0 + float(fi.eps), 1.0 - float(fi.epsneg), 0.1, 1 / 3,
            65504.0, 65520.0, 2.0 ** 24 + 1, 2.0 ** 53 + 1 if dt.itemsize == 8 else 2.0 ** 24 - 1, 3.4e38, 1e-40]
    arr = [np.array(base, dtype=dt)]
    for _ in range(n_random):
        pats.add(rng.getrandbits(bits))
    arr.append(np.array(sorted(pats), dtype=object).astype(ut).view(dt))
    return np.concatenate(arr)


def same_bits(a, b):
    a, b = np.asarray(a), np.asarray(b)
    if a.dtype.kind in "fc" or a.dtype.kind == "V" or str(a.dtype) == "bfloat16":
        an = np.isnan(a.astype(np.complex128))
        bn = np.isnan(b.astype(np.complex128))
        with warnings.catch_warnings():
            warnings.simplefilter("ignore")
            eq = (a == b) & (np.signbit(a.real.astype(np.float64)) == np.signbit(b.real.astype(np.float64)))
            if a.dtype.kind == "c":
                eq &= np.signbit(a.imag.astype(np.float64)) == np.signbit(b.imag.astype(np.float64))
        return (an & bn) | (~an & ~bn & eq)
    return a == b


def roundtrip_witness(sdt, tdt, rng):
    """first value of numpy dtype sdt that does not survive sdt -> tdt -> sdt, else None"""
    vals = domain_values(sdt, rng)
    with warnings.catch_warnings():
        warnings.simplefilter("ignore")
        back = vals.astype(tdt).astype(sdt)
    ok = same_bits(vals, back)
    bad = np.nonzero(~ok)[0]
    if len(bad) == 0:
        return None, len(vals)
    i = int(bad[0])
    return (repr(vals[i]), repr(back[i])), len(vals)


def _cast_pair_graph(ir, s, t):
    x = ir.val("x", ir.DataType(s), (3,))
    mid = ir.val("mid", ir.DataType(t), (3,))
    y = ir.val("y", ir.DataType(s), (3,))
    n1 = ir.Node(op_type="Cast", domain="", inputs=[x], outputs=[mid], name="c1",
                 attributes=[ir.Attr("to", ir.AttributeType.INT, int(t))])
    n2 = ir.Node(op_type="Cast", domain="", inputs=[mid], outputs=[y], name="c2",
                 attributes=[ir.Attr("to", ir.AttributeType.INT, int(s))])
    return ir.Graph(name="g", inputs=[x], outputs=[y], nodes=[n1, n2], opset_imports={"": 23})


def _range_graph(ir, start, limit, delta):
    def c(name, v):
        return ir.val(name, ir.DataType.INT64, (), const_value=ir.tensor(np.asarray(v, dtype=np.int64)))
    sv, lv, dv = c("start", start), c("limit", limit), c("delta", delta)
    r = ir.val("range", ir.DataType.INT64, (None,))
    u = ir.val("u", ir.DataType.INT64, (1, None))
    ax = ir.val("ax", ir.DataType.INT64, (1,), const_value=ir.tensor(np.asarray([0], dtype=np.int64)))
    nodes = [ir.Node(op_type="Range", domain="", inputs=[sv, lv, dv], outputs=[r], name="R"),
             ir.Node(op_type="Unsqueeze", domain="", inputs=[r, ax], outputs=[u], name="U")]
    g = ir.Graph(name="g", inputs=[], outputs=[u], nodes=nodes, initializers=[sv, lv, dv, ax], opset_imports={"": 23})
    return g, nodes, u


def run(ctx):
    import onnx_ir as ir
    opt = _opt()
    rng = ctx.rng
    ctx.trusted_base = [
        "Coq 8.16.1 kernel; vm_compute (no native_compute)",
        "axioms (stdlib, via Flocq/Reals): ClassicalDedekindReals.sig_forall_dec, sig_not_dec, Classical_Prop.classic, FunctionalExtensionality.functional_extensionality_dep",
        "tools/py2coq.py + theories/PyLib.v (meaning of the Python subset), validated on this run against the running Python on every code pair",
        "gen/LibTables.v: answers of installed onnx_ir.DataType predicates (data)",
        "CastSem.v value semantics of ONNX Cast (cross-checked against numpy cast kernels on exhaustive <=16-bit domains and boundary sets)",
    ]
    proofs_ok = common.build_props(ctx, "C17", GEN_UNITS)

    # ---- tie D1: translated functions == running Python, on all code pairs incl. invalid codes
    codes = list(range(-2, 31))
    cases = []
    py_true = []
    for s in codes:
        for t in codes:
            b = bool(opt._cast_roundtrip_is_value_preserving(s, t))
            cases.append((s, t, b))
            if b and s != t:
                py_true.append((s, t))
    bounds = [(c, opt._integer_dtype_bounds(c)) for c in codes]
    perms = []
    for _ in range(300 if ctx.tier == "quick" else 3000):
        n = rng.randint(0, 5)
        p = list(range(n))
        rng.shuffle(p)
        kind = rng.random()
        if kind < 0.4:
            q = [p.index(i) for i in range(n)]        # true inverse
        elif kind < 0.7:
            q = list(range(n))
            rng.shuffle(q)
        else:                                          # malformed: wrong length, negatives, out of range
            q = [rng.randint(-n - 1, n + 1) for _ in range(rng.randint(0, n + 1))]
        try:
            r = bool(opt._is_inverse_perm(p, q))
        except IndexError:
            r = None
        perms.append((p, q, r))
    ranges = []
    trip = [(0, 1024, 1), (7, -5, -3), (5, 5, 1), (0, 5, -1), (2 ** 31, 2 ** 31 + 2, 1), (0, 10, 0),
            (-2 ** 63, 2 ** 63 - 1, 2 ** 62), (2 ** 63 - 1, -2 ** 63, -(2 ** 62))]
    for _ in range(200 if ctx.tier == "quick" else 2000):
        m = rng.choice([5, 40, 2 ** 31, 2 ** 62])
        trip.append((rng.randint(-m, m), rng.randint(-m, m), rng.choice([1, -1, 2, -2, 3, -3, 7, rng.randint(-m, m)])))
    for (a, b_, d) in trip:
        g, nodes, u = _range_graph(ir, a, b_, d)
        r = opt._known_integer_value_bounds(nodes, u)
        ranges.append((a, b_, d, None if r is None else (int(r[0]), int(r[1]))))
    # search (always on): the real bounds must contain every element ONNX Range emits (brute force on small spans)
    small = [(a, b_, d) for a in range(-9, 10, 3) for b_ in range(-9, 10, 2) for d in (-7, -3, -2, -1, 1, 2, 3, 5, 7)]
    small += [(-129, -128, 2), (-3, 131, 7), (120, 135, 4), (-120, -140, -9), (250, 262, 5)]
    n_range_checked = 0
    for (a, b_, d) in small + [t for t in trip if abs(t[1] - t[0]) // max(1, abs(t[2])) <= 20000 and t[2] != 0]:
        g, nodes, u = _range_graph(ir, a, b_, d)
        r = opt._known_integer_value_bounds(nodes, u)
        elems = np.arange(a, b_, d, dtype=object) if d != 0 else []
        n_range_checked += 1
        if r is not None and len(elems) and (min(elems) < r[0] or max(elems) > r[1]):
            # make it concrete for the property: a narrowing pair that the proof now wrongly accepts
            ctx.violate(f"range-bounds Range({a},{b_},{d})",
                        f"_known_integer_value_bounds gives [{r[0]}, {r[1]}] but Range({a},{b_},{d}) emits {int(min(elems))}..{int(max(elems))}: "
                        "a narrowing cast round trip whose intermediate type covers only the claimed bounds is dropped although an element does not fit",
                        {"kind": "range_bounds", "start": a, "limit": b_, "delta": d, "claimed": [int(r[0]), int(r[1])],
                         "actual": [int(min(elems)), int(max(elems))]})
            break
    # search (always on): the "known values fit" proof at the edges of every narrower integer type -- a Range whose extreme
    # element is the type's true bound + k, k in -2..2, through INT64 -> T -> INT64
    n_edge = 0
    edge_bad = None
    for code in codes:
        try:
            npdt = _np_dtype(ir, code)
        except Exception:  # noqa: BLE001
            npdt = None
        if npdt is None or np.dtype(npdt).kind not in "iu" or np.dtype(npdt).itemsize >= 8:
            continue
        info = np.iinfo(npdt)
        for k in (-2, -1, 0, 1, 2):
            for (a, b_, d) in ((int(info.max) + k - 3, int(info.max) + k + 1, 1), (int(info.min) + k + 3, int(info.min) + k - 1, -1),
                               (int(info.max) + k - 6, int(info.max) + k + 1, 3), (int(info.min) + k, int(info.min) + k + 5, 2)):
                g, nodes, u = _range_graph(ir, a, b_, d)
                elems = [int(e) for e in np.arange(a, b_, d, dtype=object)]
                fits_really = all(int(info.min) <= e <= int(info.max) for e in elems)
                claimed = bool(opt._cast_roundtrip_known_values_fit(nodes, u, int(ir.DataType.INT64), code))
                n_edge += 1
                if claimed and not fits_really and edge_bad is None:
                    off = [e for e in elems if not int(info.min) <= e <= int(info.max)][0]
                    wrapped = int(np.asarray([off], dtype=np.int64).astype(npdt).astype(np.int64)[0])
                    edge_bad = (code, a, b_, d, off, wrapped)
                    ctx.violate(f"known-values-fit {ir.DataType(code).name} Range({a},{b_},{d})",
                                f"_cast_roundtrip_known_values_fit claims that every element of Range({a},{b_},{d}) fits {ir.DataType(code).name} "
                                f"[{info.min}, {info.max}], so INT64->{ir.DataType(code).name}->INT64 is dropped; element {off} does not fit "
                                f"(the casts turn it into {wrapped})",
                                {"kind": "known_values_fit", "code": int(code), "start": a, "limit": b_, "delta": d, "element": off, "wrapped": wrapped})
    ctx.coverage["type_edge_ranges_checked"] = n_edge
    ctx.coverage["range_triples_bruteforced"] = n_range_checked
    txt = common.CASES_HEADER + "From J2OGen Require Import LibTables GenCast.\n"
    txt += "Definition c1 : list (Z*Z*bool) := [" + "; ".join(f"({zlit(s)},{zlit(t)},{blit(b)})" for s, t, b in cases) + "].\n"
    txt += "Eval vm_compute in bad_idx_ (fun c => let '(s,t,b) := c in match cast_roundtrip_is_value_preserving s t with Some r => Bool.eqb r b | None => false end) 0 c1.\n"
    pz = lambda p: f"({zlit(p[0])},{zlit(p[1])})"
    txt += "Definition c2 : list (Z * option (Z*Z)) := [" + "; ".join(f"({zlit(c)},{optlit(b, pz)})" for c, b in bounds) + "].\n"
    txt += ("Definition oeq (a b : option (Z*Z)) := match a, b with Some (x,y), Some (u,v) => (x =? u) && (y =? v) | None, None => true | _, _ => false end.\n"
            "Eval vm_compute in bad_idx_ (fun c => match integer_dtype_bounds (fst c) with Some r => oeq r (snd c) | None => false end) 0 c2.\n")
    txt += "Definition c3 : list (list Z * list Z * option bool) := [" + "; ".join(
        f"({zlist(p)},{zlist(q)},{optlit(r, blit)})" for p, q, r in perms) + "].\n"
    txt += ("Eval vm_compute in bad_idx_ (fun c => let '(p,q,r) := c in match is_inverse_perm p q, r with Some a, Some b => Bool.eqb a b | None, None => true | _, _ => false end) 0 c3.\n")
    txt += "Definition c4 : list (Z*Z*Z*option (Z*Z)) := [" + "; ".join(
        f"({zlit(a)},{zlit(b_)},{zlit(d)},{optlit(r, pz)})" for a, b_, d, r in ranges) + "].\n"
    txt += ("Eval vm_compute in bad_idx_ (fun c => let '(a,b,d,r) := c in match range_value_bounds a b d with Some x => oeq x r | None => false end) 0 c4.\n")
    ok, out = common.coq_eval_file(ctx, "c17_cases", txt)
    import re
    lists = re.findall(r"=\s*(\[[^\]]*\]|nil)\s*:\s*list nat", out.replace("\n", " "))
    names = ["decision", "dtype_bounds", "is_inverse_perm", "range_bounds"]
    data = [cases, bounds, perms, ranges]
    if not ok or len(lists) != 4:
        ctx.oblige("tie:translator-vs-python", False, "tie", out[-1500:])
    else:
        for nm, l, d in zip(names, lists, data):
            idx = [] if l in ("nil", "[]") else [int(x.replace("%nat", "")) for x in l.strip("[]").split(";") if x.strip()]
            ctx.oblige(f"tie:translated-{nm}-equals-python({len(d)} cases)", not idx, "tie",
                       "" if not idx else f"model and implementation differ on {[d[i] for i in idx[:5]]}")
    ctx.coverage["correspondence_cases"] = {n: len(d) for n, d in zip(names, data)}

    # ---- semantic cross-check / search: numeric witnesses for accepted pairs (numpy cast kernels)
    checked = 0
    values = 0
    lossy_detected = 0
    std_codes = [int(getattr(ir.DataType, n)) for n in STANDARD]
    for (s, t) in py_true:
        sdt, tdt = _np_dtype(ir, s), _np_dtype(ir, t)
        if sdt is None or tdt is None or s not in std_codes or t not in std_codes:
            continue
        w, n = roundtrip_witness(sdt, tdt, rng)
        checked += 1
        values += n
        if w is not None:
            key = f"cast-roundtrip {ir.DataType(s).name}->{ir.DataType(t).name}"
            ctx.violate(key, f"accepted round trip {ir.DataType(s).name}->{ir.DataType(t).name}->{ir.DataType(s).name} "
                             f"changes value {w[0]} into {w[1]}",
                        {"kind": "cast_roundtrip", "source": s, "intermediate": t, "value": w[0], "after": w[1]})
    # precision measure (no claim): how many rejected standard pairs really are lossy
    rejected = [(s, t) for s in std_codes for t in std_codes if s != t and (s, t) not in set(py_true)]
    for (s, t) in rejected:
        w, _ = roundtrip_witness(_np_dtype(ir, s), _np_dtype(ir, t), rng)
        if w is not None:
            lossy_detected += 1
    ctx.coverage.update({"accepted_pairs": len(py_true), "accepted_pairs_numerically_checked": checked,
                         "values_roundtripped": values, "rejected_standard_pairs": len(rejected),
                         "rejected_pairs_with_lossy_witness": lossy_detected})

    # ---- consumer tie: the pass removes a Cast pair iff the decision (or identity) says so
    mism = []
    n_graphs = 0
    for s in range(1, 27):
        for t in range(1, 27):
            if s == 8 or t == 8:
                continue
            g = _cast_pair_graph(ir, s, t)
            opt.remove_redundant_casts_ir(g)
            n_graphs += 1
            removed = len([n for n in g if n.op_type == "Cast"]) == 0
            expect = bool(opt._cast_roundtrip_is_value_preserving(s, t))
            if removed != expect:
                mism.append((s, t, removed, expect))
                if removed and not expect and s in std_codes and t in std_codes:
                    w, _ = roundtrip_witness(_np_dtype(ir, s), _np_dtype(ir, t), rng)
                    if w:
                        ctx.violate(f"pass-removes-lossy {ir.DataType(s).name}->{ir.DataType(t).name}",
                                    f"remove_redundant_casts_ir drops {ir.DataType(s).name}->{ir.DataType(t).name}->back although value {w[0]} becomes {w[1]}",
                                    {"kind": "pass_cast_pair", "source": s, "intermediate": t, "value": w[0], "after": w[1]})
    ctx.oblige(f"tie:pass-consults-decision({n_graphs} Cast-pair graphs)", not mism, "tie",
               "" if not mism else f"removal != decision on {mism[:5]}")
    ctx.coverage.update({"evaluations": len(cases) + len(bounds) + len(perms) + len(ranges) + checked + n_graphs,
                         "distinct_nontrivial": len(py_true) + len({tuple(map(tuple, (p, q))) for p, q, _ in perms}),
                         "rule": "all (source,intermediate) codes in -2..30 exhaustively; accepted pairs numerically round-tripped "
                                 "(exhaustive <=16-bit domains, boundary+random otherwise); non-trivial = accepted non-identity pair or distinct permutation pair",
                         "exhaustive": True})
    ctx.samples = [{"pair": [ir.DataType(s).name, ir.DataType(t).name], "decision": True} for s, t in py_true[:6]] + \
                  [{"range": list(r[:3]), "bounds": r[3]} for r in ranges[:4]]
    return ctx


def replay(path):
    import onnx_ir as ir
    opt = _opt()
    r = json.load(open(path))["replay"]
    import random
    if r.get("kind") == "range_bounds":
        g, nodes, u = _range_graph(ir, r["start"], r["limit"], r["delta"])
        b = opt._known_integer_value_bounds(nodes, u)
        el = np.arange(r["start"], r["limit"], r["delta"], dtype=object)
        bad = b is not None and len(el) and (min(el) < b[0] or max(el) > b[1])
        print("bounds", b, "actual", (min(el), max(el)) if len(el) else None, "-> still violated" if bad else "-> ok")
        return 1 if bad else 0
    if r.get("kind") == "known_values_fit":
        g, nodes, u = _range_graph(ir, r["start"], r["limit"], r["delta"])
        claimed = bool(opt._cast_roundtrip_known_values_fit(nodes, u, int(ir.DataType.INT64), r["code"]))
        print("claims fit:", claimed, "| element", r["element"], "becomes", r["wrapped"])
        return 1 if claimed else 0
    s, t = r["source"], r["intermediate"]
    print("decision now:", opt._cast_roundtrip_is_value_preserving(s, t))
    w, _ = roundtrip_witness(_np_dtype(ir, s), _np_dtype(ir, t), random.Random(0))
    print("witness:", w)
    return 1 if (w and opt._cast_roundtrip_is_value_preserving(s, t)) else 0
