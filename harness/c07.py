"""C07 — ONNX function boundaries are transparent; bodies shared only when equal.
Proof: coq/props/C07.v over theories/Dedup.v (inlining lemma on Graph.v's semantics; the registry fold is sound for
every adequate key, unsound for every other; arities; the real key is adequate modulo four named assumptions and
NOT adequate at full strength: two refuted statements).
Ties: the Coq model `Dedup.predict` (real key structure, first-occurrence registry, nested bodies, name counters,
arities) is evaluated in Coq against the ModelProto of REAL exports for programs whose call sites differ in exactly
one component, and for random call sequences.
Property on the real code: decorated export == export with the decorators stripped == eager JAX (onnxruntime, seeded
inputs), call arities == definition arities, inlined functions (onnx.inliner) vs plain export."""
import importlib.util
import json
import os
import sys
import traceback
from collections import Counter

import numpy as np

import common

HERE = os.path.dirname(os.path.abspath(__file__))
RTOL, ATOL = 1e-5, 1e-6
LOUD = ("Function registry missing", "Cannot resolve callee")


# ------------------------------------------------------------------------------------------ program modules
def load_modules():
    """the decorated module and the same source with the decorators stripped"""
    if HERE not in sys.path:
        sys.path.insert(0, HERE)
    import c07_programs as P
    name = "c07_programs_plain"
    if name in sys.modules:
        return P, sys.modules[name]
    spec = importlib.util.spec_from_file_location(name, os.path.join(HERE, "c07_programs.py"))
    Pp = importlib.util.module_from_spec(spec)
    sys.modules[name] = Pp
    spec.loader.exec_module(Pp)
    assert P.DECORATE and not Pp.DECORATE
    return P, Pp


def specs_of(inputs):
    import jax
    out = []
    for shape, dt in inputs:
        if any(isinstance(d, str) for d in shape):
            out.append(tuple(shape))          # symbolic: float32 by the exporter's default
        else:
            out.append(jax.ShapeDtypeStruct(tuple(shape), np.dtype(dt)))
    return out


def make_feeds(inputs, nprng, sym, x64):
    feeds = []
    for shape, dt in inputs:
        shp = tuple(sym if isinstance(d, str) else d for d in shape)
        dt = np.dtype(dt)
        if dt.kind == "f":
            a = nprng.standard_normal(shp).astype(dt)
            if x64 and dt == np.float32:
                a = a.astype(np.float64)
        else:
            a = nprng.integers(-5, 6, size=shp).astype(dt)
        feeds.append(a)
    return feeds


def export(fn, prog, x64=None):
    from jax2onnx import to_onnx
    kw = {}
    if prog.get("params"):
        kw["input_params"] = dict(prog["params"])
    if prog.get("x64") if x64 is None else x64:
        kw["enable_double_precision"] = True
    return to_onnx(fn, specs_of(prog["inputs"]), **kw)


def ort_run(model, feeds, flag):
    import onnxruntime as ort
    so = ort.SessionOptions()
    so.log_severity_level = 3
    s = ort.InferenceSession(model.SerializeToString(), so, providers=["CPUExecutionProvider"])
    d = {}
    pos = [i for i in s.get_inputs() if i.name != "deterministic"]
    if len(pos) != len(feeds):
        raise RuntimeError(f"model has positional inputs {[i.name for i in pos]} for {len(feeds)} arguments")
    for i, f in zip(pos, feeds):
        d[i.name] = f
    if any(i.name == "deterministic" for i in s.get_inputs()):
        d["deterministic"] = np.array(bool(flag))
    return s.run(None, d)


def jax_run(fn, prog, feeds, flag, x64):
    import jax
    kw = {}
    if prog.get("params"):
        kw = {k: (flag if k == "deterministic" else v) for k, v in prog["params"].items()}
    import jax.numpy as jnp
    if x64:
        with jax.enable_x64(True):
            r = fn(*[jnp.asarray(f) for f in feeds], **kw)      # jnp, not numpy: JAX promotion rules
            return [np.asarray(a) for a in jax.tree_util.tree_leaves(r)]
    r = fn(*[jnp.asarray(f) for f in feeds], **kw)
    return [np.asarray(a) for a in jax.tree_util.tree_leaves(r)]


def differ(a, b, dtype_too=True):
    """None when the two output lists agree, else a short description"""
    if len(a) != len(b):
        return f"{len(a)} vs {len(b)} outputs"
    for i, (u, v) in enumerate(zip(a, b)):
        u, v = np.asarray(u), np.asarray(v)
        if u.shape != v.shape:
            return f"output {i}: shape {u.shape} vs {v.shape}"
        if dtype_too and u.dtype != v.dtype:
            return f"output {i}: dtype {u.dtype} vs {v.dtype}"
        uu, vv = u.astype(np.float64), v.astype(np.float64)
        # rtol relative to the output's magnitude (sums of call results may cancel: one ulp of an intermediate
        # of size 50 is 6e-6); a shared-but-different body is off by the order of the values themselves
        scale = max(1.0, float(np.max(np.abs(vv))) if vv.size else 1.0)
        if not np.allclose(uu, vv, rtol=RTOL, atol=ATOL + RTOL * scale, equal_nan=True):
            j = int(np.argmax(np.abs(uu - vv)))
            return f"output {i}: max |diff| {float(np.max(np.abs(uu - vv))):.6g} at flat index {j} ({uu.ravel()[j]:.6g} vs {vv.ravel()[j]:.6g})"
    return None


# ------------------------------------------------------------------------------------------ observed structure
def parse_ident(domain, name):
    """custom.<base>.<idx> | custom.<base>.unique[.<idx>]  ->  (base, unique, idx)"""
    parts = domain.split(".")
    if len(parts) < 3 or parts[0] != "custom" or parts[1] != name:
        return None
    rest = parts[2:]
    if rest == ["unique"]:
        return (name, True, 1)
    if len(rest) == 2 and rest[0] == "unique" and rest[1].isdecimal():
        return (name, True, int(rest[1]))
    if len(rest) == 1 and rest[0].isdecimal():
        return (name, False, int(rest[0]))
    return None


def walk_nodes(nodes):
    import onnx
    for n in nodes:
        yield n
        for a in n.attribute:
            if a.type == onnx.AttributeProto.GRAPH:
                yield from walk_nodes(a.g.node)
            elif a.type == onnx.AttributeProto.GRAPHS:
                for g in a.graphs:
                    yield from walk_nodes(g.node)


def observe(model):
    """(defs, calls, arity_errors, unparsable): defs = [(ident, nin, nout)], calls = {container ident | None: [(ident, nin, nout)]}"""
    fids = {(f.domain, f.name): f for f in model.functions}
    defs, calls, arity, bad = [], {}, [], []
    for (dom, nm), f in fids.items():
        ident = parse_ident(dom, nm)
        if ident is None:
            bad.append(f"{dom}:{nm}")
            continue
        defs.append((ident, len(f.input), len(f.output)))

    def scan(container, nodes):
        for n in walk_nodes(nodes):
            f = fids.get((n.domain, n.op_type))
            if f is None:
                if n.domain.startswith("custom"):
                    arity.append(f"call {n.domain}:{n.op_type} names no definition")
                continue
            ident = parse_ident(n.domain, n.op_type)
            calls.setdefault(container, []).append((ident, len(n.input), len(n.output)))
            if (len(n.input), len(n.output)) != (len(f.input), len(f.output)):
                arity.append(f"call {n.name or n.op_type} in {container or 'main graph'}: {len(n.input)} in/{len(n.output)} out, "
                             f"definition {n.domain}:{n.op_type} has {len(f.input)} in/{len(f.output)} out")
    scan(None, model.graph.node)
    for (dom, nm), f in fids.items():
        scan(parse_ident(dom, nm), f.node)
    if len(fids) != len(model.functions):
        arity.append("two FunctionProtos share one (domain, name) identifier")
    return defs, calls, arity, bad


# ------------------------------------------------------------------------------------------ Coq encoding
class Interner:
    def __init__(self):
        self.t = {}

    def __call__(self, kind, label):
        d = self.t.setdefault(kind, {})
        if label not in d:
            d[label] = len(d) + 1
        return d[label]


def nl(xs):
    return "[" + "; ".join(str(x) for x in xs) + "]"


def aval_term(I, av):
    shape, dt = av
    dims = [(1000000 + I("dim", d)) if isinstance(d, str) else int(d) for d in shape]
    return f"({nl(dims)}, {I('dtype', dt)})"


def param_term(I, p):
    name, kind = p
    if kind[0] == "static":
        body = f"PStatic (KArr [] 0 [{I('value', kind[1])}])"
    elif kind[0] == "opaque":
        body = f"PStatic (KOpaque {I('type', kind[1])} {I('value', kind[2])})"
    elif kind[0] == "dynamic":
        body = f"PDynamic {aval_term(I, kind[1])}"
    else:
        body = f"PCallInput {aval_term(I, kind[1])}"
    return f"({I('pname', name)}, {body})"


def site_term(I, targets, s):
    base, uniq, is_class = targets[s["q"]]
    par = "None" if s["parent"] is None else f"(Some {int(s['parent'])})"
    hidden = 0 if not s["hidden"] else I("hidden", s["hidden"])
    return (f"(mkSite {I('q', s['q'])} {I('base', base)} {common.blit(uniq)} {common.blit(is_class)} {I('obj', s['obj'])} "
            f"{I('itype', s['itype'])} (mkState {I('shown', (s['q'], s['shown']))} {hidden}) "
            f"[{'; '.join(aval_term(I, a) for a in s['avals'])}] [{'; '.join(param_term(I, p) for p in s['params'])}] {int(s['nout'])}, {par})")


def ident_term(I, ident):
    base, uniq, idx = ident
    return f"(mkFn {I('base', base)} {common.blit(uniq)} {idx})"


def sig_term(I, sig):
    ident, ni, no = sig
    return f"({ident_term(I, ident)}, {ni}, {no})"


def case_term(I, targets, sites, defs, calls):
    cl = "; ".join(f"({'None' if c is None else '(Some ' + ident_term(I, c) + ')'}, [{'; '.join(sig_term(I, s) for s in l)}])"
                   for c, l in calls.items())
    return (f"([{'; '.join(site_term(I, targets, s) for s in sites)}],\n   [{'; '.join(sig_term(I, d) for d in defs)}],\n   [{cl}])")


TIE_HEADER = (common.CASES_HEADER + "From J2O Require Import Graph Dedup.\nClose Scope Z_scope.\n"
              "Definition case := (list (rsite * option nat) * list fsig * list (option fname * list fsig))%type.\n")


def coq_tie(ctx, name, cases):
    """cases: [(key, term)] -> list of failing keys, or None when Coq did not run"""
    bad_all = []
    for off in range(0, len(cases), 60):
        chunk = cases[off:off + 60]
        txt = TIE_HEADER + "Definition cs : list case := [\n" + ";\n".join(t for _, t in chunk) + "].\n"
        txt += "Eval vm_compute in bad_idx_ (fun c : case => let '(s, d, cl) := c in tie_ok s d cl) 0 cs.\n"
        ok, out = common.coq_eval_file(ctx, f"{name}_{off}", txt)
        bad = common.coq_bad_indices(out) if ok else None
        if bad is None:
            return None, out[-1500:]
        bad_all += [chunk[i][0] for i in bad]
    return bad_all, ""


def coq_show_prediction(ctx, name, term):
    txt = TIE_HEADER + f"Definition c : case := {term}.\n"
    txt += ("Eval vm_compute in let st := predict (fst (fst c)) in "
            "(map (fun d => (d_name _ _ d, d_nin _ _ d, d_nout _ _ d)) (st_defs _ _ _ st), "
            "map (fun c => (c_container _ _ _ c, d_name _ _ (c_def _ _ _ c), c_nin _ _ _ c, c_nout _ _ _ c)) (st_calls _ _ _ st)).\n")
    ok, out = common.coq_eval_file(ctx, name, txt)
    return out[-1200:]


# ------------------------------------------------------------------------------------------ one program
def is_loud(e):
    return isinstance(e, Exception)


def check_program(ctx, name, prog_d, prog_p, nprng, stats, replay_extra=None, x64=None):
    """exports decorated + plain, compares numerics / dtypes / arities; returns (decorated model | None, info)"""
    x64 = bool(prog_d.get("x64")) if x64 is None else x64
    info = {"program": name, "differs": prog_d["differs"], "x64": x64}
    if replay_extra:
        info.update(replay_extra)
    try:
        md = export(prog_d["fn"], prog_d, x64)
    except Exception as e:  # noqa: a loud rejection is not a violation
        stats["rejected"].append(f"{name}: {type(e).__name__}: {str(e)[:90]}")
        return None, info
    try:
        mp = export(prog_p["fn"], prog_p, x64)
    except Exception as e:  # noqa
        stats["plain_rejected"].append(f"{name}: {type(e).__name__}: {str(e)[:90]}")
        mp = None
    stats["exports"] += 1 + (mp is not None)
    if mp is not None and len(mp.functions) != 0:
        stats["notes"].append(f"{name}: plain export has {len(mp.functions)} functions")
    defs, calls, arity, bad = observe(md)
    info["definitions"] = len(md.functions)
    shared = sum(len(l) for l in calls.values()) > len(defs)
    kind = prog_d.get("finding") or ("sharing" if shared else "transparency")
    vkey = f"function-{kind}:{name}:{prog_d['differs']}"
    for a in arity:
        ctx.violate(f"call-arity:{name}", f"program {name}: {a}", info)
    syms = (2, 5) if any(isinstance(d, str) for shape, _ in prog_d["inputs"] for d in shape) else (0,)
    flags = prog_d.get("feeds_flag") or (True,)
    reported = False
    for sym in syms:
        for flag in flags:
            feeds = make_feeds(prog_d["inputs"], nprng, sym, x64)
            stats["runs"] += 1
            got_p, plain_err = None, None
            if mp is not None and flag is True:       # the plain export has the flag's declared value folded in
                try:
                    got_p = ort_run(mp, feeds, flag)
                except Exception as e:  # noqa
                    plain_err = str(e)
            try:
                got_d = ort_run(md, feeds, flag)
            except Exception as e:  # noqa: the exported model does not load / run
                if plain_err is not None or mp is None:
                    # the same program without any function boundary is not runnable either: not a C07 matter
                    if not any(n.startswith(name + ": both") for n in stats["notes"]):
                        stats["notes"].append(f"{name}: both exports fail in onnxruntime (plain: {(plain_err or 'rejected')[:70]}; decorated: {str(e)[:70]})")
                    stats["core_failures"] += 1
                elif not reported:
                    ctx.violate(vkey, f"program {name}: the decorated export is rejected by onnxruntime ({str(e)[:200]}) while the "
                                      f"decorator-stripped export of the same program runs", info)
                    reported = True
                continue
            if plain_err is not None:
                stats["notes"].append(f"{name}: PLAIN export fails in onnxruntime ({plain_err[:70]}); decorated runs")
            ref = jax_run(prog_p["fn"], prog_p, feeds, flag, x64)
            d_jax = differ(got_d, ref)
            d_plain = differ(got_d, got_p) if got_p is not None else None
            p_jax = differ(got_p, ref) if got_p is not None else None
            if p_jax and not d_jax:
                stats["notes"].append(f"{name}: PLAIN export differs from JAX ({p_jax}); decorated agrees")
            if d_jax and got_p is not None and not d_plain:
                # decorated == plain != JAX: the deviation is not introduced by the function boundary
                stats["notes"].append(f"{name}: decorated and plain exports agree with each other but not with JAX ({d_jax})")
                stats["core_failures"] += 1
                continue
            if (d_jax or d_plain) and not reported:
                what = (f"program {name} ({len(md.functions)} function definition(s), call sites differ in: {prog_d['differs']}): "
                        f"decorated export vs eager JAX: {d_jax or 'equal'}; decorated vs decorator-stripped export: {d_plain or ('equal' if got_p is not None else 'n/a')}; "
                        f"calls->definitions {[(c and c[0], [s[0] for s in l]) for c, l in calls.items()]}")
                ctx.violate(vkey, what, dict(info, flag=flag, sym=sym, seed=ctx.seed))
                reported = True
    info["mismatch"] = reported
    # (d) inline all functions, compare structure with the plain export and numerics with the decorated model
    if mp is not None and md.functions:
        try:
            import onnx
            import onnx.inliner
            mh = onnx.ModelProto()
            mh.CopyFrom(md)
            # the exporter imports each function domain at version 1 in the model but at the body opset inside the
            # FunctionProto; onnx.inliner skips functions whose imports disagree, so harmonise a copy first
            vers = {oi.domain: oi.version for f in mh.functions for oi in f.opset_import if oi.domain.startswith("custom")}
            if any(oi.domain in vers and oi.version != vers[oi.domain] for oi in mh.opset_import):
                stats["domain_version_mismatch"] += 1
            for oi in mh.opset_import:
                if oi.domain in vers:
                    oi.version = vers[oi.domain]
            mi = onnx.inliner.inline_local_functions(mh)
            if len(mi.functions):
                stats["notes"].append(f"{name}: inliner left {len(mi.functions)} functions")
            skip = {"Identity", "Constant"}
            ci = Counter(n.op_type for n in walk_nodes(mi.graph.node) if n.op_type not in skip)
            cp = Counter(n.op_type for n in walk_nodes(mp.graph.node) if n.op_type not in skip)
            stats["inline_total"] += 1
            if ci == cp:
                stats["inline_same_ops"] += 1
            else:
                stats["inline_diff"].append(f"{name}: inlined-plain {dict(ci - cp)} plain-inlined {dict(cp - ci)}")
            feeds = make_feeds(prog_d["inputs"], nprng, 2, x64)
            if differ(ort_run(mi, feeds, True), ort_run(md, feeds, True)) is None:
                stats["inline_numeric_ok"] += 1
        except Exception as e:  # noqa
            stats["notes"].append(f"{name}: inliner: {type(e).__name__}: {str(e)[:80]}")
    return md, dict(info, defs=defs, calls=calls, bad=bad)


# ------------------------------------------------------------------------------------------ random programs
_BLOCKS = {}


def random_picks(rng, P, all_decorated):
    """a call sequence: ("p", pool index, decorated?) | ("b", block decorated?, inner Lin decorated?, inner Scale decorated?, lin name)"""
    ln = rng.randint(2, 6)
    picks = []
    for _ in range(ln):
        if rng.random() < 0.2:
            picks.append(["b", all_decorated or rng.random() < 0.5, all_decorated or rng.random() < 0.5,
                          all_decorated or rng.random() < 0.5, rng.choice(["lin0", "lin1"])])
        else:
            picks.append(["p", rng.randrange(len(P.POOL)), all_decorated or rng.random() < 0.6])
    if rng.random() < 0.5:       # bias towards repeated / related callees
        picks[rng.randrange(ln)] = list(picks[0])
    return picks


def pick_name(P, picks):
    return ",".join((P.POOL[k[1]][0] + ("" if k[2] else "~")) if k[0] == "p" else f"blk[{int(k[1])}{int(k[2])}{int(k[3])}{k[4]}]" for k in picks)


def build_mixed(P, Pp, picks):
    """decorated-variant callable, all-plain callable, abstract sites.  A callee taken from the plain module is the same
    code without a boundary: it contributes no site; a plain Block with decorated inner callees exposes them at the
    enclosing level"""
    calls_d, calls_p, sites = [], [], []
    for k in picks:
        if k[0] == "p":
            _, i, dec = k
            calls_d.append((P if dec else Pp).POOL[i][1])
            calls_p.append(Pp.POOL[i][1])
            if dec:
                sites += P.POOL[i][2](len(sites))
        else:
            _, od, ld, sd, lin = k
            key = (bool(od), bool(ld), bool(sd), lin)
            if key not in _BLOCKS:
                _BLOCKS[key] = (P if od else Pp).Block(getattr(P if ld else Pp, lin), (P if sd else Pp).a2)
            if ("plain", lin) not in _BLOCKS:
                _BLOCKS[("plain", lin)] = Pp.Block(getattr(Pp, lin), Pp.a2)
            calls_d.append(_BLOCKS[key])
            calls_p.append(_BLOCKS[("plain", lin)])
            label = "blk_mix_%d%d%d_%s" % (od, ld, sd, lin)
            base = len(sites)
            if od:
                sites.append(P.S("Block", label, label, [P.F23]))
            par = base if od else None
            if ld:
                sites.append(P.s_lin(lin, (P.F23,), parent=par))
            if sd:
                sites.append(P.s_scale("a2", (P.F23,), parent=par))

    def mk(calls):
        def fn(x):
            acc = None
            for i, call in enumerate(calls):
                y = call(x * float(i + 1) + float(i))
                acc = y if acc is None else acc + y
            return acc
        return fn
    return mk(calls_d), mk(calls_p), sites


# ------------------------------------------------------------------------------------------ bodies
def body_signature(model, f, depth=0):
    """what a FunctionProto computes, structurally: operator sequence, constants by content, nested calls by their own signature"""
    import hashlib
    import onnx.numpy_helper as nh
    fids = {(g.domain, g.name): g for g in model.functions}
    sig = []
    for n in f.node:
        g = fids.get((n.domain, n.op_type))
        if g is not None and depth < 6:
            sig.append(("call", body_signature(model, g, depth + 1)))
        elif n.op_type == "Constant":
            t = next((a.t for a in n.attribute if a.name == "value"), None)
            sig.append(("Constant", None if t is None else hashlib.sha1(nh.to_array(t).tobytes()).hexdigest()[:12]))
        else:
            sig.append((n.op_type,))
    return (len(f.input), len(f.output), tuple(sig))


def main_call_defs(model):
    fids = {(g.domain, g.name): g for g in model.functions}
    return [fids[(n.domain, n.op_type)] for n in walk_nodes(model.graph.node) if (n.domain, n.op_type) in fids]


# ------------------------------------------------------------------------------------------ histories
# Several conversions in ONE process with callees mutated in between.  Each export must agree with eager JAX NOW and
# share definitions iff the current states are equal (Dedup.predict on the current site description).
def _lin_of(inst):
    return inst.l


def _m_scale(inst, other, arg):            # nnx.Param updated IN PLACE through Variable.__setitem__
    lin = _lin_of(inst)
    lin.kernel[...] = lin.kernel[...] * 0.5 + 0.25
    lin.bias[...] = lin.bias[...] - 0.3


def _m_value(inst, other, arg):            # nnx.Param updated by .value assignment
    lin = _lin_of(inst)
    lin.kernel.value = lin.kernel.value + 1.0


def _m_copy(inst, other, arg):             # becomes identical to `other`
    import jax.numpy as jnp
    a, b = _lin_of(inst), _lin_of(other)
    a.kernel[...] = jnp.array(b.kernel[...])
    a.bias[...] = jnp.array(b.bias[...])


def _m_rebind(inst, other, arg):           # attribute rebinding: a NEW submodule object
    from flax import nnx
    inst.l = nnx.Linear(3, 3, rngs=nnx.Rngs(int(arg)))


def _m_attr(name):
    def f(inst, other, arg):
        setattr(inst, name, arg)
    return f


def _m_w_inplace(inst, other, arg):        # numpy array of a mutable dataclass mutated in place
    inst.w[0, 0] += 1.0


def _m_w_rebind_scaled(inst, other, arg):
    inst.w = inst.w * 2.0


def _m_w_copy(inst, other, arg):
    inst.w = other.w.copy()


LIN_MUTS = {
    "scale": (_m_scale, lambda l, o, a: l + "|s"),
    "value": (_m_value, lambda l, o, a: l + "|v"),
    "copy": (_m_copy, lambda l, o, a: o),
    "rebind": (_m_rebind, lambda l, o, a: f"seed{int(a)}"),
}
FAMILIES = {
    "ULin": dict(q="ULin", make=lambda M, a: M.ULin(int(a)), label=lambda a: f"seed{int(a)}", muts=LIN_MUTS),
    "Lin": dict(q="Lin", make=lambda M, a: M.Lin(int(a)), label=lambda a: f"seed{int(a)}", muts=LIN_MUTS),
    "UMix": dict(q="UMix", make=lambda M, a: M.UMix(int(a[0]), a[1], float(a[2])),
                 label=lambda a: f"seed{int(a[0])};{a[1]};{float(a[2])}",
                 muts={"scale": (_m_scale, lambda l, o, a: l.split(";")[0] + "|s;" + ";".join(l.split(";")[1:])),
                       "mode": (_m_attr("mode"), lambda l, o, a: ";".join([l.split(";")[0], a, l.split(";")[2]])),
                       "k": (_m_attr("k"), lambda l, o, a: ";".join(l.split(";")[:2] + [str(float(a))]))}),
    "DLin": dict(q="DLin", make=lambda M, a: M.DLin((np.eye(3, dtype=np.float32) * float(a)).copy()), label=lambda a: f"{float(a)}*eye",
                 muts={"inplace": (_m_w_inplace, lambda l, o, a: l + "|i"), "double": (_m_w_rebind_scaled, lambda l, o, a: l + "|d"),
                       "copy": (_m_w_copy, lambda l, o, a: o)}),
    "PScale": dict(q="PScale", make=lambda M, a: M.PScale(float(a)), label=lambda a: f"k={float(a)}",
                   muts={"k": (_m_attr("k"), lambda l, o, a: f"k={float(a)}")}),
    "Scale": dict(q="Scale", make=lambda M, a: M.Scale(float(a)), label=lambda a: f"k={float(a)},mul",
                  muts={"k": (_m_attr("k"), lambda l, o, a: f"k={float(a)},mul")}),
}


def _digest(*arrays):
    import hashlib
    h = hashlib.sha1()
    for a in arrays:
        a = np.asarray(a)
        h.update(str((a.shape, a.dtype)).encode())
        h.update(a.tobytes())
    return h.hexdigest()[:16]


# the CURRENT state of a callee, read off its decorator-stripped twin (equal label <=> equal state, whatever the
# sequence of updates that led there)
STATE_OF = {
    "ULin": lambda i: _digest(i.l.kernel[...], i.l.bias[...]),
    "Lin": lambda i: _digest(i.l.kernel[...], i.l.bias[...]),
    "UMix": lambda i: f"{_digest(i.l.kernel[...], i.l.bias[...])};{i.mode};{float(i.k)}",
    "DLin": lambda i: _digest(i.w),
    "PScale": lambda i: f"k={float(i.k)}",
    "Scale": lambda i: f"k={float(i.k)},{i.mode}",
}
E = ["export"]


def M(t, name, other=None, arg=None):
    return ["mut", t, name, other, arg]


HISTORIES = {
    # start identical -> become different (the in-place parameter update of a fine-tuning step)
    "unique_identical_then_param_inplace": dict(family="ULin", init=[0, 0], steps=[E, M(1, "scale"), E]),
    "unique_identical_then_first_instance_updated": dict(family="ULin", init=[0, 0], steps=[E, M(0, "scale"), E]),
    "unique_identical_then_value_assign_then_back": dict(family="ULin", init=[0, 0], steps=[E, M(1, "value"), E, M(1, "copy", 0), E]),
    "unique_identical_then_submodule_rebound": dict(family="ULin", init=[0, 0], steps=[E, M(1, "rebind", arg=5), E, M(1, "rebind", arg=0), E]),
    "unique_identical_both_updated_alike": dict(family="ULin", init=[0, 0], steps=[E, M(0, "scale"), M(1, "scale"), E]),
    # start different -> become identical -> become different
    "unique_different_then_identical_then_different": dict(family="ULin", init=[0, 1], steps=[E, M(1, "copy", 0), E, M(0, "scale"), E]),
    # static attributes rebound on an nnx module
    "unique_static_attr_rebound": dict(family="UMix", init=[[0, "mul", 2.0], [0, "mul", 2.0]],
                                       steps=[E, M(1, "mode", arg="add"), E, M(1, "mode", arg="mul"), E, M(1, "k", arg=3.0), E, M(0, "scale"), E]),
    # mutable dataclass: in-place array update, attribute rebinding
    "unique_dataclass_inplace_and_rebind": dict(family="DLin", init=[1.0, 1.0], steps=[E, M(1, "inplace"), E, M(1, "copy", 0), E, M(0, "double"), E]),
    "unique_dataclass_become_identical": dict(family="DLin", init=[1.0, 2.0], steps=[E, M(1, "copy", 0), E]),
    # unique=False: never shared across instances, always the current weights
    "default_identical_then_param_inplace": dict(family="Lin", init=[0, 0], steps=[E, M(1, "scale"), E, M(0, "value"), E]),
    "default_different_then_identical": dict(family="Lin", init=[0, 1], steps=[E, M(1, "copy", 0), E]),
    "default_plain_class_attr_rebound": dict(family="PScale", init=[2.0, 2.0], steps=[E, M(1, "k", arg=5.0), E, M(0, "k", arg=5.0), E]),
    "default_nnx_attr_rebound": dict(family="Scale", init=[2.0, 3.0], steps=[E, M(0, "k", arg=3.0), E]),
}


def random_history(rng):
    fam = rng.choice(["ULin", "ULin", "UMix", "DLin", "Lin", "PScale"])
    n = rng.choice([2, 2, 3])
    if fam in ("ULin", "Lin"):
        init = [rng.choice([0, 0, 1]) for _ in range(n)]
    elif fam == "UMix":
        init = [[rng.choice([0, 0, 1]), rng.choice(["mul", "add"]), rng.choice([2.0, 3.0])] for _ in range(n)]
    elif fam == "DLin":
        init = [rng.choice([1.0, 1.0, 2.0]) for _ in range(n)]
    else:
        init = [rng.choice([2.0, 2.0, 3.0]) for _ in range(n)]
    steps = [E]
    for _ in range(rng.randint(2, 4)):
        for _ in range(rng.randint(1, 2)):
            t = rng.randrange(n)
            name = rng.choice(sorted(FAMILIES[fam]["muts"]))
            other = rng.choice([i for i in range(n) if i != t]) if name == "copy" else None
            arg = {"rebind": rng.choice([0, 1, 5]), "mode": rng.choice(["mul", "add"]), "k": rng.choice([2.0, 3.0, 5.0])}.get(name)
            steps.append(M(t, name, other, arg))
        steps.append(E)
    return dict(family=fam, init=init, steps=steps)


def run_history(ctx, P, Pp, hname, h, nprng, stats, on_export=None):
    """replays the history on decorated instances and on their plain twins; one check_program per export"""
    fam = FAMILIES[h["family"]]
    inst_d = [fam["make"](P, a) for a in h["init"]]
    inst_p = [fam["make"](Pp, a) for a in h["init"]]
    state_of = STATE_OF[h["family"]]
    labels = [state_of(i) for i in inst_p]
    order = list(range(len(inst_d))) + [0]
    k = 0
    for step in h["steps"]:
        if step[0] == "mut":
            _, t, name, other, arg = step
            apply, relabel = fam["muts"][name]
            apply(inst_d[t], None if other is None else inst_d[other], arg)
            apply(inst_p[t], None if other is None else inst_p[other], arg)
            labels = [state_of(i) for i in inst_p]
            continue
        k += 1

        def mk(insts):
            def fn(x):
                acc = None
                for j, i in enumerate(order):
                    y = insts[i](x * float(j + 1) + float(j))
                    acc = y if acc is None else acc + y
                return acc
            return fn
        sites = [P.S(fam["q"], f"{hname}.inst{i}", labels[i], [P.F23]) for i in order]
        pd = dict(fn=mk(inst_d), inputs=P.X, sites=sites, differs="callee state changed between conversions", params=None, finding=None,
                  feeds_flag=None, x64=False)
        pp = dict(pd, fn=mk(inst_p))
        name = f"history:{hname}#export{k}"
        md, info = check_program(ctx, name, pd, pp, nprng, stats, replay_extra={"history": h, "history_name": hname, "states_now": list(labels)})
        if on_export is not None:
            on_export(name, md, info, sites)


# ------------------------------------------------------------------------------------------ the key reads only the CURRENT state
KEY_METHODS = ["_lower_and_call", "_fingerprint_instance_state", "_value_fingerprint", "_build_unique_signature", "_allocate_friendly_name"]
SELF_READ_OK = {"name", "target", "unique", "namespace", "display_name", "_qualified_target", "_orig_fn", "primitive"}
MODULE_WRITE_OK = {"_IN_FUNCTION_BUILD"}
MUTATORS = {"setdefault", "update", "add", "append", "extend", "insert", "pop", "popitem", "clear", "remove", "discard", "__setitem__", "set",
            "put", "__delitem__"}
CONTAINER_CTORS = {"dict", "set", "list", "defaultdict", "OrderedDict", "WeakValueDictionary", "WeakKeyDictionary", "WeakSet", "Counter", "deque"}


def scan_key_purity(repo=None):
    """AST scan of FunctionPlugin: the methods that compute the FunctionKey (and every method of the class they reach) keep no
    per-instance / per-plugin / module-level memory: no store into self.* or module-level containers, no self attribute outside the
    known configuration, no caching decorator, no container attribute created in __init__.  Fails closed."""
    import ast
    path = os.path.join(repo or common.REPO, "jax2onnx", "plugins", "plugin_system.py")
    try:
        tree = ast.parse(open(path).read())
    except Exception as e:  # noqa
        return False, f"cannot parse {path}: {e}"
    cls = next((n for n in tree.body if isinstance(n, ast.ClassDef) and n.name == "FunctionPlugin"), None)
    if cls is None:
        return False, "class FunctionPlugin not found"
    methods = {n.name: n for n in cls.body if isinstance(n, (ast.FunctionDef, ast.AsyncFunctionDef))}
    missing = [m for m in KEY_METHODS if m not in methods]
    if missing:
        return False, f"expected methods missing: {missing}"
    module_names = set()
    for n in tree.body:
        if isinstance(n, (ast.FunctionDef, ast.ClassDef)):
            module_names.add(n.name)
        elif isinstance(n, (ast.Assign, ast.AnnAssign, ast.AugAssign)):
            for t in (n.targets if isinstance(n, ast.Assign) else [n.target]):
                for x in ast.walk(t):
                    if isinstance(x, ast.Name):
                        module_names.add(x.id)
        elif isinstance(n, (ast.Import, ast.ImportFrom)):
            for a in n.names:
                module_names.add((a.asname or a.name).split(".")[0])
    # closure over methods reached through self.<m> / FunctionPlugin.<m>
    reach, todo = [], list(KEY_METHODS)
    while todo:
        m = todo.pop()
        if m in reach:
            continue
        reach.append(m)
        for x in ast.walk(methods[m]):
            if isinstance(x, ast.Attribute) and isinstance(x.value, ast.Name) and x.value.id in ("self", "cls", "FunctionPlugin") and x.attr in methods:
                todo.append(x.attr)
    problems = []

    def root(node):
        while isinstance(node, (ast.Attribute, ast.Subscript, ast.Call)):
            node = node.func if isinstance(node, ast.Call) else node.value
        return node.id if isinstance(node, ast.Name) else None

    for m in reach:
        fn = methods[m]
        for d in fn.decorator_list:
            dn = ast.unparse(d)
            if dn not in ("staticmethod", "classmethod"):
                problems.append(f"{m}: decorator @{dn}")
        local = set()
        for x in ast.walk(fn):
            if isinstance(x, ast.arg):
                local.add(x.arg)
            elif isinstance(x, ast.Name) and isinstance(x.ctx, ast.Store):
                local.add(x.id)
            elif isinstance(x, (ast.FunctionDef, ast.ClassDef)):
                local.add(x.name)
            elif isinstance(x, (ast.Import, ast.ImportFrom)):
                for a in x.names:
                    local.add((a.asname or a.name).split(".")[0])
        local.discard("self")

        def outer(r):
            return r == "self" or (r is not None and r not in local and r in module_names and r not in MODULE_WRITE_OK)
        for x in ast.walk(fn):
            if isinstance(x, (ast.Global, ast.Nonlocal)) and isinstance(x, ast.Global):
                problems.append(f"{m}: global {x.names}")
            if isinstance(x, (ast.Assign, ast.AugAssign, ast.AnnAssign)):
                for t in (x.targets if isinstance(x, ast.Assign) else [x.target]):
                    for tt in ([t] if not isinstance(t, (ast.Tuple, ast.List)) else t.elts):
                        if isinstance(tt, (ast.Attribute, ast.Subscript)) and outer(root(tt)):
                            problems.append(f"{m}: store into {ast.unparse(tt)}")
            if isinstance(x, ast.Delete):
                for tt in x.targets:
                    if isinstance(tt, (ast.Attribute, ast.Subscript)) and outer(root(tt)):
                        problems.append(f"{m}: del {ast.unparse(tt)}")
            if isinstance(x, ast.Call):
                if isinstance(x.func, ast.Attribute) and x.func.attr in MUTATORS and outer(root(x.func.value)):
                    problems.append(f"{m}: mutating call {ast.unparse(x.func)}")
                if isinstance(x.func, ast.Name) and x.func.id in ("setattr", "delattr") and x.args and outer(root(x.args[0])):
                    problems.append(f"{m}: {ast.unparse(x)[:60]}")
            if isinstance(x, ast.Attribute) and isinstance(x.value, ast.Name) and x.value.id == "self" and isinstance(x.ctx, ast.Load):
                if x.attr not in SELF_READ_OK and x.attr not in methods:
                    problems.append(f"{m}: reads self.{x.attr} (not part of the plugin's configuration)")
    init = methods.get("__init__")
    if init is None:
        problems.append("__init__ not found")
    else:
        for x in ast.walk(init):
            if isinstance(x, (ast.Assign, ast.AnnAssign)) and getattr(x, "value", None) is not None:
                tg = x.targets if isinstance(x, ast.Assign) else [x.target]
                if any(isinstance(t, ast.Attribute) and isinstance(t.value, ast.Name) and t.value.id == "self" for t in tg):
                    v = x.value
                    if isinstance(v, (ast.Dict, ast.Set, ast.List, ast.DictComp, ast.SetComp, ast.ListComp)) or \
                       (isinstance(v, ast.Call) and (root(v.func) in CONTAINER_CTORS or (isinstance(v.func, ast.Attribute) and v.func.attr in CONTAINER_CTORS))):
                        problems.append(f"__init__: container attribute {ast.unparse(tg[0])} = {ast.unparse(v)[:40]}")
    problems = sorted(set(problems))
    return (not problems), (f"methods scanned: {sorted(reach)}" if not problems else "; ".join(problems[:8]))


def new_stats():
    return {"exports": 0, "runs": 0, "rejected": [], "plain_rejected": [], "notes": [], "inline_total": 0, "inline_same_ops": 0,
            "inline_numeric_ok": 0, "inline_diff": [], "domain_version_mismatch": 0, "core_failures": 0}


def run(ctx):
    ctx.trusted_base = [
        "Coq 8.16.1 kernel; all C07 theorems closed under the global context (vm_compute only in examples)",
        "Graph.v SSA-graph semantics with uninterpreted operator semantics (a call node = evaluation of the body in a scope of its own)",
        "the abstract description of each program's call sites in harness/c07_programs.py (hand-written, equal label <=> equal component)",
        "onnxruntime as the executor of exported models; eager JAX as reference; onnx.inliner for the structural cross-check",
        "harness parsing of ModelProto functions / call nodes (parse_ident, observe)",
    ]
    ctx.assumptions = [
        "hash(bytes) (64-bit, static keyword arguments) and SHA-1 (array leaves of unique=True instances) are collision free",
        "id() of two callees of one conversion is equal only for the same object: callee objects stay alive from tracing to lowering "
        "(a collected callee is a loud RuntimeError 'Cannot resolve callee'; address reuse by a live decorated instance was not reproduced)",
        "a callee (instance attributes, globals / closure of a decorated function) is not mutated during tracing: lowering happens after the "
        "whole program is traced and reads the callee's state at that time",
        "the function a call site denotes depends on a static keyword argument only through np.asarray(value)",
        "one decorated target per qualified name (decorating a second class object of the same qualified name keeps the first plugin's patch "
        "target: the second class silently gets no function definition; export still numerically correct — observed in the design phase)",
    ]
    common.build_props(ctx, "C07", [])
    P, Pp = load_modules()
    nprng = np.random.default_rng(ctx.rng.getrandbits(32))
    stats = new_stats()
    I = Interner()
    cases, infos, models = [], {}, {}
    loud_cf = []
    for name, prog_d in P.PROGRAMS.items():
        prog_p = Pp.PROGRAMS[name]
        try:
            md, info = check_program(ctx, name, prog_d, prog_p, nprng, stats)
        except Exception as e:  # noqa: harness failure must not pass silently
            ctx.oblige(f"harness:{name}", False, "tie", traceback.format_exc()[-1500:])
            continue
        infos[name] = info
        if md is None:
            continue
        if prog_d["sites"] is None:
            loud_cf.append(name)
            continue
        if info["bad"]:
            ctx.oblige(f"tie:identifier-shape:{name}", False, "tie", f"function identifiers not of the modelled form: {info['bad']}")
            continue
        cases.append((name, case_term(I, P.TARGETS, prog_d["sites"], info["defs"], info["calls"])))
        models[name] = md
    # ---- distinct targets with one display name: every call node must resolve to the definition built for ITS target
    alone, wrong, n_sn = {}, [], 0
    for name, prog_d in P.PROGRAMS.items():
        if not prog_d.get("same_name") or name not in models:
            continue
        md = models[name]
        top = [s_["q"] for s_ in prog_d["sites"] if s_["parent"] is None]
        got = main_call_defs(md)
        if len(got) != len(top):
            wrong.append(f"{name}: {len(got)} call nodes for {len(top)} call sites")
            continue
        if len({(f.domain, f.name) for f in md.functions}) != len(md.functions):
            wrong.append(f"{name}: duplicate function identifiers")
        for k, (q, f) in enumerate(zip(top, got)):
            if q not in alone:
                try:
                    ma = export(P.ALONE[q], dict(inputs=P.X, params=None, x64=False))
                    alone[q] = body_signature(ma, main_call_defs(ma)[0])
                except Exception as e:  # noqa
                    alone[q] = None
                    wrong.append(f"{q}: cannot export the target alone: {e}")
            n_sn += 1
            if alone[q] is not None and body_signature(md, f) != alone[q]:
                wrong.append(f"{name}: call site {k} (target {q}) names {f.domain}:{f.name} whose body is not the body of {q} exported alone")
    ctx.oblige(f"tie:identifiers-distinct-and-each-call-node-resolves-to-the-definition-built-for-its-target({n_sn} call sites, same display name)",
               not wrong, "tie", "; ".join(wrong[:6]))
    # ---- call-site constants as operands: the shared body must READ the operand (not a baked-in copy of one site's value)
    unread, n_co = [], 0
    for name, prog_d in P.PROGRAMS.items():
        if not prog_d.get("const_operands") or name not in models:
            continue
        for f in models[name].functions:
            used = {i for n in walk_nodes(f.node) for i in n.input} | set(f.output)
            for k in prog_d["const_operands"]:
                n_co += 1
                if k >= len(f.input) or f.input[k] not in used:
                    unread.append(f"{name}: body of {f.domain}:{f.name} never reads operand {k}")
    ctx.oblige(f"tie:shared-body-is-generic-in-its-constant-operands({n_co} operands read through the function input)", not unread, "tie",
               "; ".join(unread[:6]))
    # thorough: every fixed program again under enable_double_precision
    if ctx.tier != "quick":
        for name, prog_d in P.PROGRAMS.items():
            if prog_d.get("x64") or prog_d.get("finding") or prog_d["sites"] is None or any(dt != "float32" for _, dt in prog_d["inputs"]):
                continue
            try:
                check_program(ctx, name + "@x64", dict(prog_d, differs=prog_d["differs"]), Pp.PROGRAMS[name], nprng, stats, x64=True)
            except Exception as e:  # noqa
                ctx.oblige(f"harness:{name}@x64", False, "tie", traceback.format_exc()[-1500:])
    # random call sequences x random placement of the boundaries: all orders / lengths over the pool
    n_rand = 16 if ctx.tier == "quick" else 700
    rand_keys = set()
    for r in range(n_rand):
        picks = random_picks(ctx.rng, P, all_decorated=(r % 3 == 0))
        name = "random:" + pick_name(P, picks)
        if name in rand_keys:
            continue
        rand_keys.add(name)
        fn_d, fn_p, sites = build_mixed(P, Pp, picks)
        pd = dict(fn=fn_d, inputs=P.X, sites=sites, differs="random call sequence", params=None, finding=None, feeds_flag=None, x64=False)
        pp = dict(pd, fn=fn_p)
        try:
            md, info = check_program(ctx, name, pd, pp, nprng, stats, replay_extra={"picks": picks})
        except Exception as e:  # noqa
            ctx.oblige(f"harness:{name}", False, "tie", traceback.format_exc()[-1500:])
            continue
        infos[name] = info
        if md is not None and not info["bad"]:
            cases.append((name, case_term(I, P.TARGETS, sites, info["defs"], info["calls"])))

    # ---- histories: export / mutate a callee / export again, in this one process
    def on_export(name, md, info, sites):
        infos[name] = info
        if md is not None and not info["bad"]:
            cases.append((name, case_term(I, P.TARGETS, sites, info["defs"], info["calls"])))
    hist = dict(HISTORIES)
    for r in range(3 if ctx.tier == "quick" else 60):
        hist[f"random{r}"] = random_history(ctx.rng)
    n_hist_exports = 0
    for hname, h in hist.items():
        try:
            before = len(infos)
            run_history(ctx, P, Pp, hname, h, nprng, stats, on_export)
            n_hist_exports += len(infos) - before
        except Exception as e:  # noqa
            ctx.oblige(f"harness:history:{hname}", False, "tie", traceback.format_exc()[-1500:])
    ok_scan, detail = scan_key_purity()
    ctx.oblige("tie:FunctionKey-is-a-function-of-the-CURRENT-site(FunctionPlugin keeps no per-instance/plugin/module memory in the key computation)",
               ok_scan, "tie", detail)

    # ---- tie: Coq model of the key / registry / names / arities vs the real exports
    bad, err = coq_tie(ctx, "c07_tie", cases)
    if bad is None:
        ctx.oblige("tie:model-vs-export", False, "tie", err)
    else:
        for k in bad[:6]:
            term = dict(cases)[k]
            pred = coq_show_prediction(ctx, "c07_show", term)
            ctx.oblige(f"tie:lower_sites-predicts-export:{k}", False, "tie",
                       f"observed defs {infos[k]['defs']} calls {infos[k]['calls']}; model predicts: {pred}")
        ctx.oblige(f"tie:lower_sites(real_key)-predicts-definitions-calls-arities({len(cases)} real exports)", not bad, "tie",
                   "" if not bad else f"{len(bad)} programs disagree: {bad[:8]}")
    n_fixed = len([c for c in cases if not c[0].startswith("random:") and not c[0].startswith("history:")])
    ctx.coverage.update({
        "evaluations": stats["runs"] + len(cases),
        "distinct_nontrivial": len(cases),
        "rule": "fixed programs: two..four call sites differing in exactly one component (static attribute, weight, instance, instance type, "
                "input shape, input dtype, keyword value/type/presence, unique on/off, call order, nesting depth 2/3, registry hit skipping a body, "
                "runtime flag, symbolic dim, double precision) + random call sequences (length 2..6) over a pool of 22 callees, each call site with the boundary present or stripped, Blocks with every combination of decorated outer / inner callees; "
                "non-trivial = export accepted, functions present, model prediction compared and numerics executed",
        "histories": len(hist), "history_exports": n_hist_exports,
        "programs_fixed": len(P.PROGRAMS), "programs_fixed_tied": n_fixed, "programs_random_tied": len([c for c in cases if c[0].startswith("random:")]),
        "history_exports_tied": len([c for c in cases if c[0].startswith("history:")]),
        "exports": stats["exports"], "onnxruntime_runs": stats["runs"],
        "exports_rejected_loudly": stats["rejected"], "plain_exports_rejected": stats["plain_rejected"],
        "control_flow_programs_accepted": loud_cf,
        "definitions_histogram": dict(Counter(i.get("definitions") for i in infos.values() if i.get("definitions") is not None)),
        "programs_with_shared_definition": sum(1 for i in infos.values() if i.get("calls") and sum(len(l) for l in i["calls"].values()) > len(i["defs"])),
        "numeric_mismatches": [k for k, i in infos.items() if i.get("mismatch")],
        "inline_crosscheck": {"programs": stats["inline_total"], "same_operator_multiset_as_plain_export": stats["inline_same_ops"],
                              "inlined_model_agrees_numerically_with_decorated": stats["inline_numeric_ok"],
                              "differences": stats["inline_diff"][:10],
                              "models_importing_function_domain_at_other_version_than_the_function": stats["domain_version_mismatch"]},
        "deviations_not_caused_by_function_boundaries": stats["core_failures"],
        "notes": stats["notes"][:20],
        "refuted_in_model_and_confirmed_on_code": ["C07_real_key_static_kwarg_refuted <-> ragged_tuple_kwarg",
                                                   "C07_real_key_unique_hidden_state_refuted <-> unique_dataclass_big_array"],
    })
    ctx.samples = [{"program": k, "definitions": i.get("definitions"), "differs": i.get("differs"), "mismatch": i.get("mismatch")}
                   for k, i in list(infos.items())[:12]]
    return ctx


def replay(path):
    r = json.load(open(path))["replay"]
    P, Pp = load_modules()
    name = r["program"]

    class C:  # minimal ctx
        seed = r.get("seed", 0)
        violations = []

        def violate(self, key, what, rp):
            self.violations.append((key, what))
    c = C()
    if "history" in r:
        run_history(c, P, Pp, r["history_name"], r["history"], np.random.default_rng(r.get("seed", 0)), new_stats())
        for k, w in c.violations:
            print(k, "::", w)
        return 1 if any(k.endswith(name.split("history:")[1] + ":callee state changed between conversions") or name in k for k, _ in c.violations) else 0
    if "picks" in r:
        fn_d, fn_p, sites = build_mixed(P, Pp, r["picks"])
        pd = dict(fn=fn_d, inputs=P.X, sites=sites, differs="random call sequence", params=None, finding=None, feeds_flag=None, x64=False)
        pp = dict(pd, fn=fn_p)
    else:
        base = name.split("@")[0]
        pd, pp = P.PROGRAMS[base], Pp.PROGRAMS[base]
    st = new_stats()
    check_program(c, name, pd, pp, np.random.default_rng(r.get("seed", 0)), st, x64=r.get("x64"))
    for k, w in c.violations:
        print(k, "::", w)
    print("rejected:", st["rejected"])
    return 1 if c.violations else 0
