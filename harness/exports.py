"""Shared corpus of REAL exports (used by the validator-style checks C03, C08, C09, C11, C05, C14 ...).

registry testcases (tests.t_generator metadata of every plugin/example in the working tree) +
hand-written programs (nested control flow, nested @onnx_function, mixtures).  Exports run in
worker processes; a case is identified by a stable key."""
import os
import sys
import warnings

warnings.simplefilter("ignore")
import logging  # noqa: E402

logging.disable(logging.CRITICAL)

_ITEMS = None


def registry_items():
    global _ITEMS
    if _ITEMS is None:
        sys.path.insert(0, os.environ.get("VERIF_REPO", "/repo"))
        from tests.t_generator import get_plugin_grouping
        grp = get_plugin_grouping()
        _ITEMS = [tp for (_c, _k), tps in sorted(grp.items()) for tp in tps]
    return _ITEMS


def tp_key(tp):
    return f"reg:{tp.get('context')}.{tp.get('component')}:{tp.get('testcase')}"


def tp_double(tp):
    """the precision variant the registry declares for this testcase (the *_f64 twins have it True)"""
    return bool(tp.get("_enable_double_precision_test_setting", tp.get("enable_double_precision", False)))


def tp_spec(tp, dp=None):
    """input specs as tests/t_generator.make_test_function builds them (float specs follow the precision variant)"""
    import jax
    import jax.numpy as jnp
    import numpy as np
    dp = tp_double(tp) if dp is None else dp
    shapes, vals, dts = tp.get("input_shapes"), tp.get("input_values"), tp.get("input_dtypes")
    if shapes is not None:
        spec = []
        for i, sh in enumerate(shapes):
            sh = tuple(sh) if isinstance(sh, (list, tuple)) else (sh,)
            if dts:
                dt = dts[i]
                if dp and np.issubdtype(np.dtype(dt), np.floating):
                    dt = jnp.float64
                spec.append(jax.ShapeDtypeStruct(sh, dt))
            else:
                spec.append(jax.ShapeDtypeStruct(sh, jnp.float64 if dp else jnp.float32)
                            if all(isinstance(d, (int, np.integer)) for d in sh) else sh)
        return spec
    if vals is not None:
        spec = []
        for v in vals:
            a = np.array(v)
            spec.append(jax.ShapeDtypeStruct(a.shape, jnp.float64 if (dp and np.issubdtype(a.dtype, np.floating)) else a.dtype))
        return spec
    return None


def tp_callable(tp, dp=None):
    """instantiate the testcase's callable in the x64 mode of its precision variant"""
    import jax
    dp = tp_double(tp) if dp is None else dp
    fn = tp["callable"]
    if hasattr(fn, "instantiate"):
        prev = bool(jax.config.jax_enable_x64)
        if prev != dp:
            jax.config.update("jax_enable_x64", dp)
        try:
            fn = fn.instantiate()
        finally:
            if prev != dp:
                jax.config.update("jax_enable_x64", prev)
    return fn


def export_tp(tp, **over):
    """export a registry testcase with the settings its metadata declares (mirrors tests/t_generator:
    precision variant, layout flags, normalization mode, opset, input/output names); `over` overrides"""
    from jax2onnx import to_onnx
    import inspect
    dp = bool(over.pop("enable_double_precision", tp_double(tp)))
    fn = over.pop("_fn", None)              # reuse an already instantiated callable (same parameters as a JAX reference run)
    if fn is None:
        fn = tp_callable(tp, dp)
    spec = tp_spec(tp, dp)
    if spec is None:
        if inspect.signature(fn).parameters:
            raise ValueError("no input spec")
        spec = []
    kw = dict(input_params=tp.get("input_params", {}), opset=tp.get("opset_version", 23) or 23,
              enable_double_precision=dp, inputs_as_nchw=tp.get("inputs_as_nchw"), outputs_as_nchw=tp.get("outputs_as_nchw"),
              input_names=tp.get("input_names"), output_names=tp.get("output_names"),
              normalization_mode=tp.get("normalization_mode", "auto"))
    if over.get("opset") is None:
        over.pop("opset", None)
    kw.update(over)
    return to_onnx(fn, spec, **kw)


# ---------------------------------------------------------------- hand-written programs
def extra_programs():
    import extra_programs as ep      # module-level definitions (jax imported there)
    return ep.PROGRAMS


_EXTRA = None


def _extra():
    global _EXTRA
    if _EXTRA is None:
        _EXTRA = extra_programs()
    return _EXTRA


def export_extra(name, **over):
    from jax2onnx import to_onnx
    fn, spec = _extra()[name]
    return to_onnx(fn, spec, **over)


# ---------------------------------------------------------------- parallel driver
def _worker(job):
    """job = (kind, ident, overrides) -> (key, bytes | None, error | None)"""
    kind, ident, over = job
    over = dict(over)
    try:
        if kind == "reg":
            tp = registry_items()[ident]
            key = tp_key(tp)
            m = export_tp(tp, **over)
        else:
            key = ident
            m = export_extra(ident, **over)
        return key, m.SerializeToString(), None
    except Exception as e:  # noqa
        key = tp_key(registry_items()[ident]) if kind == "reg" else ident
        return key, None, f"{type(e).__name__}: {str(e)[:300]}"


def _count(_):
    return len(registry_items())


def _init_worker():
    os.environ.setdefault("JAX_PLATFORMS", "cpu")


def select_indices(total, n, seed):
    """deterministic spread over the registry: every k-th item, offset by the seed"""
    if n is None or n >= total:
        return list(range(total))
    step = total / n
    off = seed % max(1, int(step))
    return sorted({min(total - 1, int(off + i * step)) for i in range(n)})


def export_corpus(n_registry, seed, overrides=None, extras=True, procs=None, extra_jobs=()):
    """returns list of (key, model_bytes|None, error|None).  Workers are SPAWNED (never forked from a
    process that has initialised JAX) and each loads the registry itself."""
    from multiprocessing import get_context
    overrides = overrides or {}
    procs = procs or min(14, os.cpu_count() or 4)
    here = os.path.dirname(os.path.abspath(__file__))
    pp = os.environ.get("PYTHONPATH", "")
    if here not in pp.split(":"):          # spawned workers must be able to import this module
        os.environ["PYTHONPATH"] = here + (":" + pp if pp else "")
    with get_context("spawn").Pool(procs, initializer=_init_worker) as p:
        total = p.apply(_count, (0,))
        jobs = [("reg", i, overrides) for i in select_indices(total, n_registry, seed)]
        if extras:
            jobs += [("extra", name, overrides) for name in extra_names()]
        jobs += list(extra_jobs)
        return p.map(_worker, jobs, chunksize=max(1, len(jobs) // (procs * 4)))


def extra_names():
    return ["x:nested_onnx_functions", "x:two_function_instances", "x:same_instance_twice", "x:nested_fori", "x:cond_in_while",
            "x:scan_of_cond", "x:loop_with_function", "x:depth3_control_flow", "x:symbolic_matmul", "x:symbolic_reshape",
            "x:conv_nchw", "x:int_ops"]
