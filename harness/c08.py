"""C08 — static type and shape annotations never contradict run time.

Proofs: coq/props/C08.v over coq/theories/Annot.v and gen/GenShapes.v (the annotation helpers of
ir_optimizations.py / ir_postprocess.py translated from /repo on this run by tools/units/c08_units.py).

Ties / validation (this file):
 (a) D  differential: the translated `_dim_token`, `_broadcast_shape_dims`, `_dim_is_known`, `_normalize_dim`,
        `_unknown_shape_like` against the running Python on EVERY combination of dim kinds up to rank 3; the
        hand models of `_refresh_elementwise_output_shape` and `_loosen_graph_value_shapes` against the real
        functions on small onnx_ir graphs (compared inside Coq).
 (b) the property on REAL exports: every value of the top-level graph (and of every function body, run as a
        stand-alone graph under its declared input annotations, plus Loop bodies at depth 1 through extra scan
        outputs) that carries an annotation becomes a graph output; onnxruntime runs the model WITHOUT the
        annotations on seeded inputs for several bindings of the symbolic dims; run-time dtype, rank, every
        declared concrete dim and every declared symbol are compared with what ORT produced.
        `annot_consistent` (proved checker) runs inside Coq on the converted exports.
 (c) post-processing only weakens: the real `postprocess_ir_model` is wrapped in the worker process and the
        annotations of every value (all graphs, all functions) are snapshotted right before / after.
"""
import json
import os
import re
import sys
import time
import traceback
import warnings

warnings.simplefilter("ignore")

import numpy as np  # noqa: E402

import common  # noqa: E402

PROP = "C08"
GEN_UNITS = ["GenShapes"]
BINARY = ("Add", "Mul", "Sub", "Div", "Max", "Min", "Clip")

# ====================================================================== own programs (module level)
# programs aimed at the annotation-rewriting passes (size-1 constants of higher rank, transposes around
# elementwise chains, symbolic dims next to constants).  name -> (callable factory, input spec)


def _own_programs():
    import jax
    import jax.numpy as jnp
    f32 = np.float32

    def sds(shape, dt=f32):
        return jax.ShapeDtypeStruct(shape, dt)
    P = {}
    P["o:add_const11"] = (lambda x: x + jnp.ones((1, 1)), [sds((3,))])
    P["o:mul_npconst11"] = (lambda x: x * np.full((1, 1), 2.0, f32), [sds((3,))])
    P["o:add_npconst111_sin"] = (lambda x: jnp.sin(x + np.ones((1, 1, 1), f32)), [sds((3,))])
    P["o:sym_add_npconst11"] = (lambda x: x + np.ones((1, 1), f32), [("B",)])
    P["o:scalar_plus_const11"] = (lambda x: x + np.ones((1, 1), f32), [sds(())])
    P["o:max_const11"] = (lambda x: jnp.maximum(x, np.zeros((1, 1), f32)), [sds((4,))])
    P["o:clip_consts"] = (lambda x: jnp.clip(x, np.zeros((1, 1), f32), np.ones((1, 1), f32)), [sds((2, 3))])
    P["o:transpose_add_transpose"] = (lambda x: jnp.transpose(jnp.transpose(x, (0, 2, 1)) + np.ones((1, 1, 1), f32), (0, 2, 1)),
                                      [sds((2, 3, 4))])
    P["o:transpose_mul_const_relu"] = (lambda x: jnp.transpose(jax.nn.relu(jnp.transpose(x, (1, 0)) * np.full((1, 1), 3.0, f32)), (1, 0)),
                                       [sds((3, 5))])
    P["o:sym_transpose_chain"] = (lambda x: jnp.transpose(jnp.tanh(jnp.transpose(x, (0, 2, 1)) * 2.0) + 1.0, (0, 2, 1)),
                                  [("B", 3, 4)])
    P["o:sym_broadcast_rows"] = (lambda x, y: x[:, None, :] + y[None, :, :], [("B", 4), ("T", 4)])
    P["o:sym_bias"] = (lambda x, b: jnp.tanh(x + b), [("B", "T", 4), sds((4,))])
    P["o:sym_concat_self"] = (lambda x: jnp.concatenate([x, x], axis=0) * 2.0, [("B", 3)])
    P["o:sym_mean_keepdims"] = (lambda x: x - jnp.mean(x, axis=1, keepdims=True), [("B", 5)])
    P["o:reshape_add_const"] = (lambda x: jnp.reshape(x, (2, 3)) + np.ones((1, 1, 1), f32), [sds((6,))])
    P["o:cast_chain"] = (lambda x: (x.astype(jnp.int32) + 1).astype(jnp.float32) * 0.5, [sds((2, 3))])
    P["o:where_cmp"] = (lambda x, y: jnp.where(x > y, x, y * 2.0), [sds((3, 1)), sds((1, 4))])
    P["o:int_bcast"] = (lambda a, b: a[:, None] * b[None, :] + 1, [sds((3,), np.int32), sds((4,), np.int32)])
    return P


_OWN = None


def own_programs():
    global _OWN
    if _OWN is None:
        _OWN = _own_programs()
    return _OWN


def own_names():
    return ["o:add_const11", "o:mul_npconst11", "o:add_npconst111_sin", "o:sym_add_npconst11", "o:scalar_plus_const11",
            "o:max_const11", "o:clip_consts", "o:transpose_add_transpose", "o:transpose_mul_const_relu",
            "o:sym_transpose_chain", "o:sym_broadcast_rows", "o:sym_bias", "o:sym_concat_self", "o:sym_mean_keepdims",
            "o:reshape_add_const", "o:cast_chain", "o:where_cmp", "o:int_bcast"]


# ====================================================================== annotation snapshots (IR level)
def _ir_dim(d):
    """dim of an onnx_ir shape -> ('i', n) | ('s', name) | ('u',)"""
    if isinstance(d, (int, np.integer)):
        return ("i", int(d))
    v = getattr(d, "value", None)
    if isinstance(v, str) and v != "":
        return ("s", v)
    return ("u",)


def _ir_annot(v):
    import onnx_ir as ir
    shp = v.shape
    dims = None if shp is None else tuple(_ir_dim(d) for d in (shp.dims if isinstance(shp, ir.Shape) else shp))
    dt = v.dtype
    return (None if dt is None else int(dt), dims)


def _ir_snapshot(model):
    """{graph path: {"io": [names], "vals": {name: annot}}} over the main graph, nested graphs, functions"""
    import onnx_ir as ir
    from jax2onnx.ir_utils import iter_ir_functions
    out = {}

    def graph(g, path):
        vals = {}
        io = []
        for v in list(g.inputs) + list(g.outputs):
            if v is not None and v.name:
                io.append(v.name)
                vals[v.name] = _ir_annot(v)
        inits = g.initializers
        for v in (inits.values() if hasattr(inits, "values") else inits):
            if v.name:
                vals[v.name] = _ir_annot(v)
        for ni, n in enumerate(g):
            for o in n.outputs:
                if o is not None and o.name:
                    vals[o.name] = _ir_annot(o)
            for a in n.attributes.values():
                if a.type is ir.AttributeType.GRAPH:
                    sg = a.as_graph()
                    if sg is not None:
                        graph(sg, f"{path}/{ni}:{n.op_type}.{a.name}")
                elif a.type is ir.AttributeType.GRAPHS:
                    for k, sg in enumerate(a.as_graphs()):
                        graph(sg, f"{path}/{ni}:{n.op_type}.{a.name}[{k}]")
        out[path] = {"io": io, "vals": vals}
    graph(model.graph, "main")
    for fn in iter_ir_functions(model.functions):
        g = getattr(fn, "graph", fn)
        graph(g, f"fn:{getattr(fn, 'domain', '')}:{getattr(fn, 'name', '')}")
    return out


def compare_snapshots(before, after, promote):
    """-> (stats, problems).  A problem is a dim that became something else than itself or unknown, a changed
    rank/dtype, or any change of a graph's own input/output annotation."""
    stats = {"values": 0, "unchanged": 0, "dims_loosened": 0, "values_loosened": 0, "dtype_promoted": 0,
             "io_values": 0, "loosened_in": {}}
    problems = []
    for path, gb in before.items():
        ga = after.get(path)
        if ga is None:
            problems.append(("graph-vanished", path, "", None, None))
            continue
        io = set(gb["io"])
        for name, (dt0, sh0) in gb["vals"].items():
            if name not in ga["vals"]:
                problems.append(("value-vanished", path, name, (dt0, sh0), None))
                continue
            dt1, sh1 = ga["vals"][name]
            stats["values"] += 1
            is_io = name in io
            stats["io_values"] += is_io
            if (dt0, sh0) == (dt1, sh1):
                stats["unchanged"] += 1
                continue
            if is_io:
                problems.append(("io-touched", path, name, (dt0, sh0), (dt1, sh1)))
                continue
            if dt0 != dt1:
                if promote and dt0 == 1 and dt1 == 11:
                    stats["dtype_promoted"] += 1
                else:
                    problems.append(("dtype-changed", path, name, (dt0, sh0), (dt1, sh1)))
                    continue
            if sh0 != sh1:
                if sh0 is None or sh1 is None or len(sh0) != len(sh1):
                    problems.append(("rank-changed", path, name, (dt0, sh0), (dt1, sh1)))
                    continue
                bad = [i for i, (a, b) in enumerate(zip(sh0, sh1)) if not (a == b or b == ("u",))]
                if bad:
                    problems.append(("dim-strengthened", path, name, (dt0, sh0), (dt1, sh1)))
                    continue
                stats["dims_loosened"] += sum(1 for a, b in zip(sh0, sh1) if a != b)
                stats["values_loosened"] += 1
                kind = "main" if path == "main" else ("function" if path.startswith("fn:") and "/" not in path else
                                                      ("loop/scan body" if re.search(r":(Loop|Scan)\.", path) else "other body"))
                stats["loosened_in"][kind] = stats["loosened_in"].get(kind, 0) + 1
    return stats, problems


# ====================================================================== run-time validation (proto level)
def _vi_annot(vi):
    """ValueInfoProto -> (elem_type (0 = none), dims | None) ; dims: ('i', n) | ('s', name) | ('u',)"""
    if not vi.type.HasField("tensor_type"):
        return None
    tt = vi.type.tensor_type
    dims = None
    if tt.HasField("shape"):
        dims = []
        for d in tt.shape.dim:
            if d.HasField("dim_value"):
                dims.append(("i", int(d.dim_value)))
            elif d.HasField("dim_param") and d.dim_param:
                dims.append(("s", d.dim_param))
            else:
                dims.append(("u",))
        dims = tuple(dims)
    return (int(tt.elem_type), dims)


_NP_OF = None


def _np_of(code):
    global _NP_OF
    if _NP_OF is None:
        import onnx
        _NP_OF = {}
        for c in (1, 2, 3, 4, 5, 6, 7, 9, 10, 11, 12, 13, 14, 15):
            _NP_OF[c] = np.dtype(onnx.helper.tensor_dtype_to_np_dtype(c))
    return _NP_OF.get(code)


def _code_of_np(dt):
    import onnx
    try:
        return int(onnx.helper.np_dtype_to_tensor_dtype(np.dtype(dt)))
    except Exception:
        return {"bfloat16": 16}.get(str(dt), -1)


def _rand_input(rs, code, shape):
    dt = _np_of(code)
    if dt is None:
        return None
    if dt == np.bool_:
        return rs.rand(*shape) > 0.5
    if dt.kind in "iu":
        return rs.randint(0, 2, size=shape).astype(dt)
    if dt.kind == "c":
        return (rs.rand(*shape) + 1j * rs.rand(*shape)).astype(dt)
    return (rs.rand(*shape) * 0.8 + 0.1).astype(dt)


def _strip_annotations(g):
    import onnx
    del g.value_info[:]
    for n in g.node:
        for a in n.attribute:
            if a.type == onnx.AttributeProto.GRAPH:
                _strip_annotations(a.g)
            elif a.type == onnx.AttributeProto.GRAPHS:
                for sg in a.graphs:
                    _strip_annotations(sg)


def _loop_body_exposure(g, table, producers, tag):
    """For every top-level Loop node: every annotated value produced INSIDE its body (depth 1) becomes an extra
    scan output `__c08_<k>`; the body annotation of the value is then a claim about every slice [i] of that output.
    Returns {extra output name: (body value name, annot, producer op)}.  Mutates g."""
    import onnx
    exposed = {}
    k = 0
    for n in g.node:
        if n.op_type != "Loop" or n.domain not in ("", "ai.onnx"):
            continue
        body = next((a.g for a in n.attribute if a.name == "body" and a.type == onnx.AttributeProto.GRAPH), None)
        if body is None:
            continue
        prod = {o: bn.op_type for bn in body.node for o in bn.output if o}
        body_out = {o.name for o in body.output}
        for vi in list(body.value_info):
            an = _vi_annot(vi)
            if an is None or vi.name not in prod or vi.name in body_out:
                continue
            nm = f"__c08_{tag}_{k}"
            k += 1
            # an Identity keeps the exposed value distinct from other body outputs
            body.node.add(op_type="Identity", input=[vi.name], output=[nm + "_b"], name=nm + "_id")
            o = body.output.add()
            o.name = nm + "_b"
            n.output.append(nm)
            exposed[nm] = (vi.name, an, prod[vi.name])
    return exposed


class _Target:
    """one runnable graph + the annotations to compare against"""
    def __init__(self, label, model, inputs, table, producers, exposed):
        self.label, self.model, self.inputs, self.table, self.producers, self.exposed = label, model, inputs, table, producers, exposed


def _make_target(label, model, g, loop_bodies):
    """model: ModelProto whose graph is g (mutable copy).  Collect the annotation table, strip annotations,
    expose every annotated value as an output."""
    import onnx
    init_names = {t.name for t in g.initializer}
    inputs = [(vi.name, _vi_annot(vi)) for vi in g.input if vi.name not in init_names]
    producers = {o: n.op_type for n in g.node for o in n.output if o}
    table = {}
    for vi in list(g.value_info) + list(g.output):
        an = _vi_annot(vi)
        if an is not None and (vi.name in producers):
            table.setdefault(vi.name, an)
    for vi in g.output:          # graph outputs take precedence (they are the interface)
        an = _vi_annot(vi)
        if an is not None and vi.name in producers:
            table[vi.name] = an
    exposed = _loop_body_exposure(g, table, producers, "L") if loop_bodies else {}
    _strip_annotations(g)
    have = {o.name for o in g.output}
    for o in g.output:
        o.ClearField("type")
    for name in list(table) + list(exposed):
        if name not in have:
            g.output.add().name = name
            have.add(name)
    return _Target(label, model, inputs, table, producers, exposed)


def _function_targets(m, loop_bodies=True):
    """every function body with value_info as a stand-alone model under its DECLARED input annotations"""
    import onnx
    out = []
    skipped = []
    for f in m.functions:
        if not f.value_info:
            skipped.append((f.name, "no value_info"))
            continue
        if f.attribute or any(a.ref_attr_name for n in f.node for a in n.attribute):
            skipped.append((f.name, "attribute parameters"))
            continue
        vi_by = {v.name: v for v in f.value_info}
        if any(i not in vi_by or _vi_annot(vi_by[i]) is None or _vi_annot(vi_by[i])[1] is None for i in f.input):
            skipped.append((f.name, "untyped input"))
            continue
        g = onnx.GraphProto(name="fn_" + f.name)
        for i in f.input:
            g.input.add().CopyFrom(vi_by[i])
        g.node.extend(f.node)
        produced = {o for n in f.node for o in n.output if o}
        for v in f.value_info:
            if v.name in produced:
                g.value_info.add().CopyFrom(v)
        for o in f.output:
            ov = g.output.add()
            if o in vi_by:
                ov.CopyFrom(vi_by[o])
            else:
                ov.name = o
        fm = onnx.ModelProto(ir_version=m.ir_version)
        seen = set()
        for o in list(f.opset_import) + list(m.opset_import):
            if o.domain not in seen:
                seen.add(o.domain)
                fm.opset_import.add().CopyFrom(o)
        fm.functions.extend(m.functions)
        fm.graph.CopyFrom(g)
        out.append(_make_target(f"fn:{f.name}", fm, fm.graph, loop_bodies=loop_bodies))
    return out, skipped


def _callsite_mismatches(m):
    """static: annotation of the actual argument / result at every call site of a local function against the
    function's own annotation of its formal input / output (both are claims about the same run-time value)"""
    fns = {(f.domain, f.name): f for f in m.functions}
    res = []
    n_sites = 0

    def table_of(value_infos):
        t = {}
        for vi in value_infos:
            an = _vi_annot(vi)
            if an is not None:
                t[vi.name] = an
        return t

    def scan(nodes, tab, where):
        nonlocal n_sites
        for n in nodes:
            f = fns.get((n.domain, n.op_type))
            if f is None:
                continue
            n_sites += 1
            ftab = table_of(f.value_info)
            for formal, actual in list(zip(f.input, n.input)) + list(zip(f.output, n.output)):
                a, b = ftab.get(formal), tab.get(actual)
                if a is None or b is None:
                    continue
                why = None
                if a[0] and b[0] and a[0] != b[0]:
                    why = "dtype"
                elif a[1] is not None and b[1] is not None:
                    if len(a[1]) != len(b[1]):
                        why = "rank"
                    elif any(x[0] == "i" and y[0] == "i" and x[1] != y[1] for x, y in zip(a[1], b[1])):
                        why = "dim"
                if why:
                    res.append((why, f.name, where, formal, a, actual, b))
    g = m.graph
    top = table_of(list(g.input) + list(g.value_info) + list(g.output))
    for t in g.initializer:
        top.setdefault(t.name, (int(t.data_type), tuple(("i", int(d)) for d in t.dims)))
    scan(g.node, top, "main")
    for f in m.functions:
        scan(f.node, table_of(f.value_info), "fn:" + f.name)
    return res, n_sites


def _bindings(symbols, tier):
    """list of {symbol: value}; distinct symbols get distinct values in the rotated bindings"""
    syms = sorted(symbols)
    if not syms:
        return [{}]
    base = [2, 3, 5, 4, 7]
    out = []
    for r in range(3 if tier != "quick" else 2):
        out.append({s: base[(i + r) % len(base)] for i, s in enumerate(syms)})
    out.append({s: 1 for s in syms})
    return out


def _input_symbols(inputs):
    return {d[1] for _n, an in inputs if an and an[1] for d in an[1] if d[0] == "s"}


def _plain_symbol(s):
    return re.fullmatch(r"[A-Za-z_][A-Za-z_0-9]*", s) is not None


def _run_target(t, binding, seed):
    """-> (status, observations {name: (np dtype code, shape)}, feed shapes)"""
    import onnxruntime as ort
    rs = np.random.RandomState(seed)
    feed = {}
    env = dict(binding)
    for name, an in t.inputs:
        if an is None or an[1] is None or _np_of(an[0]) is None:
            return "unsupported-input", None, None
        shape = []
        for d in an[1]:
            if d[0] == "i":
                shape.append(d[1])
            elif d[0] == "s":
                if d[1] not in env:
                    return "unsupported-input", None, None
                shape.append(env[d[1]])
            else:
                shape.append(2)
        a = _rand_input(rs, an[0], tuple(shape))
        if a is None:
            return "unsupported-input", None, None
        feed[name] = a
    so = ort.SessionOptions()
    so.graph_optimization_level = ort.GraphOptimizationLevel.ORT_DISABLE_ALL
    so.log_severity_level = 4
    so.intra_op_num_threads = 1
    so.inter_op_num_threads = 1
    try:
        sess = ort.InferenceSession(t.model.SerializeToString(), so, providers=["CPUExecutionProvider"])
    except Exception as e:  # noqa
        return "session-failed: " + str(e)[:200], None, None
    try:
        names = [o.name for o in sess.get_outputs()]
        res = sess.run(names, feed)
    except Exception as e:  # noqa
        return "run-failed: " + str(e)[:200], None, None
    obs = {}
    for n, a in zip(names, res):
        if isinstance(a, np.ndarray) or np.isscalar(a):
            a = np.asarray(a)
            obs[n] = (_code_of_np(a.dtype), tuple(int(x) for x in a.shape))
    return "ok", obs, {k: v.shape for k, v in feed.items()}


def _compare(t, binding, obs, stats, contradictions):
    """every DECLARED fact against the observation.  Symbols: one value per symbol per run; symbols of the
    graph inputs must take the bound value."""
    symval = {}
    symwho = {}
    in_syms = _input_symbols(t.inputs)
    for s in in_syms:
        if s in binding:
            symval[s] = binding[s]
            symwho[s] = "<input binding>"

    def one(name, an, shape_obs, dt_obs, op, lead):
        dt, dims = an
        stats["values"] += 1
        stats["ops"][op] = stats["ops"].get(op, 0) + 1
        if dt:
            stats["dtype_checked"] += 1
            if dt != dt_obs:
                contradictions.append(("dtype", op, name, f"declared elem_type {dt}, run time {dt_obs}", an, (dt_obs, shape_obs)))
        else:
            stats["dtype_unknown"] += 1
        if dims is None:
            stats["shape_unknown"] += 1
            return
        sh = shape_obs[lead:]
        stats["rank_checked"] += 1
        if len(sh) != len(dims):
            contradictions.append(("rank", op, name, f"declared rank {len(dims)} {_fmt(dims)}, run time shape {list(sh)}", an, (dt_obs, shape_obs)))
            return
        for i, (d, r) in enumerate(zip(dims, sh)):
            if d[0] == "i":
                stats["dim_checked"] += 1
                if d[1] != r:
                    contradictions.append(("dim", op, name, f"declared {_fmt(dims)}, run time shape {list(sh)} (axis {i})", an, (dt_obs, shape_obs)))
                    return
            elif d[0] == "s":
                stats["sym_checked"] += 1
                if d[1] in symval and symval[d[1]] != r:
                    contradictions.append(("sym", op, name, f"declared {_fmt(dims)}: symbol {d[1]} is {symval[d[1]]} at {symwho[d[1]]} "
                                                            f"but {r} here (run time shape {list(sh)})", an, (dt_obs, shape_obs)))
                    return
                if d[1] not in symval:
                    symval[d[1]] = r
                    symwho[d[1]] = name
            else:
                stats["dim_unknown"] += 1
    for name, an in t.table.items():
        if name not in obs:
            stats["not_observed"] += 1
            continue
        one(name, an, obs[name][1], obs[name][0], t.producers.get(name, "?"), 0)
    for ex, (bname, an, op) in t.exposed.items():
        if ex not in obs:
            stats["not_observed"] += 1
            continue
        if len(obs[ex][1]) == 0 or obs[ex][1][0] == 0:
            continue                   # zero iterations: no slice to look at
        stats["loop_body_values"] += 1
        # symbols inside a body are scoped to the body graph: compare ints, rank, dtype only
        an2 = (an[0], None if an[1] is None else tuple(d if d[0] == "i" else ("u",) for d in an[1]))
        one("Loop.body:" + bname, an2, obs[ex][1], obs[ex][0], "Loop.body/" + op, 1)


def _fmt(dims):
    return "[" + ",".join(str(d[1]) if d[0] in "is" else "?" for d in dims) + "]"


def new_stats():
    return {"values": 0, "dtype_checked": 0, "dtype_unknown": 0, "rank_checked": 0, "shape_unknown": 0, "dim_checked": 0,
            "sym_checked": 0, "dim_unknown": 0, "not_observed": 0, "loop_body_values": 0, "ops": {}, "runs": 0,
            "runs_failed": 0, "targets": 0, "function_targets": 0, "bindings": 0}


def validate_model(model_bytes, key, tier, seed):
    """-> dict(stats, contradictions [(kind, op, value, what, declared, observed, binding, target)], notes)"""
    import onnx
    m = onnx.ModelProto()
    m.ParseFromString(model_bytes)
    stats = new_stats()
    notes = []
    contr = []
    targets = []
    try:
        mm = onnx.ModelProto()
        mm.CopyFrom(m)
        targets.append(_make_target("main", mm, mm.graph, loop_bodies=True))
    except Exception as e:  # noqa
        notes.append("main target: " + repr(e)[:200])
    try:
        fts, skipped = _function_targets(m)
        targets += fts
        notes += [f"function {n} not run: {w}" for n, w in skipped]
    except Exception as e:  # noqa
        notes.append("function targets: " + repr(e)[:200])
    for t in targets:
        stats["targets"] += 1
        stats["function_targets"] += t.label != "main"
        binds = _bindings(_input_symbols(t.inputs), tier)
        for bi, b in enumerate(binds):
            stats["bindings"] += 1
            status, obs, _feed = _run_target(t, b, seed * 1000 + bi)
            if status != "ok" and t.exposed:
                # retry without the loop-body exposure (e.g. iteration-dependent shapes cannot be stacked)
                t2 = _retarget_without_exposure(m, t)
                if t2 is not None:
                    status2, obs2, _ = _run_target(t2, b, seed * 1000 + bi)
                    if status2 == "ok":
                        notes.append(f"{t.label}: loop-body exposure dropped ({status[:80]})")
                        status, obs, t = status2, obs2, t2
            stats["runs"] += 1
            if status != "ok":
                stats["runs_failed"] += 1
                notes.append(f"{t.label} binding {b}: {status}")
                continue
            cs = []
            _compare(t, b, obs, stats, cs)
            for c in cs:
                contr.append(c + (dict(b), t.label))
    cs_mis, n_sites = _callsite_mismatches(m)
    return {"key": key, "stats": stats, "contradictions": contr, "notes": notes[:20], "callsites": n_sites,
            "callsite_mismatches": cs_mis}


def _retarget_without_exposure(m, t):
    import onnx
    try:
        if t.label == "main":
            mm = onnx.ModelProto()
            mm.CopyFrom(m)
            return _make_target("main", mm, mm.graph, loop_bodies=False)
        fts, _ = _function_targets(m, loop_bodies=False)
        return next((x for x in fts if x.label == t.label), None)
    except Exception:  # noqa
        return None


# ====================================================================== worker: export + snapshot + validate
def _worker(job):
    """job = (kind, ident, overrides, tier, seed) -> result dict (picklable)"""
    kind, ident, over, tier, seed = job
    os.environ.setdefault("JAX_PLATFORMS", "cpu")
    import exports
    res = {"key": None, "error": None, "model": None, "post": None, "val": None}
    snaps = []
    try:
        import jax2onnx.user_interface as ui
        real = getattr(ui.postprocess_ir_model, "__c08_real__", ui.postprocess_ir_model)

        def wrapped(model, *, promote_to_double):
            before = _ir_snapshot(model)
            r = real(model, promote_to_double=promote_to_double)
            after = _ir_snapshot(model)
            snaps.append((before, after, bool(promote_to_double)))
            return r
        wrapped.__c08_real__ = real
        ui.postprocess_ir_model = wrapped
        try:
            if kind == "reg":
                tp = exports.registry_items()[ident]
                res["key"] = exports.tp_key(tp)
                m = exports.export_tp(tp, **dict(over))
            elif kind == "extra":
                res["key"] = ident
                m = exports.export_extra(ident, **dict(over))
            else:
                from jax2onnx import to_onnx
                res["key"] = ident
                fn, spec = own_programs()[ident]
                m = to_onnx(fn, spec, **dict(over))
        finally:
            ui.postprocess_ir_model = real
        res["model"] = m.SerializeToString()
    except Exception as e:  # noqa
        if res["key"] is None:
            res["key"] = str(ident)
        res["error"] = f"{type(e).__name__}: {str(e)[:300]}"
        return res
    try:
        if snaps:
            st, pr = compare_snapshots(*snaps[-1])
            res["post"] = {"stats": st, "problems": pr[:20], "n_problems": len(pr), "calls": len(snaps)}
    except Exception as e:  # noqa
        res["post"] = {"error": repr(e)[:300]}
    try:
        res["val"] = validate_model(res["model"], res["key"], tier, seed)
    except Exception as e:  # noqa
        res["val"] = {"error": traceback.format_exc()[-600:]}
    return res


def _count(_):
    import exports
    return len(exports.registry_items())


def _init_worker():
    os.environ.setdefault("JAX_PLATFORMS", "cpu")
    warnings.simplefilter("ignore")
    import logging
    logging.disable(logging.CRITICAL)


def run_corpus(n_registry, seed, tier, overrides=None, procs=None, extras=True, own=True, indices=None):
    from multiprocessing import get_context
    import exports
    overrides = overrides or {}
    procs = procs or min(14, os.cpu_count() or 4)
    here = os.path.dirname(os.path.abspath(__file__))
    pp = os.environ.get("PYTHONPATH", "")
    if here not in pp.split(":"):
        os.environ["PYTHONPATH"] = here + (":" + pp if pp else "")
    with get_context("spawn").Pool(procs, initializer=_init_worker) as p:
        total = p.apply(_count, (0,))
        idx = indices if indices is not None else exports.select_indices(total, n_registry, seed)
        jobs = [("reg", i, overrides, tier, seed) for i in idx]
        if extras:
            jobs += [("extra", n, overrides, tier, seed) for n in exports.extra_names()]
        if own:
            jobs += [("own", n, overrides, tier, seed) for n in own_names()]
        return p.map(_worker, jobs, chunksize=max(1, len(jobs) // (procs * 6)))
