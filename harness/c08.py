"""C08 — static type and shape annotations never contradict run time.

Proofs: coq/props/C08.v over coq/theories/Annot.v and gen/GenShapes.v (the annotation helpers of
ir_optimizations.py / ir_postprocess.py translated from /repo on this run by tools/units/c08_units.py).

Ties / validation (this file):
 (a) D  differential: the translated `_dim_token`, `_broadcast_shape_dims`, `_dim_is_known`, `_normalize_dim`,
        `_unknown_shape_like` against the running Python on EVERY combination of dim kinds up to rank 3; the
        hand models of `_refresh_elementwise_output_shape` and `_loosen_graph_value_shapes` against the real
        functions on small onnx_ir graphs (compared inside Coq).
 (b) the property on REAL exports: every value of the top-level graph (and of every function body, run as a
        stand-alone graph under its declared input annotations, plus Loop bodies at depth 1 through extra scan
        outputs) that carries an annotation becomes a graph output; onnxruntime runs the model WITHOUT the
        annotations on seeded inputs for several bindings of the symbolic dims; run-time dtype, rank, every
        declared concrete dim and every declared symbol are compared with what ORT produced.
        `annot_consistent` (proved checker) runs inside Coq on the converted exports.
 (c) post-processing only weakens: the real `postprocess_ir_model` is wrapped in the worker process and the
        annotations of every value (all graphs, all functions) are snapshotted right before / after.
"""
import json
import os
import re
import sys
import time
import traceback
import warnings

warnings.simplefilter("ignore")

import numpy as np  # noqa: E402

import common  # noqa: E402

PROP = "C08"
BUDGET_S = {"quick": 25, "thorough": 120}      # per exported model, all targets and bindings
BIG_MODEL_BYTES = 16 << 20
MAX_RUNTIME_BYTES = 400 << 20                  # larger exports are only checked statically
MAX_TERM_CHARS = 6_000_000
PER_FILE_MODELS = 12
CORPUS_DEADLINE_S = {"quick": 120, "thorough": 500}
HARD_DEADLINE_FACTOR = {"quick": 3.0, "thorough": 2.0}                     # on a heavily loaded machine the corpus may take this much longer
GEN_UNITS = ["GenShapes"]
BINARY = ("Add", "Mul", "Sub", "Div", "Max", "Min", "Clip")

# ====================================================================== own programs (module level)
# programs aimed at the annotation-rewriting passes (size-1 constants of higher rank, transposes around
# elementwise chains, symbolic dims next to constants).  name -> (callable factory, input spec)


def _own_programs():
    import jax
    import jax.numpy as jnp
    f32 = np.float32

    def sds(shape, dt=f32):
        return jax.ShapeDtypeStruct(shape, dt)
    P = {}
    P["o:add_const11"] = (lambda x: x + jnp.ones((1, 1)), [sds((3,))])
    P["o:mul_npconst11"] = (lambda x: x * np.full((1, 1), 2.0, f32), [sds((3,))])
    P["o:add_npconst111_sin"] = (lambda x: jnp.sin(x + np.ones((1, 1, 1), f32)), [sds((3,))])
    P["o:sym_add_npconst11"] = (lambda x: x + np.ones((1, 1), f32), [("B",)])
    P["o:scalar_plus_const11"] = (lambda x: x + np.ones((1, 1), f32), [sds(())])
    P["o:max_const11"] = (lambda x: jnp.maximum(x, np.zeros((1, 1), f32)), [sds((4,))])
    P["o:clip_consts"] = (lambda x: jnp.clip(x, np.zeros((1, 1), f32), np.ones((1, 1), f32)), [sds((2, 3))])
    P["o:transpose_add_transpose"] = (lambda x: jnp.transpose(jnp.transpose(x, (0, 2, 1)) + np.ones((1, 1, 1), f32), (0, 2, 1)),
                                      [sds((2, 3, 4))])
    P["o:transpose_mul_const_relu"] = (lambda x: jnp.transpose(jax.nn.relu(jnp.transpose(x, (1, 0)) * np.full((1, 1), 3.0, f32)), (1, 0)),
                                       [sds((3, 5))])
    P["o:sym_transpose_chain"] = (lambda x: jnp.transpose(jnp.tanh(jnp.transpose(x, (0, 2, 1)) * 2.0) + 1.0, (0, 2, 1)),
                                  [("B", 3, 4)])
    P["o:sym_broadcast_rows"] = (lambda x, y: x[:, None, :] + y[None, :, :], [("B", 4), ("T", 4)])
    P["o:sym_bias"] = (lambda x, b: jnp.tanh(x + b), [("B", "T", 4), sds((4,))])
    P["o:sym_concat_self"] = (lambda x: jnp.concatenate([x, x], axis=0) * 2.0, [("B", 3)])
    P["o:sym_mean_keepdims"] = (lambda x: x - jnp.mean(x, axis=1, keepdims=True), [("B", 5)])
    P["o:reshape_add_const"] = (lambda x: jnp.reshape(x, (2, 3)) + np.ones((1, 1, 1), f32), [sds((6,))])
    P["o:cast_chain"] = (lambda x: (x.astype(jnp.int32) + 1).astype(jnp.float32) * 0.5, [sds((2, 3))])
    P["o:where_cmp"] = (lambda x, y: jnp.where(x > y, x, y * 2.0), [sds((3, 1)), sds((1, 4))])
    P["o:sym_two_aranges"] = (lambda x: (jnp.arange(x.shape[1]), jnp.arange(x.shape[2])), [("B", "H", "W", 3)])
    P["o:min_sym_const111"] = (lambda x: jnp.minimum(x, np.zeros((1, 1, 1), f32)), [("B",)])
    # explicit narrowing cast while everything else follows the double-precision policy (own to_onnx kwargs)
    P["o:x64_narrowing_cast"] = (lambda x: jnp.sin(x.astype(jnp.float32)), [sds((2, 3), np.float64)], {"enable_double_precision": True})
    P["o:nchw_sym_spatial_broadcast"] = (lambda x: jnp.broadcast_to(jnp.mean(x, axis=(1, 2), keepdims=True), x.shape) + x,
                                         [("B", "H", "W", 3)], {"inputs_as_nchw": [0]})
    P["o:nchw_sym_spatial_broadcast_only"] = (lambda x: jnp.broadcast_to(jnp.mean(x, axis=(1, 2), keepdims=True), x.shape) * 2.0,
                                              [("B", "H", "W", 3)], {"inputs_as_nchw": [0]})
    P["o:nchw_out_sym_spatial"] = (lambda x: jnp.tanh(x) + jnp.ones(x.shape[1:], x.dtype), [("B", "H", "W", 3)],
                                   {"inputs_as_nchw": [0], "outputs_as_nchw": [0]})
    # Pow broadcasts: the base may be smaller than the result (ops the unary propagation must not touch)
    P["o:pow_scalar_base"] = (lambda x: 2.0 ** x, [sds((3, 4))])
    P["o:exp2"] = (lambda x: jnp.exp2(x) + 1.0, [sds((2, 3))])
    P["o:power_col_base"] = (lambda c, x: jnp.power(c, x), [sds((3, 1)), sds((3, 4))])
    P["o:sym_pow_scalar_base"] = (lambda x: jnp.tanh(3.0 ** x), [("B", 4)])
    # plugins that STAMP the shapes of intermediates from permutation arithmetic: pairwise distinct extents, cyclic perms
    from jax import lax
    P["o:vmap1_tensordot"] = (jax.vmap(lambda a, b: jnp.tensordot(a, b, axes=([0], [0])), in_axes=(1, None)), [("S", 8, 4), ("S", 5)])
    P["o:vmap1_tensordot_static"] = (jax.vmap(lambda a, b: jnp.tensordot(a, b, axes=([0], [0])), in_axes=(1, None)), [sds((6, 8, 4)), sds((6, 5))])
    P["o:dot_general_batch_nonleading"] = (lambda a, b: lax.dot_general(a, b, (((1,), (1,)), ((0, 2), (0, 2)))), [("B", 3, 5, 4), ("B", 3, 5, 7)])
    P["o:dot_general_batch_last"] = (lambda a, b: lax.dot_general(a, b, (((0,), (1,)), ((2,), (0,)))), [sds((3, 4, 5)), sds((5, 3, 7))])
    P["o:einsum_bthd"] = (lambda q, k: jnp.einsum("bthd,bshd->bhts", q, k), [("B", 6, 3, 4), ("B", 7, 3, 4)])
    # a dtype-changing op BETWEEN a Transpose and its inverse: the pair fold re-annotates the op in the middle
    P["o:transpose_cast_transpose_sym"] = (lambda x: jnp.transpose(jnp.transpose(x, (0, 2, 3, 1)).astype(jnp.int32), (0, 3, 1, 2)) * 2, [("B", 3, 4, 5)])
    P["o:transpose_cmp_transpose"] = (lambda x: jnp.transpose(jnp.transpose(x, (0, 2, 3, 1)) > 0.5, (0, 3, 1, 2)) & (x < 2.0), [sds((2, 3, 4, 5))])
    P["o:transpose_not_cast_transpose"] = (lambda x: jnp.transpose(jnp.logical_not(jnp.transpose(x, (1, 0)) > 0.0).astype(jnp.float32), (1, 0)) + x, [("B", 4)])
    P["o:einsum_cyclic"] = (lambda a, b: jnp.einsum("ijk,kli->jl", a, b), [sds((3, 4, 5)), sds((5, 6, 3))])
    P["o:attention_relayout"] = (lambda q, k, v: jnp.reshape(jnp.transpose(
        jax.nn.softmax(jnp.transpose(q, (0, 2, 1, 3)) @ jnp.transpose(k, (0, 2, 3, 1)) * 0.5, axis=-1) @ jnp.transpose(v, (0, 2, 1, 3)),
        (0, 2, 1, 3)), (q.shape[0], 6, 12)), [("B", 6, 3, 4), ("B", 7, 3, 4), ("B", 7, 3, 4)])
    P["o:moveaxis_chain"] = (lambda x: jnp.moveaxis(jnp.swapaxes(jnp.tanh(x), 0, 2), 1, 3) * 2.0, [("B", 3, 4, 5)])
    P["o:transpose_cyclic_sym"] = (lambda x: jnp.sin(jnp.transpose(x, (1, 2, 0))) + 1.0, [("S", 8, 4)])
    P["o:vmap2_matmul"] = (jax.vmap(jnp.matmul, in_axes=(2, None)), [sds((3, 4, 6)), sds((4, 5))])
    P["o:vmap1_einsum"] = (jax.vmap(lambda a, b: jnp.einsum("td,de->te", a, b), in_axes=(1, None)), [sds((6, 7, 4)), sds((4, 5))])
    P["o:conv_nchw_oihw_to_nhwc"] = (lambda x, w: lax.conv_general_dilated(x, w, (1, 1), "VALID", dimension_numbers=("NCHW", "OIHW", "NHWC")),
                                     [("B", 3, 6, 8), sds((4, 3, 2, 2))])
    P["o:conv_nhwc_hwio"] = (lambda x, w: lax.conv_general_dilated(x, w, (1, 2), "SAME", dimension_numbers=("NHWC", "HWIO", "NHWC")),
                             [("B", 6, 8, 3), sds((2, 2, 3, 4))])
    P["o:int_bcast"] = (lambda a, b: a[:, None] * b[None, :] + 1, [sds((3,), np.int32), sds((4,), np.int32)])
    return P


_OWN = None


def own_programs():
    global _OWN
    if _OWN is None:
        _OWN = _own_programs()
    return _OWN


def own_names():
    return ["o:add_const11", "o:mul_npconst11", "o:add_npconst111_sin", "o:sym_add_npconst11", "o:scalar_plus_const11",
            "o:max_const11", "o:clip_consts", "o:transpose_add_transpose", "o:transpose_mul_const_relu",
            "o:sym_transpose_chain", "o:sym_broadcast_rows", "o:sym_bias", "o:sym_concat_self", "o:sym_mean_keepdims",
            "o:reshape_add_const", "o:cast_chain", "o:where_cmp", "o:sym_two_aranges", "o:min_sym_const111", "o:x64_narrowing_cast", "o:nchw_sym_spatial_broadcast", "o:nchw_sym_spatial_broadcast_only", "o:nchw_out_sym_spatial", "o:pow_scalar_base", "o:exp2", "o:power_col_base", "o:sym_pow_scalar_base",
            "o:vmap1_tensordot", "o:vmap1_tensordot_static", "o:dot_general_batch_nonleading", "o:dot_general_batch_last", "o:einsum_bthd",
            "o:einsum_cyclic", "o:transpose_cast_transpose_sym", "o:transpose_cmp_transpose", "o:transpose_not_cast_transpose", "o:attention_relayout", "o:moveaxis_chain", "o:transpose_cyclic_sym", "o:vmap2_matmul", "o:vmap1_einsum",
            "o:conv_nchw_oihw_to_nhwc", "o:conv_nhwc_hwio", "o:int_bcast"]


# ====================================================================== annotation snapshots (IR level)
def _ir_dim(d):
    """dim of an onnx_ir shape -> ('i', n) | ('s', name) | ('u',)"""
    if isinstance(d, (int, np.integer)):
        return ("i", int(d))
    v = getattr(d, "value", None)
    if isinstance(v, str) and v != "":
        return ("s", v)
    return ("u",)


def _ir_annot(v):
    import onnx_ir as ir
    shp = v.shape
    dims = None if shp is None else tuple(_ir_dim(d) for d in (shp.dims if isinstance(shp, ir.Shape) else shp))
    dt = v.dtype
    return (None if dt is None else int(dt), dims)


def _ir_snapshot(model):
    """{graph path: {"io": [names], "vals": {name: annot}}} over the main graph, nested graphs, functions"""
    import onnx_ir as ir
    from jax2onnx.ir_utils import iter_ir_functions
    out = {}

    def graph(g, path):
        vals = {}
        io = []
        for v in list(g.inputs) + list(g.outputs):
            if v is not None and v.name:
                io.append(v.name)
                vals[v.name] = _ir_annot(v)
        inits = g.initializers
        for v in (inits.values() if hasattr(inits, "values") else inits):
            if v.name:
                vals[v.name] = _ir_annot(v)
        for ni, n in enumerate(g):
            for o in n.outputs:
                if o is not None and o.name:
                    vals[o.name] = _ir_annot(o)
            for a in n.attributes.values():
                if a.type is ir.AttributeType.GRAPH:
                    sg = a.as_graph()
                    if sg is not None:
                        graph(sg, f"{path}/{ni}:{n.op_type}.{a.name}")
                elif a.type is ir.AttributeType.GRAPHS:
                    for k, sg in enumerate(a.as_graphs()):
                        graph(sg, f"{path}/{ni}:{n.op_type}.{a.name}[{k}]")
        out[path] = {"io": io, "vals": vals}
    graph(model.graph, "main")
    for fn in iter_ir_functions(model.functions):
        g = getattr(fn, "graph", fn)
        graph(g, f"fn:{getattr(fn, 'domain', '')}:{getattr(fn, 'name', '')}")
    return out


def compare_snapshots(before, after, promote):
    """-> (stats, problems).  A problem is a dim that became something else than itself or unknown, a changed
    rank/dtype, or any change of a graph's own input/output annotation."""
    stats = {"values": 0, "unchanged": 0, "dims_loosened": 0, "values_loosened": 0, "dtype_promoted": 0,
             "io_values": 0, "loosened_in": {}}
    problems = []
    for path, gb in before.items():
        ga = after.get(path)
        if ga is None:
            problems.append(("graph-vanished", path, "", None, None))
            continue
        io = set(gb["io"])
        for name, (dt0, sh0) in gb["vals"].items():
            if name not in ga["vals"]:
                problems.append(("value-vanished", path, name, (dt0, sh0), None))
                continue
            dt1, sh1 = ga["vals"][name]
            stats["values"] += 1
            is_io = name in io
            stats["io_values"] += is_io
            if (dt0, sh0) == (dt1, sh1):
                stats["unchanged"] += 1
                continue
            if is_io:
                problems.append(("io-touched", path, name, (dt0, sh0), (dt1, sh1)))
                continue
            if dt0 != dt1:
                if promote and dt0 == 1 and dt1 == 11:
                    stats["dtype_promoted"] += 1
                else:
                    problems.append(("dtype-changed", path, name, (dt0, sh0), (dt1, sh1)))
                    continue
            if sh0 != sh1:
                if sh0 is None or sh1 is None or len(sh0) != len(sh1):
                    problems.append(("rank-changed", path, name, (dt0, sh0), (dt1, sh1)))
                    continue
                bad = [i for i, (a, b) in enumerate(zip(sh0, sh1)) if not (a == b or b == ("u",))]
                if bad:
                    problems.append(("dim-strengthened", path, name, (dt0, sh0), (dt1, sh1)))
                    continue
                stats["dims_loosened"] += sum(1 for a, b in zip(sh0, sh1) if a != b)
                stats["values_loosened"] += 1
                kind = "main" if path == "main" else ("function" if path.startswith("fn:") and "/" not in path else
                                                      ("loop/scan body" if re.search(r":(Loop|Scan)\.", path) else "other body"))
                stats["loosened_in"][kind] = stats["loosened_in"].get(kind, 0) + 1
    return stats, problems


# ====================================================================== run-time validation (proto level)
def _vi_annot(vi):
    """ValueInfoProto -> (elem_type (0 = none), dims | None) ; dims: ('i', n) | ('s', name) | ('u',)"""
    if not vi.type.HasField("tensor_type"):
        return None
    tt = vi.type.tensor_type
    dims = None
    if tt.HasField("shape"):
        dims = []
        for d in tt.shape.dim:
            if d.HasField("dim_value"):
                dims.append(("i", int(d.dim_value)))
            elif d.HasField("dim_param") and d.dim_param:
                dims.append(("s", d.dim_param))
            else:
                dims.append(("u",))
        dims = tuple(dims)
    return (int(tt.elem_type), dims)


_NP_OF = None


def _np_of(code):
    global _NP_OF
    if _NP_OF is None:
        import onnx
        _NP_OF = {}
        for c in (1, 2, 3, 4, 5, 6, 7, 9, 10, 11, 12, 13, 14, 15):
            _NP_OF[c] = np.dtype(onnx.helper.tensor_dtype_to_np_dtype(c))
    return _NP_OF.get(code)


def _code_of_np(dt):
    import onnx
    try:
        return int(onnx.helper.np_dtype_to_tensor_dtype(np.dtype(dt)))
    except Exception:
        return {"bfloat16": 16}.get(str(dt), -1)


def _rand_input(rs, code, shape, ints_one=False):
    dt = _np_of(code)
    if dt is None:
        return None
    shape = tuple(shape)
    u = np.asarray(rs.random_sample(shape), dtype=np.float64).reshape(shape)
    if dt == np.bool_:
        r = u > 0.5
    elif dt.kind in "iu":
        r = np.ones(shape) if ints_one else np.floor(u * 2)
    elif dt.kind == "c":
        r = u + 1j * np.asarray(rs.random_sample(shape)).reshape(shape)
    else:
        r = u * 0.8 + 0.1
    return np.asarray(r).astype(dt).reshape(shape)


def _strip_annotations(g):
    import onnx
    del g.value_info[:]
    for n in g.node:
        for a in n.attribute:
            if a.type == onnx.AttributeProto.GRAPH:
                _strip_annotations(a.g)
            elif a.type == onnx.AttributeProto.GRAPHS:
                for sg in a.graphs:
                    _strip_annotations(sg)


def _loop_body_exposure(g, table, producers, tag):
    """For every top-level Loop node: every annotated value produced INSIDE its body (depth 1) becomes an extra
    scan output `__c08_<k>`; the body annotation of the value is then a claim about every slice [i] of that output.
    Returns {extra output name: (body value name, annot, producer op)}.  Mutates g."""
    import onnx
    exposed = {}
    k = 0
    for n in g.node:
        if n.op_type != "Loop" or n.domain not in ("", "ai.onnx"):
            continue
        body = next((a.g for a in n.attribute if a.name == "body" and a.type == onnx.AttributeProto.GRAPH), None)
        if body is None:
            continue
        prod = {o: bn.op_type for bn in body.node for o in bn.output if o}
        body_out = {o.name for o in body.output}
        for vi in list(body.value_info):
            an = _vi_annot(vi)
            if an is None or vi.name not in prod or vi.name in body_out:
                continue
            nm = f"__c08_{tag}_{k}"
            k += 1
            # an Identity keeps the exposed value distinct from other body outputs
            body.node.add(op_type="Identity", input=[vi.name], output=[nm + "_b"], name=nm + "_id")
            o = body.output.add()
            o.name = nm + "_b"
            n.output.append(nm)
            exposed[nm] = (vi.name, an, prod[vi.name])
    return exposed


class _Target:
    """one runnable graph + the annotations to compare against"""
    def __init__(self, label, model, inputs, table, producers, exposed):
        self.label, self.model, self.inputs, self.table, self.producers, self.exposed = label, model, inputs, table, producers, exposed


def _make_target(label, model, g, loop_bodies):
    """model: ModelProto whose graph is g (mutable copy).  Collect the annotation table, strip annotations,
    expose every annotated value as an output."""
    import onnx
    init_names = {t.name for t in g.initializer}
    inputs = [(vi.name, _vi_annot(vi)) for vi in g.input if vi.name not in init_names]
    producers = {o: n.op_type for n in g.node for o in n.output if o}
    table = {}
    for vi in list(g.value_info) + list(g.output):
        an = _vi_annot(vi)
        if an is not None and (vi.name in producers):
            table.setdefault(vi.name, an)
    for vi in g.output:          # graph outputs take precedence (they are the interface)
        an = _vi_annot(vi)
        if an is not None and vi.name in producers:
            table[vi.name] = an
    exposed = _loop_body_exposure(g, table, producers, "L") if loop_bodies else {}
    _strip_annotations(g)
    have = {o.name for o in g.output}
    for o in g.output:
        o.ClearField("type")
    for name in list(table) + list(exposed):
        if name not in have:
            g.output.add().name = name
            have.add(name)
    return _Target(label, model, inputs, table, producers, exposed)


def _reachable_functions(m, f):
    import onnx
    by = {(x.domain, x.name): x for x in m.functions}
    seen, todo = {}, [f]

    def nodes_of(ns):
        for n in ns:
            yield n
            for a in n.attribute:
                if a.type == onnx.AttributeProto.GRAPH:
                    yield from nodes_of(a.g.node)
                elif a.type == onnx.AttributeProto.GRAPHS:
                    for sg in a.graphs:
                        yield from nodes_of(sg.node)
    while todo:
        cur = todo.pop()
        for n in nodes_of(cur.node):
            k = (n.domain, n.op_type)
            if k in by and k not in seen:
                seen[k] = by[k]
                todo.append(by[k])
    return list(seen.values())


def _function_targets(m, loop_bodies=True):
    """every function body with value_info as a stand-alone model under its DECLARED input annotations"""
    import onnx
    out = []
    skipped = []
    for f in m.functions:
        if not f.value_info:
            skipped.append((f.name, "no value_info"))
            continue
        if f.attribute or any(a.ref_attr_name for n in f.node for a in n.attribute):
            skipped.append((f.name, "attribute parameters"))
            continue
        vi_by = {v.name: v for v in f.value_info}
        if any(i not in vi_by or _vi_annot(vi_by[i]) is None or _vi_annot(vi_by[i])[1] is None for i in f.input):
            skipped.append((f.name, "untyped input"))
            continue
        g = onnx.GraphProto(name="fn_" + f.name)
        for i in f.input:
            g.input.add().CopyFrom(vi_by[i])
        g.node.extend(f.node)
        produced = {o for n in f.node for o in n.output if o}
        for v in f.value_info:
            if v.name in produced:
                g.value_info.add().CopyFrom(v)
        for o in f.output:
            ov = g.output.add()
            if o in vi_by:
                ov.CopyFrom(vi_by[o])
            else:
                ov.name = o
        fm = onnx.ModelProto(ir_version=m.ir_version)
        seen = set()
        for o in list(f.opset_import) + list(m.opset_import):
            if o.domain not in seen:
                seen.add(o.domain)
                fm.opset_import.add().CopyFrom(o)
        fm.functions.extend(_reachable_functions(m, f))
        fm.graph.CopyFrom(g)
        out.append(_make_target(f"fn:{f.name}", fm, fm.graph, loop_bodies=loop_bodies))
    return out, skipped


def _callsite_mismatches(m):
    """static: annotation of the actual argument / result at every call site of a local function against the
    function's own annotation of its formal input / output (both are claims about the same run-time value)"""
    fns = {(f.domain, f.name): f for f in m.functions}
    res = []
    n_sites = 0

    def table_of(value_infos):
        t = {}
        for vi in value_infos:
            an = _vi_annot(vi)
            if an is not None:
                t[vi.name] = an
        return t

    def scan(nodes, tab, where):
        nonlocal n_sites
        for n in nodes:
            f = fns.get((n.domain, n.op_type))
            if f is None:
                continue
            n_sites += 1
            ftab = table_of(f.value_info)
            for formal, actual in list(zip(f.input, n.input)) + list(zip(f.output, n.output)):
                a, b = ftab.get(formal), tab.get(actual)
                if a is None or b is None:
                    continue
                why = None
                if a[0] and b[0] and a[0] != b[0]:
                    why = "dtype"
                elif a[1] is not None and b[1] is not None:
                    if len(a[1]) != len(b[1]):
                        why = "rank"
                    elif any(x[0] == "i" and y[0] == "i" and x[1] != y[1] for x, y in zip(a[1], b[1])):
                        why = "dim"
                if why:
                    res.append((why, f.name, where, formal, a, actual, b))
    g = m.graph
    top = table_of(list(g.input) + list(g.value_info) + list(g.output))
    for t in g.initializer:
        top.setdefault(t.name, (int(t.data_type), tuple(("i", int(d)) for d in t.dims)))
    scan(g.node, top, "main")
    for f in m.functions:
        scan(f.node, table_of(f.value_info), "fn:" + f.name)
    return res, n_sites


def _bindings(symbols, tier):
    """list of {symbol: value}; distinct symbols get distinct values in the rotated bindings"""
    syms = sorted(symbols)
    if not syms:
        return [{}]
    base = [2, 3, 5, 4, 7]
    out = []
    for r in range(3 if tier != "quick" else 2):
        out.append({s: base[(i + r) % len(base)] for i, s in enumerate(syms)})
    out.append({s: 1 for s in syms})
    return out


def _input_symbols(inputs):
    return {d[1] for _n, an in inputs if an and an[1] for d in an[1] if d[0] == "s"}


def _plain_symbol(s):
    return re.fullmatch(r"[A-Za-z_][A-Za-z_0-9]*", s) is not None


def _run_target(t, binding, seed, ints_one=False):
    """-> (status, observations {name: (np dtype code, shape)}, feed shapes)"""
    import onnxruntime as ort
    rs = np.random.RandomState(seed)
    feed = {}
    env = dict(binding)
    for name, an in t.inputs:
        if an is None or an[1] is None or _np_of(an[0]) is None:
            return "unsupported-input", None, None
        shape = []
        for d in an[1]:
            if d[0] == "i":
                shape.append(d[1])
            elif d[0] == "s":
                if d[1] not in env or not _plain_symbol(d[1]):
                    return "unsupported-input", None, None      # e.g. an expression as the extent of an input
                shape.append(env[d[1]])
            else:
                shape.append(2)
        a = _rand_input(rs, an[0], tuple(shape), ints_one)
        if a is None:
            return "unsupported-input", None, None
        feed[name] = a
    so = ort.SessionOptions()
    so.graph_optimization_level = ort.GraphOptimizationLevel.ORT_DISABLE_ALL
    so.log_severity_level = 4
    so.intra_op_num_threads = 1
    so.inter_op_num_threads = 1
    try:
        if getattr(t, "blob", None) is None:
            t.blob = t.model.SerializeToString()
        sess = ort.InferenceSession(t.blob, so, providers=["CPUExecutionProvider"])
    except Exception as e:  # noqa
        return "session-failed: " + str(e)[:200], None, None
    try:
        names = [o.name for o in sess.get_outputs()]
        res = sess.run(names, feed)
    except Exception as e:  # noqa
        return "run-failed: " + str(e)[:200], None, None
    obs = {}
    for n, a in zip(names, res):
        if isinstance(a, np.ndarray) or np.isscalar(a):
            a = np.asarray(a)
            obs[n] = (_code_of_np(a.dtype), tuple(int(x) for x in a.shape))
    return "ok", obs, {k: v.shape for k, v in feed.items()}


def _compare(t, binding, obs, stats, contradictions):
    """every DECLARED fact against the observation.  Symbols: one value per symbol per run; symbols of the
    graph inputs must take the bound value."""
    symval = {}
    symwho = {}
    in_syms = _input_symbols(t.inputs)
    for s in in_syms:
        if s in binding:
            symval[s] = binding[s]
            symwho[s] = "<input binding>"

    def one(name, an, shape_obs, dt_obs, op, lead):
        dt, dims = an
        stats["values"] += 1
        stats["ops"][op] = stats["ops"].get(op, 0) + 1
        if dt:
            stats["dtype_checked"] += 1
            if dt != dt_obs:
                contradictions.append(("dtype", op, name, f"declared elem_type {dt}, run time {dt_obs}", an, (dt_obs, shape_obs)))
        else:
            stats["dtype_unknown"] += 1
        if dims is None:
            stats["shape_unknown"] += 1
            return
        sh = shape_obs[lead:]
        stats["rank_checked"] += 1
        if len(sh) != len(dims):
            contradictions.append(("rank", op, name, f"declared rank {len(dims)} {_fmt(dims)}, run time shape {list(sh)}", an, (dt_obs, shape_obs)))
            return
        for i, (d, r) in enumerate(zip(dims, sh)):
            if d[0] == "i":
                stats["dim_checked"] += 1
                if d[1] != r:
                    contradictions.append(("dim", op, name, f"declared {_fmt(dims)}, run time shape {list(sh)} (axis {i})", an, (dt_obs, shape_obs)))
                    return
            elif d[0] == "s":
                stats["sym_checked"] += 1
                if d[1] in symval and symval[d[1]] != r:
                    contradictions.append(("sym", op, name, f"declared {_fmt(dims)}: symbol {d[1]} is {symval[d[1]]} at {symwho[d[1]]} "
                                                            f"but {r} here (run time shape {list(sh)})", an, (dt_obs, shape_obs)))
                    return
                if d[1] not in symval:
                    symval[d[1]] = r
                    symwho[d[1]] = name
            else:
                stats["dim_unknown"] += 1
    for name, an in t.table.items():
        if name not in obs:
            stats["not_observed"] += 1
            continue
        one(name, an, obs[name][1], obs[name][0], t.producers.get(name, "?"), 0)
    for ex, (bname, an, op) in t.exposed.items():
        if ex not in obs:
            stats["not_observed"] += 1
            continue
        if len(obs[ex][1]) == 0 or obs[ex][1][0] == 0:
            continue                   # zero iterations: no slice to look at
        stats["loop_body_values"] += 1
        # symbols inside a body are scoped to the body graph: compare ints, rank, dtype only
        an2 = (an[0], None if an[1] is None else tuple(d if d[0] == "i" else ("u",) for d in an[1]))
        one("Loop.body:" + bname, an2, obs[ex][1], obs[ex][0], "Loop.body/" + op, 1)


def _fmt(dims):
    return "[" + ",".join(str(d[1]) if d[0] in "is" else "?" for d in dims) + "]"


def new_stats():
    return {"values": 0, "dtype_checked": 0, "dtype_unknown": 0, "rank_checked": 0, "shape_unknown": 0, "dim_checked": 0,
            "sym_checked": 0, "dim_unknown": 0, "not_observed": 0, "loop_body_values": 0, "ops": {}, "runs": 0,
            "runs_failed": 0, "targets": 0, "function_targets": 0, "bindings": 0}


def validate_model(model_bytes, key, tier, seed):
    """-> dict(stats, contradictions [(kind, op, value, what, declared, observed, binding, target)], notes)"""
    import onnx
    m = onnx.ModelProto()
    m.ParseFromString(model_bytes)
    stats = new_stats()
    notes = []
    contr = []
    targets = []
    try:
        mm = onnx.ModelProto()
        mm.CopyFrom(m)
        targets.append(_make_target("main", mm, mm.graph, loop_bodies=True))
    except Exception as e:  # noqa
        notes.append("main target: " + repr(e)[:200])
    try:
        if len(model_bytes) > BIG_MODEL_BYTES and tier == "quick":
            notes.append(f"large model: {len(m.functions)} function bodies not run in the quick tier")
        else:
            fts, skipped = _function_targets(m)
            targets += fts
            notes += [f"function {n} not run: {w}" for n, w in skipped]
    except Exception as e:  # noqa
        notes.append("function targets: " + repr(e)[:200])
    t_start = time.time()
    budget = BUDGET_S.get(tier, 60)
    big = len(model_bytes) > BIG_MODEL_BYTES
    if big:
        notes.append(f"large model ({len(model_bytes) >> 20} MiB): one binding per target")
    for t in targets:
        if time.time() - t_start > budget:
            notes.append(f"time budget ({budget}s) reached: target {t.label} and later not run")
            stats["targets_skipped_budget"] = stats.get("targets_skipped_budget", 0) + 1
            continue
        stats["targets"] += 1
        stats["function_targets"] += t.label != "main"
        binds = _bindings(_input_symbols(t.inputs), tier)
        if big:
            binds = binds[:1]
        for bi, b in enumerate(binds):
            stats["bindings"] += 1
            status, obs, _feed = _run_target(t, b, seed * 1000 + bi)
            if status.startswith("run-failed") and any(an and _np_of(an[0]) is not None and _np_of(an[0]).kind in "iu" for _n, an in t.inputs):
                # integer data 0/1 may divide by zero or index out of range: once more with all-one integers
                status1, obs1, _ = _run_target(t, b, seed * 1000 + bi, ints_one=True)
                if status1 == "ok":
                    status, obs = status1, obs1
            if status != "ok" and t.exposed:
                # retry without the loop-body exposure (e.g. iteration-dependent shapes cannot be stacked)
                t2 = _retarget_without_exposure(m, t)
                if t2 is not None:
                    status2, obs2, _ = _run_target(t2, b, seed * 1000 + bi)
                    if status2 == "ok":
                        notes.append(f"{t.label}: loop-body exposure dropped ({status[:80]})")
                        status, obs, t = status2, obs2, t2
            stats["runs"] += 1
            if status != "ok":
                stats["runs_failed"] += 1
                notes.append(f"{t.label} binding {b}: {status}")
                continue
            cs = []
            _compare(t, b, obs, stats, cs)
            for c in cs:
                contr.append(c + (dict(b), t.label))
    cs_mis, n_sites = _callsite_mismatches(m)
    return {"key": key, "stats": stats, "contradictions": contr, "notes": notes[:20], "callsites": n_sites,
            "callsite_mismatches": cs_mis}


def _retarget_without_exposure(m, t):
    import onnx
    try:
        if t.label == "main":
            mm = onnx.ModelProto()
            mm.CopyFrom(m)
            return _make_target("main", mm, mm.graph, loop_bodies=False)
        fts, _ = _function_targets(m, loop_bodies=False)
        return next((x for x in fts if x.label == t.label), None)
    except Exception:  # noqa
        return None


# ====================================================================== worker: export + snapshot + validate
def _worker(job):
    """job = (kind, ident, overrides, tier, seed) -> result dict (picklable)"""
    kind, ident, over, tier, seed = job[:5]
    keep_model = len(job) > 5 and job[5]
    static_only = len(job) > 6 and job[6]
    os.environ.setdefault("JAX_PLATFORMS", "cpu")
    import exports
    res = {"key": None, "error": None, "model": None, "post": None, "val": None, "term": None}
    snaps = []
    try:
        import jax2onnx.user_interface as ui
        real = getattr(ui.postprocess_ir_model, "__c08_real__", ui.postprocess_ir_model)

        def wrapped(model, *, promote_to_double):
            before = _ir_snapshot(model)
            r = real(model, promote_to_double=promote_to_double)
            after = _ir_snapshot(model)
            snaps.append((before, after, bool(promote_to_double)))
            return r
        wrapped.__c08_real__ = real
        ui.postprocess_ir_model = wrapped
        try:
            if kind == "reg":
                tp = exports.registry_items()[ident]
                res["key"] = exports.tp_key(tp)
                m = exports.export_tp(tp, **dict(over))
            elif kind == "extra":
                res["key"] = ident
                m = exports.export_extra(ident, **dict(over))
            else:
                from jax2onnx import to_onnx
                res["key"] = ident
                ent = own_programs()[ident]
                fn, spec = ent[0], ent[1]
                kw = dict(ent[2]) if len(ent) > 2 else {}
                kw.update(dict(over))
                m = to_onnx(fn, spec, **kw)
        finally:
            ui.postprocess_ir_model = real
        blob = m.SerializeToString()
        res["model_size"] = len(blob)
    except Exception as e:  # noqa
        if res["key"] is None:
            res["key"] = str(ident)
        res["error"] = f"{type(e).__name__}: {str(e)[:300]}"
        return res
    try:
        if snaps:
            st, pr = compare_snapshots(*snaps[-1])
            res["post"] = {"stats": st, "problems": pr[:20], "n_problems": len(pr), "calls": len(snaps)}
    except Exception as e:  # noqa
        res["post"] = {"error": repr(e)[:300]}
    try:
        import onnx2coq
        t = onnx2coq.model_term(m)
        res["term"] = t if len(t) < MAX_TERM_CHARS else None
    except Exception as e:  # noqa
        res["term_error"] = repr(e)[:200]
    del m
    try:
        if static_only:
            res["val"] = None
        elif len(blob) > MAX_RUNTIME_BYTES:
            res["val"] = {"skipped": f"model of {len(blob) >> 20} MiB not executed"}
        else:
            res["val"] = validate_model(blob, res["key"], tier, seed)
    except Exception as e:  # noqa
        res["val"] = {"error": traceback.format_exc()[-600:]}
    if keep_model:
        res["model"] = blob
    return res


def _count(_):
    import exports
    return len(exports.registry_items())


def _init_worker():
    os.environ.setdefault("JAX_PLATFORMS", "cpu")
    warnings.simplefilter("ignore")
    import logging
    logging.disable(logging.CRITICAL)
    try:        # warm up: plugin imports and the registry, so that the first job of a worker is not special
        import exports
        import jax2onnx.user_interface  # noqa: F401
        exports.registry_items()
    except Exception:  # noqa
        pass


def run_corpus(n_registry, seed, tier, overrides=None, procs=None, extras=True, own=True, indices=None, deadline_s=None,
               static_only=False):
    """exports + snapshots + run-time validation in SPAWNED workers; jobs that are not finished at the deadline are
    reported as such (never judged)"""
    from multiprocessing import get_context
    import exports
    overrides = overrides or {}
    procs = procs or min(10, os.cpu_count() or 4)
    deadline_s = deadline_s or CORPUS_DEADLINE_S.get(tier, 300)
    here = os.path.dirname(os.path.abspath(__file__))
    pp = os.environ.get("PYTHONPATH", "")
    if here not in pp.split(":"):
        os.environ["PYTHONPATH"] = here + (":" + pp if pp else "")
    pool = get_context("spawn").Pool(procs, initializer=_init_worker, maxtasksperchild=25)
    out = []
    try:
        total = pool.apply(_count, (0,))
        idx = indices if indices is not None else exports.select_indices(total, n_registry, seed)
        jobs = []
        if own:
            jobs += [("own", n, overrides, tier, seed) for n in own_names()]
        if extras:
            jobs += [("extra", n, overrides, tier, seed) for n in exports.extra_names()]
        jobs += [("reg", i, overrides, tier, seed) for i in idx]
        if static_only:
            jobs = [j + (False, True) for j in jobs]
        t0 = time.time()
        pending = [(j, pool.apply_async(_worker, (j,))) for j in jobs]
        hard = deadline_s * HARD_DEADLINE_FACTOR.get(tier, 2.0)
        # soft deadline: stop waiting once it has passed and 90% of the jobs are in; hard deadline: stop anyway
        while True:
            done = sum(1 for _j, a in pending if a.ready())
            el = time.time() - t0
            if done == len(pending) or el > hard or (el > deadline_s and done >= 0.9 * len(pending)):
                break
            time.sleep(0.5)
        for j, a in pending:
            if a.ready():
                try:
                    out.append(a.get(timeout=1))
                    continue
                except Exception as e:  # noqa  (a worker that died)
                    why = type(e).__name__
            else:
                why = "not finished at the deadline"
            out.append({"key": f"{j[0]}#{j[1]}", "error": None, "unfinished": why, "post": None, "val": None, "term": None, "model": None})
    finally:
        pool.terminate()
        pool.join()
    seen = {}
    for r in out:          # the registry has a few testcases whose generated double-precision twin takes an existing name
        k = r["key"]
        seen[k] = seen.get(k, 0) + 1
        if seen[k] > 1:
            r["key"] = f"{k}~{seen[k]}"
    return out


# ====================================================================== (a) ties: translated / hand models vs the running Python
COQ_DEFS = """From Coq Require Import ZArith String List Bool.
Import ListNotations.
Open Scope Z_scope.
Set Printing Width 1000000.
Set Printing Depth 1000000.
Fixpoint bad_idx_ {A} (f : A -> bool) (i : nat) (l : list A) : list nat :=
  match l with [] => [] | x :: r => if f x then bad_idx_ f (S i) r else i :: bad_idx_ f (S i) r end.
From J2O Require Import Onnx Annot.
From J2OGen Require Import GenShapes.
Definition dim_eqb_ (a b : dim) : bool :=
  match a, b with DInt x, DInt y => Z.eqb x y | DSym s, DSym t => String.eqb s t | DUnk, DUnk => true | _, _ => false end.
Fixpoint dims_eqb_ (a b : list dim) : bool :=
  match a, b with [], [] => true | x :: a', y :: b' => dim_eqb_ x y && dims_eqb_ a' b' | _, _ => false end.
Definition odims_eqb_ (a b : option (list dim)) : bool :=
  match a, b with Some x, Some y => dims_eqb_ x y | None, None => true | _, _ => false end.
Definition tbl_ (t : list (string * option (list dim))) : string -> option (list dim) :=
  fun v => match find (fun kv => String.eqb (fst kv) v) t with Some kv => snd kv | None => None end.
"""


def _cq(s):
    return '"' + str(s).replace('"', '""') + '"%string'


def enc_dim(d):
    """a dim as stored by ir.Shape -> Gallina"""
    if isinstance(d, (int, np.integer)):
        return f"DInt ({int(d)})"
    v = getattr(d, "value", d)
    if v is None:
        return "DUnk"
    return f"DSym {_cq(v)}"


def enc_dims(ds):
    return "[" + "; ".join(enc_dim(d) for d in ds) + "]"


def enc_odims(ds):
    return "None" if ds is None else f"(Some {enc_dims(ds)})"


def _shape_dims_of(shape):
    import onnx_ir as ir
    return None if shape is None else tuple(ir.Shape(list(shape)).dims)


PENDING = []          # deferred Coq evaluations: (name, typ, items, check, per_file, finish)


def defer_cases(name, typ, items, check, finish, per_file=450):
    PENDING.append((name, typ, items, check, per_file, finish))


def flush_cases(ctx):
    """run all deferred case files concurrently, then call every finish(ok, bad, log)"""
    from concurrent.futures import ThreadPoolExecutor
    todo = list(PENDING)
    del PENDING[:]
    with ThreadPoolExecutor(max_workers=4) as ex:
        futs = [ex.submit(eval_cases, ctx, n, t, it, ch, pf) for (n, t, it, ch, pf, _f) in todo]
        for (n, _t, _it, _ch, _pf, fin), fu in zip(todo, futs):
            try:
                ok, bad, log = fu.result()
            except Exception:  # noqa
                ok, bad, log = False, [], traceback.format_exc()[-800:]
            fin(ok, bad, log)


def eval_cases(ctx, name, typ, items, check, per_file=450):
    """items: Gallina texts of type `typ`; check: Gallina predicate `typ -> bool`.  Returns (ok, bad indices, log)"""
    def render(chunk, off):
        return (f"Definition cs_ : list ({typ}) := [\n" + ";\n".join(chunk) + "].\n"
                f"Eval vm_compute in bad_idx_ ({check}) 0 cs_.\n")
    res = common.coq_eval_batches(ctx, name, COQ_DEFS, items, render, per_file=per_file)
    bad, log, ok_all = [], "", True
    for k, (ok, out) in enumerate(res):
        idx = common.coq_bad_indices(out) if ok else None
        if idx is None:
            ok_all = False
            log += out[-800:]
        else:
            bad += [k * per_file + i for i in idx]
    return ok_all, bad, log


DIM_POOL = [1, 2, 3, "B", "C", None]


def _all_shapes(max_rank, pool=DIM_POOL):
    import itertools
    out = []
    for r in range(max_rank + 1):
        out += list(itertools.product(pool, repeat=r))
    return out


def tie_translated(ctx):
    import itertools
    import onnx_ir as ir
    from jax2onnx.converter import ir_optimizations as opt
    from jax2onnx.converter import ir_postprocess as post
    rng = ctx.rng
    n_rand = 400 if ctx.tier == "quick" else 3000
    # ---- _broadcast_shape_dims: all pairs of shapes up to rank 2, all triples of rank-1 shapes, random up to rank 3
    sh2 = _all_shapes(2)
    sh3 = _all_shapes(3)
    combos = [[a, b] for a in sh2 for b in sh2]
    combos += [[(a,), (b,), (c,)] for a, b, c in itertools.product(DIM_POOL, repeat=3)]
    combos += [[]] + [[s] for s in sh2]
    for _ in range(n_rand):
        combos.append([rng.choice(sh3) for _ in range(rng.choice([2, 2, 3, 4]))])
    items, py = [], []
    for shapes in combos:
        dims = [_shape_dims_of(s) for s in shapes]
        r = opt._broadcast_shape_dims(dims)
        py.append(r)
        items.append("(" + "[" + "; ".join(enc_dims(d) for d in dims) + "], " + enc_odims(r) + ")")
    defer_cases("c08_bsd", "list (list dim) * option (list dim)", items,
                "fun c => odims_eqb_ (broadcast_shape_dims (fst c)) (snd c)",
                lambda ok, bad, log: ctx.oblige(
                    f"tie:translated-_broadcast_shape_dims-equals-python({len(items)} cases)", ok and not bad, "tie",
                    log if not ok else ("" if not bad else f"differ on {[(combos[i], str(py[i])) for i in bad[:4]]}")), per_file=900)
    n_some = sum(1 for r in py if r is not None)
    distinct = len({(tuple(map(tuple, c)), str(r)) for c, r in zip(combos, py)})
    # ---- _dim_token equality, _dim_is_known, _normalize_dim on every dim kind (incl. the empty symbol)
    dpool = [_shape_dims_of((d,))[0] for d in [0, 1, 2, 3, 7, "B", "C", "", None]]
    it_tok = [f"({enc_dim(a)}, {enc_dim(b)}, {common.blit(opt._dim_token(a) == opt._dim_token(b))})" for a in dpool for b in dpool]
    defer_cases("c08_tok", "dim * dim * bool", it_tok,
                "fun c => let '(a, b, r) := c in Bool.eqb (tok_eqb (dim_token a) (dim_token b)) r",
                lambda ok, bad, log: ctx.oblige(f"tie:translated-_dim_token-equality-equals-python({len(it_tok)} dim pairs)", ok and not bad, "tie",
                                                log if not ok else f"bad {bad[:5]}"))
    it_known = [f"({enc_dim(a)}, {common.blit(post._dim_is_known(a))}, {enc_dim(_shape_dims_of((post._normalize_dim(a),))[0])})" for a in dpool]
    defer_cases("c08_known", "dim * bool * dim", it_known,
                "fun c => let '(a, k, n) := c in Bool.eqb (dim_is_known a) k && dim_eqb_ (normalize_dim a) n",
                lambda ok, bad, log: ctx.oblige(f"tie:translated-_dim_is_known/_normalize_dim-equal-python({len(it_known)} dim kinds)", ok and not bad, "tie",
                                                log if not ok else f"bad {bad[:5]}"))
    # ---- _unknown_shape_like on values carrying every shape up to rank 3, both modes, and a value without shape
    it_usl = []
    for s in [None] + sh3:
        for force in (False, True):
            v = ir.Value(name="v", type=ir.TensorType(ir.DataType.FLOAT), shape=None if s is None else ir.Shape(list(s)))
            r = post._unknown_shape_like(v, force_rank_only=force)
            it_usl.append(f"({enc_odims(_shape_dims_of(s))}, {common.blit(force)}, {enc_odims(None if r is None else tuple(r.dims))})")
    defer_cases("c08_usl", "option (list dim) * bool * option (list dim)", it_usl,
                "fun c => let '(d, f, r) := c in odims_eqb_ (unknown_shape_like d f) r",
                lambda ok, bad, log: ctx.oblige(f"tie:translated-_unknown_shape_like-equals-python({len(it_usl)} cases)", ok and not bad, "tie",
                                                log if not ok else f"bad {bad[:5]}"), per_file=600)
    ctx.coverage["tie_translated"] = {"broadcast_cases": len(items), "broadcast_defined": n_some, "broadcast_distinct": distinct,
                                      "token_pairs": len(it_tok), "dim_kinds": len(it_known), "unknown_shape_like_cases": len(it_usl)}
    return len(items) + len(it_tok) + len(it_known) + len(it_usl), distinct


# ---- refresh
VAL_SHAPES = [None, (), (1,), (3,), ("B",), (None,), (1, 1), (2, 3), ("B", 3), (1, "B"), (None, 3), (2, 1, 3)]
CONST_SHAPES = [(), (1,), (1, 1), (1, 1, 1), (2,), (1, 3), (2, 1)]


def _mk_operand(ir, kind, shape, idx):
    if kind == "val":
        return ir.Value(name=f"v{idx}", type=ir.TensorType(ir.DataType.FLOAT), shape=None if shape is None else ir.Shape(list(shape)))
    arr = np.arange(1, int(np.prod(shape, dtype=np.int64)) + 1, dtype=np.float32).reshape(shape)
    if kind == "constns":       # a constant WITHOUT a declared shape (its payload has shape `shape`)
        return ir.Value(name=f"c{idx}", type=ir.TensorType(ir.DataType.FLOAT), const_value=ir.tensor(arr))
    return ir.val(f"c{idx}", ir.DataType.FLOAT, tuple(shape), const_value=ir.tensor(arr))


def refresh_supports_rewired():
    import inspect
    from jax2onnx.converter import ir_optimizations as opt
    return "rewired" in inspect.signature(opt._refresh_elementwise_output_shape).parameters


def real_refresh(op, operands, out_shape, fold=False):
    """-> (out shape dims after the REAL _refresh_elementwise_output_shape, [is_scalar_const of each operand]).
    fold=True: called the way the fold sites call it (rewired=True where the tree has that mode)"""
    import onnx_ir as ir
    from jax2onnx.converter import ir_optimizations as opt
    vals = [_mk_operand(ir, k, s, i) for i, (k, s) in enumerate(operands)]
    out = ir.Value(name="out", type=ir.TensorType(ir.DataType.FLOAT), shape=None if out_shape is None else ir.Shape(list(out_shape)))
    node = ir.Node(op_type=op, domain="", inputs=vals, outputs=[out], name="n")
    ir.Graph(name="g", inputs=[v for v, (k, _s) in zip(vals, operands) if k == "val"], outputs=[out], nodes=[node],
             initializers=[v for v, (k, _s) in zip(vals, operands) if k in ("const", "constns")], opset_imports={"": 21})
    scal = [bool(opt._is_scalar_const_value(v)) for v in vals]
    if fold and refresh_supports_rewired():
        opt._refresh_elementwise_output_shape(node, rewired=True)
    else:
        opt._refresh_elementwise_output_shape(node)
    return (None if out.shape is None else tuple(out.shape.dims)), scal


def probe_refresh_variant():
    """which model of Annot.refresh_variant the tree implements: 1 = original (one-element constants skipped),
    2 = fbce23b (operands without a declared shape skipped), 3 = 560936b (give up on an operand without shape, after the
    source shape has been copied), 4 = nothing is written unless every operand has a shape and the shapes merge"""
    r, _ = real_refresh("Add", [("val", (3,)), ("const", (1, 1))], (1, 3))
    if r is not None and len(r) == 1:
        return 1
    r, _ = real_refresh("Min", [("val", None), ("const", ())], (1, 3))
    if r is not None and len(r) == 0:
        return 2
    r, _ = real_refresh("Add", [("val", (3,)), ("val", None)], (2, 3))
    if r is not None and len(r) == 1:
        return 3
    return 4


VARIANT_NAME = {1: "original", 2: "fbce23b", 3: "560936b", 4: "decide-first"}
UNKNOWN_RUNTIME_SHAPES = [(2, 3), (4, 1, 3), ()]       # run-time shapes tried for an operand without a declared shape


def enc_operand(kind, shape):
    if kind == "val":
        return f"(mkOp {enc_odims(_shape_dims_of(shape))} None false)"
    if kind == "constns":
        return f"(mkOp None (Some {int(np.prod(shape, dtype=np.int64))}%nat) true)"
    return f"(mkOp {enc_odims(_shape_dims_of(shape))} (Some {int(np.prod(shape, dtype=np.int64))}%nat) true)"


def tie_refresh(ctx, variant):
    rng = ctx.rng
    pool = [("val", s) for s in VAL_SHAPES] + [("const", s) for s in CONST_SHAPES]
    cases = []
    for a in pool:
        for b in pool:
            for out in (None, (7, 7)):
                cases.append(("Add", [a, b], out))
    for _ in range(300 if ctx.tier == "quick" else 1500):
        cases.append((rng.choice(["Max", "Min", "Clip"]), [rng.choice(pool) for _ in range(3)], rng.choice([None, (7,), (1, 7)])))
    for a in pool:
        cases.append(("Relu", [a], (5,)))
    items, exp, scal_bad = [], [], []
    n_false = 0
    n_sem = 0
    false_known, false_other, false_copied, false_unknown_skipped = [], [], [], []
    for op, operands, out in cases:
        r, scal = real_refresh(op, operands, out)
        exp.append(r)
        # the property on the REAL function, without any model: numpy's broadcast of the run-time operand shapes is the
        # truth; an operand without a declared shape may have any run-time shape (a few are tried).  Only what the
        # function WRITES is judged (r differs from the old annotation).
        concrete = all(s is None or all(isinstance(d, int) for d in s) for _k, s in operands)
        has_none = any(s is None for _k, s in operands)
        wrote = r is not None and (out is None or tuple(r) != tuple(out))
        if concrete and wrote and all(isinstance(d, int) for d in r) and (op != "Clip" or all(s is not None and len(s) == 0 for _k, s in operands[1:])):
            judged = False
            for rt in (UNKNOWN_RUNTIME_SHAPES if has_none else [None]):
                try:
                    truth = tuple(np.broadcast_shapes(*[tuple(rt if s is None else s) for _k, s in operands]))
                except ValueError:
                    continue
                judged = True
                if tuple(r) != truth:
                    n_false += 1
                    src = next((s for (k, s), sc in zip(operands, scal) if not sc), operands[0][1])
                    kept = [len(s) for (k, s), sc in zip(operands, scal) if not sc and s is not None]
                    skipped_higher = any(sc and len(s) > max(kept, default=-1) for (k, s), sc in zip(operands, scal))
                    rec = (op, operands, list(r), list(truth), rt)
                    if has_none and src is not None and tuple(r) == tuple(src):
                        false_copied.append(rec)
                    elif has_none:
                        false_unknown_skipped.append(rec)
                    elif skipped_higher:
                        false_known.append(rec)
                    else:
                        false_other.append(rec)
                    break
            n_sem += judged
        model_scal = [(k == "const" and int(np.prod(s, dtype=np.int64)) == 1) for k, s in operands]
        if scal != model_scal:
            scal_bad.append((op, operands, scal))
        items.append("([" + "; ".join(enc_operand(k, s) for k, s in operands) + "], " + enc_odims(_shape_dims_of(out)) + ", " + enc_odims(r) + ")")
    defer_cases("c08_refresh", "list operand * option (list dim) * option (list dim)", items,
                f"fun c => let '(ins, out, r) := c in odims_eqb_ (refresh_variant {int(variant)}%nat ins out) r",
                lambda ok, bad, log: ctx.oblige(
                    f"tie:model-refresh_variant({variant}:{VARIANT_NAME[variant]})-equals-_refresh_elementwise_output_shape({len(items)} nodes)",
                    ok and not bad and not scal_bad, "tie",
                    log if not ok else (f"differ on {[(cases[i], str(exp[i])) for i in bad[:4]]}; is_scalar_const differs on {scal_bad[:3]}"
                                        if (bad or scal_bad) else "")), per_file=700)
    def fmt(ops):
        return [(k, None if sh is None else list(sh)) for k, sh in ops]
    ctx.coverage["refresh_on_real_function"] = {
        "nodes_judged_against_numpy": n_sem, "false_annotations_written": n_false,
        "skipped_one_element_constant_of_higher_rank(variant 1)": len(false_known),
        "operand_without_shape_skipped(variant 2)": len(false_unknown_skipped),
        "source_shape_copied_despite_operand_without_shape(variant 3)": len(false_copied), "other": len(false_other)}
    if false_known:
        op, operands, r, truth, _rt = false_known[0]
        ctx.violate("refresh:scalar-const-of-higher-rank:node",
                    f"_refresh_elementwise_output_shape on {op}{fmt(operands)} writes {r}, numpy broadcast of the operand "
                    f"shapes is {truth} ({len(false_known)} of {n_sem} small nodes; every one has a skipped one-element "
                    f"constant whose rank exceeds all kept operands)", {"kind": "refresh_node", "op": op, "operands": fmt(operands)})
    if false_unknown_skipped:
        op, operands, r, truth, rt = false_unknown_skipped[0]
        ctx.violate("refresh:operand-without-shape-skipped:node",
                    f"_refresh_elementwise_output_shape on {op}{fmt(operands)} writes {r} from the other operands although an operand has no "
                    f"declared shape; with that operand {list(rt)} at run time the result is {truth} ({len(false_unknown_skipped)} of {n_sem} small nodes)",
                    {"kind": "refresh_node", "op": op, "operands": fmt(operands), "unknown_runtime": list(rt)})
    if false_copied:
        op, operands, r, truth, rt = false_copied[0]
        ctx.violate("refresh:source-shape-copied-despite-operand-without-shape:node",
                    f"_refresh_elementwise_output_shape on {op}{fmt(operands)} writes the source operand's shape {r} (copied by _copy_shape_dtype "
                    f"before the pass gives up on the operand without a declared shape); with that operand {list(rt)} at run time the result is "
                    f"{truth} ({len(false_copied)} of {n_sem} small nodes)",
                    {"kind": "refresh_node", "op": op, "operands": fmt(operands), "unknown_runtime": list(rt)})
    for op, operands, r, truth, _rt in false_other[:3]:
        ctx.violate(f"refresh:false-annotation:{op}:{fmt(operands)}",
                    f"_refresh_elementwise_output_shape writes {r}, numpy broadcast of the operand shapes is {truth}",
                    {"kind": "refresh_node", "op": op, "operands": fmt(operands)})
    return len(items)


def tie_loosen(ctx):
    import onnx_ir as ir
    from jax2onnx.converter import ir_postprocess as post
    rng = ctx.rng
    shapes = [None, (), (3,), ("B",), (None,), (2, 3), ("B", 3), (None, "C"), (2, 1, 3)]
    items = []
    n = 160 if ctx.tier == "quick" else 600
    changed = 0
    for k in range(n):
        force = bool(k % 2)
        def val(name):
            s = rng.choice(shapes)
            return ir.Value(name=name, type=ir.TensorType(ir.DataType.FLOAT), shape=None if s is None else ir.Shape(list(s)))
        x, a, b, c = val("x"), val("a"), val("b"), val("c")
        ws = rng.choice([(3,), (1, 3), ()])
        w = ir.val("w", ir.DataType.FLOAT, ws, const_value=ir.tensor(np.zeros(ws, np.float32)))
        nodes = [ir.Node(op_type="Relu", domain="", inputs=[x], outputs=[a], name="n0"),
                 ir.Node(op_type="Add", domain="", inputs=[a, w], outputs=[b], name="n1"),
                 ir.Node(op_type="Identity", domain="", inputs=[b], outputs=[c], name="n2")]
        outs = rng.choice([[c], [b, c], [a, c]])
        ins = rng.choice([[x], [x, w]])
        g = ir.Graph(name="g", inputs=ins, outputs=outs, nodes=nodes, initializers=[w], opset_imports={"": 21})
        allv = [x, a, b, c, w]
        before = {v.name: (None if v.shape is None else tuple(v.shape.dims)) for v in allv}
        post._loosen_graph_value_shapes(g, force_rank_only=force)
        after = {v.name: (None if v.shape is None else tuple(v.shape.dims)) for v in allv}
        changed += before != after
        io = [v.name for v in ins + outs]
        produced = ["a", "b", "c"] + (["w"] if force else [])
        enc_t = lambda t: "[" + "; ".join(f"({_cq(nm)}, {enc_odims(s)})" for nm, s in t.items()) + "]"  # noqa: E731
        items.append(f"([{'; '.join(_cq(i) for i in io)}], [{'; '.join(_cq(i) for i in produced)}], {common.blit(force)}, {enc_t(before)}, {enc_t(after)})")
    defer_cases("c08_loosen", "list string * list string * bool * list (string * option (list dim)) * list (string * option (list dim))",
                items, "fun c => let '(io, pr, f, t0, t1) := c in forallb (fun kv => odims_eqb_ (loosen io pr f (tbl_ t0) (fst kv)) (snd kv)) t1",
                lambda ok, bad, log: ctx.oblige(f"tie:model-loosen-equals-_loosen_graph_value_shapes({len(items)} graphs, {changed} changed)",
                                                ok and not bad and changed > 0, "tie", log if not ok else f"bad {bad[:5]}"), per_file=200)
    return len(items)


STALE = (9, 9)          # a deliberately wrong old annotation: at a fold site the old annotation describes another value


def tie_refresh_fold(ctx, variant):
    """the REAL function the way the fold sites call it, old annotation deliberately wrong:
    (i) tie with the model (Annot.refresh_rw where the tree has the rewired mode, else the variant in force);
    (ii) judged without a model: what is left on the output must be unknown or numpy's broadcast"""
    rng = ctx.rng
    rewired = refresh_supports_rewired()
    pool = [("val", s) for s in VAL_SHAPES] + [("const", s) for s in CONST_SHAPES] + [("constns", s) for s in [(), (1,), (1, 1), (2,), (1, 3)]]
    cases = [("Add", [a, b]) for a in pool for b in pool]
    for _ in range(150 if ctx.tier == "quick" else 800):
        cases.append((rng.choice(["Max", "Min", "Mul"]), [rng.choice(pool) for _ in range(3)]))
    items, stale, wrong = [], [], []
    n_judged = 0
    for op, operands in cases:
        r, _scal = real_refresh(op, operands, STALE, fold=True)
        items.append("([" + "; ".join(enc_operand(k, s) for k, s in operands) + "], " + enc_odims(_shape_dims_of(STALE)) + ", " + enc_odims(r) + ")")
        if r is None or not all(isinstance(d, int) for d in r):
            continue
        if not all(s is None or all(isinstance(d, int) for d in s) for _k, s in operands):
            continue
        for rt in (UNKNOWN_RUNTIME_SHAPES if any(k == "val" and s is None for k, s in operands) else [None]):
            try:
                truth = tuple(np.broadcast_shapes(*[tuple(rt if s is None else s) for _k, s in operands]))
            except ValueError:
                continue
            n_judged += 1
            if tuple(r) != truth:
                (stale if tuple(r) == STALE else wrong).append((op, operands, list(r), list(truth)))
                break
    model = "refresh_rw" if rewired else f"refresh_variant {int(variant)}%nat"
    defer_cases("c08_refresh_fold", "list operand * option (list dim) * option (list dim)", items,
                f"fun c => let '(ins, out, r) := c in odims_eqb_ ({model} ins out) r",
                lambda ok, bad, log: ctx.oblige(
                    f"tie:model-{'refresh_rw' if rewired else 'refresh_variant(' + str(variant) + ')'}-equals-_refresh_elementwise_output_shape-at-fold-sites({len(items)} nodes)",
                    ok and not bad, "tie", log if not ok else ("" if not bad else f"differ on {[cases[i] for i in bad[:4]]}")), per_file=700)
    # CastLike in both modes
    cl = []
    for a in pool:
        for b in pool[:6]:
            for fold in (False, True):
                r, _ = real_refresh("CastLike", [a, b], STALE, fold=fold)
                cl.append(f"({common.blit(fold and rewired)}, [{enc_operand(*a)}; {enc_operand(*b)}], {enc_odims(_shape_dims_of(STALE))}, {enc_odims(r)})")
    defer_cases("c08_castlike", "bool * list operand * option (list dim) * option (list dim)", cl,
                "fun c => let '(rw, ins, out, r) := c in odims_eqb_ (castlike_refresh rw ins out) r",
                lambda ok, bad, log: ctx.oblige(f"tie:model-castlike_refresh-equals-real-CastLike-branch({len(cl)} nodes)", ok and not bad, "tie",
                                                log if not ok else f"bad {bad[:5]}"), per_file=700)

    def fmt(ops):
        return [(k, None if sh is None else list(sh)) for k, sh in ops]
    ctx.coverage["refresh_at_fold_sites"] = {"rewired_mode_present": rewired, "nodes": len(items), "judged_against_numpy": n_judged,
                                             "stale_annotation_kept": len(stale), "other_false": len(wrong)}
    if stale:
        op, operands, r, truth = stale[0]
        ctx.violate("refresh:stale-annotation-kept-at-fold:node",
                    f"_refresh_elementwise_output_shape called as the fold sites call it on {op}{fmt(operands)} with the (stale) old annotation {r} "
                    f"keeps it; numpy broadcast of the new operands is {truth} ({len(stale)} of {n_judged} small nodes)",
                    {"kind": "fold_node", "op": op, "operands": fmt(operands)})
    for op, operands, r, truth in wrong[:3]:
        ctx.violate(f"refresh:false-annotation-at-fold:{op}:{fmt(operands)}", f"writes {r}, numpy broadcast is {truth}",
                    {"kind": "fold_node", "op": op, "operands": fmt(operands)})
    return len(items) + len(cl)


def fold_graphs():
    """hand-built VALID graphs in which a reshape / transpose pair folds around an elementwise node with a side constant;
    name -> (ir.Model factory).  `noshape`: the side constant has no declared shape (its new shape is then not computable)"""
    import onnx_ir as ir
    F, I = ir.DataType.FLOAT, ir.DataType.INT64

    def side(noshape, payload=()):
        arr = np.full(payload, 0.5, np.float32)
        if noshape:
            return ir.Value(name="c", type=ir.TensorType(F), const_value=ir.tensor(arr))
        return ir.val("c", F, tuple(payload), const_value=ir.tensor(arr))

    def reshape_pair(op, noshape):
        x = ir.val("x", F, (6,))
        s1 = ir.val("s1", I, (2,), const_value=ir.tensor(np.asarray([2, 3], np.int64)))
        s2 = ir.val("s2", I, (1,), const_value=ir.tensor(np.asarray([6], np.int64)))
        c = side(noshape)
        a, b, y, z = ir.val("a", F, (2, 3)), ir.val("b", F, (2, 3)), ir.val("y", F, (6,)), ir.val("z", F, (6,))
        nodes = [ir.Node("", "Reshape", [x, s1], outputs=[a], name="r1"), ir.Node("", op, [a, c], outputs=[b], name="e"),
                 ir.Node("", "Reshape", [b, s2], outputs=[y], name="r2"), ir.Node("", "Relu", [y], outputs=[z], name="u")]
        return ir.Model(ir.Graph([x], [z], nodes=nodes, initializers=[s1, s2, c], name="g", opset_imports={"": 21}), ir_version=10)

    def transpose_pair(op, noshape):
        x = ir.val("x", F, (2, 3))
        c = side(noshape)
        a, b, y, z = ir.val("a", F, (3, 2)), ir.val("b", F, (3, 2)), ir.val("y", F, (2, 3)), ir.val("z", F, (2, 3))
        perm = lambda: [ir.Attr("perm", ir.AttributeType.INTS, [1, 0])]  # noqa: E731
        nodes = [ir.Node("", "Transpose", [x], outputs=[a], attributes=perm(), name="t1"), ir.Node("", op, [a, c], outputs=[b], name="e"),
                 ir.Node("", "Transpose", [b], outputs=[y], attributes=perm(), name="t2"), ir.Node("", "Relu", [y], outputs=[z], name="u")]
        return ir.Model(ir.Graph([x], [z], nodes=nodes, initializers=[c], name="g", opset_imports={"": 21}), ir_version=10)
    out = {}
    for op in ("Max", "Add", "Mul"):
        for noshape in (True, False):
            tag = "noshape" if noshape else "declared"
            out[f"reshape-pair:{op}:side-const-{tag}"] = (lambda op=op, ns=noshape: reshape_pair(op, ns))
            out[f"transpose-pair:{op}:side-const-{tag}"] = (lambda op=op, ns=noshape: transpose_pair(op, ns))
    return out


def check_fold_graphs(ctx, only=None):
    """after the REAL optimize_graph every remaining annotation of these graphs must agree with onnxruntime and must
    pass onnx's strict shape inference"""
    import onnx
    import onnx_ir as ir
    from jax2onnx.converter import ir_optimizations as opt
    n_graphs = n_folded = n_values = 0
    hits = []
    for name, mk in fold_graphs().items():
        if only and name != only:
            continue
        m = mk()
        n0 = len(list(m.graph))
        opt.optimize_graph(m)
        n_graphs += 1
        n_folded += len(list(m.graph)) < n0
        p = ir.to_proto(m)
        res = validate_model(p.SerializeToString(), "fold:" + name, "quick", ctx.seed if hasattr(ctx, "seed") else 0)
        n_values += res["stats"]["values"]
        why = None
        if res["contradictions"]:
            c = res["contradictions"][0]
            why = f"value {c[2]} (output of {c[1]}): {c[3]}"
        else:
            try:
                onnx.shape_inference.infer_shapes(p, strict_mode=True)
            except Exception as e:  # noqa
                why = "onnx strict shape inference rejects: " + str(e).strip().split("\n")[-1][:200]
        if res["stats"]["runs"] == 0 or res["stats"]["runs_failed"]:
            ctx.oblige(f"fold-graph:{name}:executed", False, "tie", str(res["notes"])[:300])
        if why:
            hits.append(name)
            ctx.violate(f"fold:stale-annotation:{name}",
                        f"after optimize_graph ({n0} -> {len(list(m.graph))} nodes) {why}", {"kind": "fold_graph", "graph": name})
    if hasattr(ctx, "coverage"):
        ctx.coverage["fold_graphs"] = {"graphs": n_graphs, "folded": n_folded, "annotated_values_observed": n_values, "stale": hits}
    ctx.oblige("fold-graphs:folds-exercised", only is not None or n_folded > 0, "tie", f"{n_folded} of {n_graphs} graphs folded")
    return n_graphs


def check_unary_propagation(ctx):
    """the REAL propagate_unary_shapes_ir on one small node per operator of the real UNARY_DATAFLOW_OPS (and per way of
    giving it a second, differently shaped operand), judged against onnx's own strict shape inference"""
    import onnx
    import onnx_ir as ir
    from onnx import TensorProto, helper, shape_inference
    from jax2onnx.converter import ir_optimizations as opt
    n_nodes = 0
    skipped = []
    for op in sorted(opt.UNARY_DATAFLOW_OPS):
        try:
            schema = onnx.defs.get_schema(op)
        except Exception:  # noqa
            skipped.append(op)
            continue
        combos = [[(3, 1)]] if schema.max_input == 1 else [[(3, 1)], [(3, 1), (3, 4)], [(3, 4), (3, 1)], [(), (3, 4)]]
        for shapes in combos:
            if len(shapes) < schema.min_input:
                continue
            names = [f"i{k}" for k in range(len(shapes))]
            node = helper.make_node(op, names, ["y"], **({"to": TensorProto.FLOAT} if op == "Cast" else {}))
            g = helper.make_graph([node], "g", [helper.make_tensor_value_info(n, TensorProto.FLOAT, list(sh)) for n, sh in zip(names, shapes)],
                                  [helper.make_empty_tensor_value_info("y")])
            m = helper.make_model(g, opset_imports=[helper.make_opsetid("", min(23, onnx.defs.onnx_opset_version()))])
            try:
                inf = shape_inference.infer_shapes(m, strict_mode=True)
                tt = inf.graph.output[0].type.tensor_type
                if not tt.HasField("shape") or not all(d.HasField("dim_value") for d in tt.shape.dim):
                    continue
                truth = tuple(int(d.dim_value) for d in tt.shape.dim)
            except Exception:  # noqa  (not a valid use of the operator)
                continue
            vals = [ir.val(n, ir.DataType.FLOAT, tuple(sh)) for n, sh in zip(names, shapes)]
            y = ir.val("y", ir.DataType.FLOAT, truth)
            irg = ir.Graph(name="g", inputs=vals, outputs=[y], nodes=[ir.Node(op_type=op, domain="", inputs=vals, outputs=[y], name="n")],
                           opset_imports={"": 21})
            opt.propagate_unary_shapes_ir(irg)
            n_nodes += 1
            got = None if y.shape is None else tuple(y.shape.dims)
            if got is not None and all(isinstance(d, int) for d in got) and tuple(got) != truth:
                ctx.violate(f"propagate-unary:{op}:node",
                            f"propagate_unary_shapes_ir re-annotates the output of {op}({', '.join(str(list(sh)) for sh in shapes)}) from {list(truth)} "
                            f"(onnx strict shape inference) to {list(got)}: {op} is in UNARY_DATAFLOW_OPS but its result does not have the shape of its first input",
                            {"kind": "unary_node", "op": op, "shapes": [list(sh) for sh in shapes]})
                break
    ctx.coverage["unary_propagation_on_real_function"] = {"operators": len(opt.UNARY_DATAFLOW_OPS), "nodes_judged_against_onnx_inference": n_nodes,
                                                          "operators_without_schema": skipped}
    ctx.oblige("unary-propagation:nodes-judged", n_nodes >= len(opt.UNARY_DATAFLOW_OPS) - len(skipped), "tie", f"{n_nodes} nodes")


# ====================================================================== Coq checker on the converted exports
def coq_annot_consistent(ctx, terms):
    """terms: [(key, Gallina omodel term)] -> {key: (consistent, offenders, rule_applies, derived)}"""
    header = ("From Coq Require Import ZArith String List Bool.\nFrom J2O Require Import Onnx Annot.\nImport ListNotations.\n"
              "Set Printing Width 1000000.\nSet Printing Depth 1000000.\n")

    def render(chunk, off):
        out = []
        for i, (_k, t) in enumerate(chunk):
            out.append(f"Definition m{off + i} : omodel := {t}.\n"
                       f"Eval vm_compute in (annot_consistent m{off + i}, annot_inconsistent_at m{off + i}, rule_applies m{off + i}, derived_count m{off + i}).\n"
                       f"Eval vm_compute in (layout_contradictions m{off + i}, layout_rule_applies m{off + i}).\n")
        return "".join(out)
    res = common.coq_eval_batches(ctx, "c08_models", header, terms, render, per_file=PER_FILE_MODELS)
    out = {}
    ok_all = True
    pos = 0
    for ok, txt in res:
        chunk = terms[pos:pos + PER_FILE_MODELS]
        pos += PER_FILE_MODELS
        flat = txt.replace("\n", " ")
        blocks = re.findall(r"=\s*\((true|false),\s*(\[.*?\]|nil),\s*(\d+)(?:%nat)?,\s*(\d+)(?:%nat)?\)\s*:", flat)
        lblocks = re.findall(r"=\s*\((\[[^\]]*\]|nil),\s*(\d+)(?:%nat)?\)\s*:\s*list", flat)
        if not ok or len(blocks) != len(chunk) or len(lblocks) != len(chunk):
            ok_all = False
            ctx.coq_models_log = txt[-1500:]
            continue
        pair = r'\("([^"]*)"(?:%string)?,\s*"([^"]*)"(?:%string)?\)'
        for (k, _t), (c, off, ra, dc), (lc, la) in zip(chunk, blocks, lblocks):
            out[k] = (c == "true", re.findall(pair, off), int(ra), int(dc), re.findall(pair, lc), int(la))
    return ok_all, out


# ====================================================================== run / replay
def run(ctx):
    ctx.level = "translation_validation"
    ctx.trusted_base = [
        "Coq 8.16.1 kernel; vm_compute (no native_compute); no axioms",
        "tools/units/c08_units.py: generic control-flow translation + per-function expression table (fails closed on any source "
        "change) and the PRELUDE text of gen/GenShapes.v (meaning of isinstance / int() / str() / loops on the dims an ir.Shape "
        "stores); validated on this run against the running Python on every dim-kind combination up to rank 2 (pairs), rank-1 "
        "triples and random rank<=3 tuples",
        "hand models Annot.refresh_variant / Annot.loosen / Annot.is_scalar_const tied differentially to the real functions on small onnx_ir graphs",
        "tools/onnx2coq.py (ModelProto -> Onnx.omodel) for the checker run on real exports",
        "onnxruntime 1.30 CPU (graph optimisations disabled) as the run-time reference; onnx protobuf reader",
        "ONNX operator shape rules as transcribed in Annot.rule_on (elementwise unary, multidirectional broadcast, Transpose, "
        "Reshape with constant positive target) - cross-checked by the run-time validation of the same exports",
    ]
    timing = {}
    t_ = time.time()
    common.build_props(ctx, "C08", GEN_UNITS)
    timing["build_props_s"] = round(time.time() - t_, 1)
    t_ = time.time()
    evals = 0
    try:
        n1, distinct = tie_translated(ctx)
        evals += n1
    except Exception:  # noqa
        ctx.oblige("tie:translated-vs-python", False, "tie", traceback.format_exc()[-1500:])
        distinct = 0
    variant = 1
    try:
        variant = probe_refresh_variant()
        evals += tie_refresh(ctx, variant)
    except Exception:  # noqa
        ctx.oblige("tie:refresh-model", False, "tie", traceback.format_exc()[-1500:])
    try:
        evals += tie_loosen(ctx)
    except Exception:  # noqa
        ctx.oblige("tie:loosen-model", False, "tie", traceback.format_exc()[-1500:])
    try:
        evals += tie_refresh_fold(ctx, variant)
        evals += check_fold_graphs(ctx)
    except Exception:  # noqa
        ctx.oblige("tie:refresh-at-fold-sites", False, "tie", traceback.format_exc()[-1500:])
    try:
        check_unary_propagation(ctx)
    except Exception:  # noqa
        ctx.oblige("unary-propagation", False, "tie", traceback.format_exc()[-1500:])
    try:
        flush_cases(ctx)
    except Exception:  # noqa
        ctx.oblige("tie:coq-evaluation", False, "tie", traceback.format_exc()[-1500:])
    timing["ties_s"] = round(time.time() - t_, 1)
    ctx.coverage["timing"] = timing
    ctx.coverage["refresh_model_in_force"] = (
        f"variant {variant} ({VARIANT_NAME[variant]}): " +
        {1: "one-element constants of any rank are skipped (C08_refresh_sound_refuted / _partial)",
         2: "operands without a declared shape are skipped (C08_refresh_variant2_refuted / C08_refresh_fixed_sound)",
         3: "gives up on an operand without a declared shape after copying the source shape (C08_refresh_variant3_refuted / _sound_partial)",
         4: "writes only when every operand has a shape and the shapes merge (C08_refresh_variant4_sound, full strength)"}[variant])

    # ---- the refuted theorem of the variant in force on the REAL code: its witness through the real optimizer
    if variant in (1, 2, 3):
        try:
            w = refresh_witness_real(variant)
            if w is not None:
                ctx.violate(w[0], w[1], {"kind": "refresh_witness", "variant": variant})
        except Exception:  # noqa
            ctx.assumptions.append("refresh witness through optimize_graph could not be replayed: " + traceback.format_exc()[-300:])

    # ---- (b) + (c) on real exports
    n_reg = 60 if ctx.tier == "quick" else 400
    t0 = time.time()
    results = run_corpus(n_reg, ctx.seed, ctx.tier)
    t_corpus = time.time() - t0
    report_corpus(ctx, results, "default")
    # (the registry carries a double-precision twin of every testcase, exported with enable_double_precision=True by
    #  exports.export_tp, so no separate override run is needed)
    ctx.coverage["corpus_wall_s"] = round(t_corpus, 1)
    # ---- proved checker inside Coq on the converted exports
    models = [(r["key"], r["term"]) for r in results if r.get("term")]
    t0 = time.time()
    ok, verdicts = coq_annot_consistent(ctx, models)
    ctx.oblige(f"coq:annot_consistent-evaluated-on-exports({len(verdicts)}/{len(models)})", ok and len(verdicts) == len(models), "tie",
               getattr(ctx, "coq_models_log", ""))
    n_rules = sum(v[2] for v in verdicts.values())
    n_derived = sum(v[3] for v in verdicts.values())
    for key, v_ in sorted(verdicts.items()):
        for op, name in v_[4][:3]:
            ctx.violate(f"annot:{op}:static-layout:{key}",
                        f"layout_contradictions: the declared dims of {name} (output of {op}) contradict what the operator gives from the declared "
                        f"dims of its input (Transpose: out[i] = in[perm[i]]; same-shape operators: out = in) - different rank, different integers, "
                        f"or an integer/another symbol against a graph-input symbol", {"kind": "export", "case": key, "value": name})
    for key, (c, offenders, _ra, _dc, _lc, _la) in sorted(verdicts.items()):
        if not c:
            for op, name in offenders[:3] or [("?", "?")]:
                ctx.violate(f"annot:{op}:static-rule:{key}",
                            f"annot_consistent = false: the declared static shape of {name} (output of {op}) is not what the operator's shape "
                            f"rule gives for the declared static operand shapes", {"kind": "export", "case": key, "value": name})
    ctx.coverage["coq_checker"] = {"models": len(verdicts), "consistent": sum(1 for v in verdicts.values() if v[0]),
                                   "nodes_where_a_rule_applied": n_rules, "nodes_where_the_layout_rule_applied(any dims)": sum(v[5] for v in verdicts.values()), "annotations_entailed_from_graph_inputs(derive)": n_derived,
                                   "wall_s": round(time.time() - t0, 1)}
    ctx.coverage["evaluations"] = evals + ctx.coverage.get("runtime_values_checked", 0)
    ctx.coverage["distinct_nontrivial"] = distinct + ctx.coverage.get("distinct_producer_ops", 0)
    ctx.coverage["rule"] = ("ties: every pair of shapes up to rank 2 over dims {1,2,3,B,C,unknown}, rank-1 triples, seeded random rank<=3 tuples; "
                            "refresh: all operand pairs of a 19-operand pool + random triples; exports: deterministic spread of the registry + "
                            "hand-written programs; non-trivial = distinct (operand shapes, result) of the broadcast helper + distinct producer "
                            "operators whose annotated outputs were observed at run time")
    ctx.assumptions += [
        "run-time validation covers the top-level graph, function bodies (run stand-alone under their own declared input annotations; "
        "call-site argument annotations compared statically with the formal annotations) and Loop bodies at depth 1 (through extra scan "
        "outputs; ints/rank/dtype only). If/Scan bodies and deeper nesting are not observed at run time.",
        "symbolic dims: a dim_param is a claim that all occurrences in one graph take the same extent in one run and, for symbols of the "
        "graph inputs, the bound extent; runs that onnxruntime rejects for a binding (e.g. a constraint among symbols) are counted, not judged",
        "dims of an onnx_ir.Shape are int | SymbolicDim(str) | SymbolicDim(None) (ir.Shape normalises None/str/np.integer) - the universe of the translation",
        "dtype side of _copy_shape_dtype / _maybe_promote_value_to_double is validated at run time only (dtype of every annotated value), not modelled",
    ]
    return ctx


def refresh_witness_real(variant=1):
    """the witness of the refuted theorem of `variant` through the real optimize_graph + onnxruntime; -> (key, what) | None"""
    import onnx
    import onnx_ir as ir
    import onnxruntime as ort
    from jax2onnx.converter import ir_optimizations as opt
    F = ir.DataType.FLOAT
    if variant == 1:       # Add(x:[3], c:[1,1] const) -> y declared [1,3]
        x = ir.val("x", F, (3,))
        c = ir.val("c", F, (1, 1), const_value=ir.tensor(np.ones((1, 1), np.float32)))
        y = ir.val("y", F, (1, 3))
        ins, inits, nodes, feed, true = [x], [c], [ir.Node(op_type="Add", domain="", inputs=[x, c], outputs=[y], name="a")], {"x": (3,)}, [1, 3]
        key = "refresh:scalar-const-of-higher-rank:optimize_graph"
    elif variant == 2:     # Min(s without shape, scalar const) -> y declared [1,3]
        s_ = ir.Value(name="s", type=ir.TensorType(F), shape=None)
        c = ir.val("c", F, (), const_value=ir.tensor(np.asarray(2.0, np.float32)))
        y = ir.val("y", F, (1, 3))
        ins, inits, nodes, feed, true = [s_], [c], [ir.Node(op_type="Min", domain="", inputs=[s_, c], outputs=[y], name="a")], {"s": (1, 3)}, [1, 3]
        key = "refresh:operand-without-shape-skipped:optimize_graph"
    else:                  # Add(x:[3], t without shape) -> y declared [2,3]
        x = ir.val("x", F, (3,))
        t = ir.Value(name="t", type=ir.TensorType(F), shape=None)
        y = ir.val("y", F, (2, 3))
        ins, inits, nodes, feed, true = [x, t], [], [ir.Node(op_type="Add", domain="", inputs=[x, t], outputs=[y], name="a")], {"x": (3,), "t": (2, 3)}, [2, 3]
        key = "refresh:source-shape-copied-despite-operand-without-shape:optimize_graph"
    g = ir.Graph(name="g", inputs=ins, outputs=[y], nodes=nodes, initializers=inits, opset_imports={"": 21})
    m = ir.Model(g, ir_version=10)
    opt.optimize_graph(m)
    p = ir.to_proto(m)
    tt = p.graph.output[0].type.tensor_type
    decl = [d.dim_value for d in tt.shape.dim] if tt.HasField("shape") else None
    if decl is None or decl == true:
        return None
    chk = "onnxruntime only warns"
    if variant == 1:
        try:
            onnx.checker.check_model(p, full_check=True)
            chk = "accepted by onnx.checker"
        except Exception as e:  # noqa
            chk = "onnx.checker(full_check) rejects: " + str(e).strip().split("\n")[-1][:160]
    q = onnx.ModelProto()
    q.CopyFrom(p)
    for o in q.graph.output:
        o.ClearField("type")
    del q.graph.value_info[:]
    try:
        so = ort.SessionOptions()
        so.log_severity_level = 4
        rt = list(ort.InferenceSession(q.SerializeToString(), so, providers=["CPUExecutionProvider"]).run(
            None, {k: np.zeros(v, np.float32) for k, v in feed.items()})[0].shape)
    except Exception as e:  # noqa
        rt = "onnxruntime failed: " + str(e)[:100]
    node = nodes[0]
    return key, (f"optimize_graph re-annotates the graph output of {node.op_type}({', '.join(v.name + ':' + (str(list(v.shape.dims)) if v.shape is not None else 'no shape') for v in node.inputs)}) "
                 f"from {true} to {decl}; onnxruntime produces {rt} for inputs {feed}; {chk}")


def report_corpus(ctx, results, label):
    tot = new_stats()
    errs = [r for r in results if r.get("error")]
    post_tot = {}
    seen_keys = set()
    n_val = 0
    failed_runs = []
    unfinished = [r["key"] for r in results if r.get("unfinished")]
    not_run = []
    for r in results:
        key = r["key"]
        p = r.get("post")
        if p:
            if p.get("error"):
                ctx.oblige(f"postprocess-snapshot:{key}", False, "tie", p["error"])
            else:
                for k, x in p["stats"].items():
                    if isinstance(x, dict):
                        d = post_tot.setdefault(k, {})
                        for kk, xx in x.items():
                            d[kk] = d.get(kk, 0) + xx
                    else:
                        post_tot[k] = post_tot.get(k, 0) + x
                for pr in p["problems"][:3]:
                    kind, path, name, b, a = pr
                    ctx.violate(f"postprocess:{kind}:{key}", f"postprocess_ir_model changed the annotation of {name} in graph {path} from {b} to {a} ({kind})",
                                {"kind": "export", "case": key, "value": name})
        v = r.get("val")
        if not v:
            continue
        if "error" in v:
            ctx.oblige(f"runtime-validation:{key}", False, "tie", v["error"])
            continue
        if "skipped" in v:
            not_run.append(f"{key}: {v['skipped']}")
            continue
        n_val += 1
        for k, x in v["stats"].items():
            if k == "ops":
                for o, c in x.items():
                    tot["ops"][o] = tot["ops"].get(o, 0) + c
            else:
                tot[k] = tot.get(k, 0) + x
        failed_runs += [n for n in v["notes"] if "failed" in n][:2]
        grouped = {}
        for c in v["contradictions"]:
            kind, op, name, what, _decl, _obs, binding, target = c
            grouped.setdefault((op, kind), []).append((name, what, binding, target))
        for (op, kind), lst in grouped.items():
            vk = f"annot:{op}:{kind}:{key}"
            if vk in seen_keys:
                continue
            seen_keys.add(vk)
            name, what, binding, target = lst[0]
            ctx.violate(vk, f"{target}: value {name} (output of {op}): {what}" + (f" [binding {binding}]" if binding else "") +
                        (f" (+{len(lst) - 1} more observations)" if len(lst) > 1 else ""),
                        {"kind": "export", "case": key, "value": name, "binding": binding, "target": target, "overrides": label})
        for c in v.get("callsite_mismatches", [])[:3]:
            why, fname, where, formal, a, actual, b = c
            ctx.violate(f"annot:{fname}:callsite-{why}:{key}",
                        f"call of function {fname} in {where}: formal {formal} is declared {a} inside the function but the argument/result {actual} is declared {b}",
                        {"kind": "export", "case": key, "value": actual})
    ops = tot.pop("ops")
    cov = ctx.coverage
    cov[f"exports_{label}"] = {"cases": len(results), "export_errors": len(errs), "validated": n_val,
                               "unfinished_at_deadline": len(unfinished), "unfinished_samples": unfinished[:5], "not_executed": not_run[:5], **tot,
                               "producer_ops_seen": len(ops), "top_ops": sorted(ops.items(), key=lambda kv: -kv[1])[:25],
                               "failed_run_samples": failed_runs[:5]}
    cov[f"postprocess_{label}"] = post_tot
    cov["runtime_values_checked"] = cov.get("runtime_values_checked", 0) + tot["values"]
    cov["distinct_producer_ops"] = max(cov.get("distinct_producer_ops", 0), len(ops))
    ctx.oblige(f"exports-{label}:some-values-validated", tot["values"] > 0 and n_val > 0, "tie", f"{n_val} models, {tot['values']} values")
    ctx.oblige(f"postprocess-{label}:snapshots-taken", post_tot.get("values", 0) > 0, "tie", str(post_tot)[:300])
    if label == "default":
        ctx.samples = [{"case": r["key"], "values": r["val"]["stats"]["values"], "runs": r["val"]["stats"]["runs"],
                        "dims_checked": r["val"]["stats"]["dim_checked"], "symbols_checked": r["val"]["stats"]["sym_checked"]}
                       for r in results if r.get("val") and "stats" in r["val"]][:12]


def replay(path):
    r = json.load(open(path))
    rep = r.get("replay") or {}
    if rep.get("kind") == "refresh_witness":
        w = refresh_witness_real(int(rep.get("variant", 1)))
        print(w or "the witness is annotated correctly now")
        return 1 if w else 0
    if rep.get("kind") in ("fold_node", "fold_graph"):
        class _C2:
            seed = 0

            def __init__(self):
                self.violations, self.coverage = [], {}

            def violate(self, k, w, r):
                self.violations.append((k, w))

            def oblige(self, *a, **k):
                pass
        c2 = _C2()
        if rep["kind"] == "fold_graph":
            check_fold_graphs(c2, only=rep["graph"])
        else:
            operands = [(k, None if sh is None else tuple(sh)) for k, sh in rep["operands"]]
            rr, _ = real_refresh(rep["op"], operands, STALE, fold=True)
            print("left on the output:", rr)
            if rr is not None and tuple(rr) == STALE:
                c2.violations.append(("stale", rr))
        print(c2.violations or "annotated correctly now")
        return 1 if c2.violations else 0
    if rep.get("kind") == "unary_node":
        class _C:
            def __init__(self):
                self.violations, self.coverage = [], {}

            def violate(self, k, w, r):
                self.violations.append((k, w))

            def oblige(self, *a, **k):
                pass
        c = _C()
        check_unary_propagation(c)
        hit = [v for v in c.violations if v[0] == f"propagate-unary:{rep['op']}:node"]
        print(hit or "annotated correctly now")
        return 1 if hit else 0
    if rep.get("kind") == "refresh_node":
        operands = [(k, None if sh is None else tuple(sh)) for k, sh in rep["operands"]]
        rr, _ = real_refresh(rep["op"], operands, None)
        truth = tuple(np.broadcast_shapes(*[tuple(rep.get("unknown_runtime", ())) if sh is None else sh for _k, sh in operands]))
        print("refresh writes", rr, "numpy broadcast", truth)
        return 1 if tuple(rr or ()) != truth else 0
    if rep.get("kind") == "export":
        case = rep["case"]
        import exports
        if case.startswith("reg:"):
            idx = next(i for i, tp in enumerate(exports.registry_items()) if exports.tp_key(tp) == case)
            job = ("reg", idx, {}, "thorough", 0)
        elif case.startswith("x:"):
            job = ("extra", case, {}, "thorough", 0)
        else:
            job = ("own", case, {}, "thorough", 0)
        res = _worker(job)
        print("export error:", res["error"])
        bad = 0
        if res.get("val") and "contradictions" in res["val"]:
            for c in res["val"]["contradictions"]:
                print("CONTRADICTION", c[0], c[1], c[2], c[3], c[6], c[7])
                bad += 1
            for c in res["val"]["callsite_mismatches"]:
                print("CALLSITE", c)
                bad += 1
        if res.get("post") and res["post"].get("n_problems"):
            print("POSTPROCESS", res["post"]["problems"])
            bad += 1
        return 1 if bad else 0
    print("nothing to replay")
    return 0
