"""C16 — failure is loud: never a silently different or partial model.
Proof: coq/props/C16.v (dispatcher with error monad for arbitrary plugins; nested bodies; failure policy).
Ties: T = failure-policy decision translated each run; D = dispatcher model vs the real
lower_jaxpr_with_plugins driven by scripted stub plugins.  Real-code sweeps: every optimizer pass forced to
raise (default + strict policy), faults injected inside passes at every graph-surgery call, and
unsupported constructs at top level / in loop bodies / cond branches / jit bodies / function bodies."""
import json
import os
import re
from types import SimpleNamespace

import numpy as np

import common
from common import blit


# ------------------------------------------------------------------ tie D: dispatcher
class _PluginError(Exception):
    pass


def _gen_case(rng):
    """random jaxpr over vars 0..; registry maps primitive name -> script list (one script per equation, by index)"""
    n_vars = 0
    bound = [0, 1]              # vars 0,1 are jaxpr inputs, bound to connected values 0,1
    next_name = [2]
    eqns = []
    for k in range(rng.randint(1, 4)):
        prim = rng.choice(["p", "q", "r", "missing"] if rng.random() < 0.15 else ["p", "q", "r"])
        ins = []
        for _ in range(rng.randint(0, 3)):
            x = rng.random()
            if x < 0.75 and bound:
                ins.append(("v", rng.choice(bound)))
            elif x < 0.9:
                ins.append(("lit",))
            else:
                ins.append(("v", 900 + rng.randint(0, 3)))        # never-bound var
        outs = []
        for _ in range(rng.randint(0, 3)):
            if rng.random() < 0.2:
                outs.append(None)
            else:
                n_vars += 1
                outs.append(10 + n_vars * 2 + k * 50)
        # script for this equation
        actions = []
        non_drop = [o for o in outs if o is not None]
        style = rng.random()
        ret = ("none",)
        if style < 0.35:            # plugin binds everything itself via a node
            names = [next_name[0] + i for i in range(len(non_drop))]
            next_name[0] += len(non_drop)
            actions.append(("node", names))
            for v, nm in zip(non_drop, names):
                if rng.random() < 0.9:
                    actions.append(("bind", v, nm))
        elif style < 0.75:          # plugin returns values
            names = [next_name[0] + i for i in range(len(non_drop))]
            next_name[0] += len(non_drop)
            if rng.random() < 0.85:
                actions.append(("node", names))
            k_ret = len(names) if rng.random() < 0.8 else max(0, len(names) + rng.choice([-1, 1]))
            extra = [next_name[0] + i for i in range(max(0, k_ret - len(names)))]
            next_name[0] += len(extra)
            ret = ("vals", (names + extra)[:k_ret])
        elif style < 0.85:          # binds some, returns the rest
            names = [next_name[0] + i for i in range(len(non_drop))]
            next_name[0] += len(non_drop)
            actions.append(("node", names))
            split = rng.randint(0, len(non_drop))
            for v, nm in list(zip(non_drop, names))[:split]:
                actions.append(("bind", v, nm))
            ret = ("vals", names[split:])
        elif style < 0.92:
            ret = ("bad",)
        elif style < 0.97:
            ret = ("raise",)
        else:                       # binds to a value nobody produces
            for v in non_drop:
                actions.append(("bind", v, next_name[0]))
                next_name[0] += 1
        eqns.append({"prim": prim, "ins": ins, "outs": outs, "actions": actions, "ret": ret})
        bound += non_drop
    return eqns


def _run_real(eqns):
    import onnx_ir as ir
    from jax2onnx.converter.lowering_dispatch import lower_jaxpr_with_plugins
    vals = {}

    def val(n):
        if n not in vals:
            vals[n] = ir.Value(name=f"v{n}", type=ir.TensorType(ir.DataType.FLOAT), shape=ir.Shape(()))
        return vals[n]
    class Var:           # noqa: E306
        def __init__(self, i):
            self.i = i
    class Lit:           # noqa: E306
        pass
    vars_ = {}

    def var(i):
        return vars_.setdefault(i, Var(i))
    builder = SimpleNamespace(inputs=[val(0), val(1)], initializers=[], nodes=[], _var2val={var(0): val(0), var(1): val(1)})

    def bind_value_for_var(v, value):
        builder._var2val[v] = value

    def require_value_for_var(v):
        if isinstance(v, Lit):
            return val(-1)
        if v not in builder._var2val:
            raise KeyError(v)
        return builder._var2val[v]
    ctx = SimpleNamespace(builder=builder, bind_value_for_var=bind_value_for_var, require_value_for_var=require_value_for_var)
    py_eqns = []
    scripts = {}
    for e in eqns:
        pe = SimpleNamespace(primitive=SimpleNamespace(name=e["prim"]),
                             invars=[var(i[1]) if i[0] == "v" else Lit() for i in e["ins"]],
                             outvars=[(var(o) if o is not None else _drop()) for o in e["outs"]], params={})
        scripts[id(pe)] = e
        py_eqns.append(pe)

    class Plugin:
        def lower(self, ctx, eqn):
            e = scripts[id(eqn)]
            for a in e["actions"]:
                if a[0] == "node":
                    builder.nodes.append(SimpleNamespace(outputs=[val(n) for n in a[1]]))
                else:
                    ctx.bind_value_for_var(var(a[1]), val(a[2]))
            r = e["ret"]
            if r[0] == "raise":
                raise _PluginError()
            if r[0] == "none":
                return None
            if r[0] == "bad":
                return "not a value"
            return [val(n) for n in r[1]]
    from jax2onnx.converter import lowering_dispatch as ld
    reg = {p: Plugin() for p in ("p", "q", "r")}
    # the real dispatcher dispatches on isinstance(plugin, PrimitiveLowering) (a runtime protocol with .lower)
    try:
        lower_jaxpr_with_plugins(ctx=ctx, jaxpr=SimpleNamespace(eqns=py_eqns), registry=reg, source="verif")
    except NotImplementedError:
        return "ENotImplemented", None
    except _PluginError:
        return "EPlugin", None
    except TypeError:
        return "EBadResult", None
    except RuntimeError as ex:
        m = str(ex)
        if "unbound input" in m:
            return "EUnboundInput", None
        if "remain unbound" in m:
            return "EArity", None
        if "did not bind output" in m:
            return "EUnboundOutput", None
        if "disconnected value" in m:
            return "EDisconnected", None
        return "ERuntime?" + m[:60], None
    final = sorted((v.i, int(x.name[1:])) for v, x in builder._var2val.items())
    return "Ok", final


def _drop():
    class DropVar:          # recognised by output_binding.is_drop_var via the type name
        pass
    return DropVar()


def _coq_case(eqns):
    def nl(l):
        return "[" + "; ".join(str(x) for x in l) + "]"
    es, scripts = [], []
    for e in eqns:
        ins = nl([f"IVar {i[1]}" if i[0] == "v" else "ILit" for i in e["ins"]])
        outs = nl(["None" if o is None else f"Some {o}" for o in e["outs"]])
        es.append(f'mkEqn "{e["prim"]}"%string {ins} {outs}')
        acts = nl([f"ANode {nl(a[1])}" if a[0] == "node" else f"ABind {a[1]} {a[2]}" for a in e["actions"]])
        r = e["ret"]
        ret = {"none": "SRet RNone", "bad": "SRet RBad", "raise": "SRaise"}.get(r[0]) or f"SRet (RVals {nl(r[1])})"
        scripts.append(f"({acts}, {ret})")
    return nl(es), nl(scripts)


COQ_SCRIPT = """From J2O Require Import Lowering.
Close Scope Z_scope.
Inductive action := ANode (names : list vname) | ABind (v : var) (n : vname).
Inductive sret := SRet (r : lres) | SRaise.
Definition run_actions (c : ctx) (l : list action) : ctx :=
  fold_left (fun c a => match a with ANode ns => mkCtx (c_bind c) (ns ++ c_conn c) | ABind v n => bind c v n end) l c.
(* the scripted plugin of the i-th equation: the harness runs the same script through the real dispatcher *)
Definition script_plugin (s : list action * sret) : plugin :=
  fun c _ => match snd s with SRaise => Err EPlugin | SRet r => Ok (run_actions c (fst s), r) end.
Fixpoint lower_scripted (c : ctx) (jp : list eqn) (ss : list (list action * sret)) : result ctx :=
  match jp, ss with
  | e :: r, s :: sr =>
      let reg := fun p => if (String.eqb p "p" || String.eqb p "q" || String.eqb p "r")%bool then Some (script_plugin s) else None in
      match lower_eqn reg c e with Ok c1 => lower_scripted c1 r sr | Err x => Err x end
  | _, _ => Ok c
  end.
Definition err_tag (x : err) : nat := match x with ENotImplemented _ => 1 | EUnboundInput => 2 | EBadResult => 3 | EArity => 4
  | EUnboundOutput => 5 | EDisconnected => 6 | EPlugin => 7 end.
Definition pair_eqb (a b : nat * nat) := Nat.eqb (fst a) (fst b) && Nat.eqb (snd a) (snd b).
Fixpoint dedup (l : list (var * vname)) (seen : list var) : list (var * vname) :=
  match l with [] => [] | (v, n) :: r => if existsb (Nat.eqb v) seen then dedup r seen else (v, n) :: dedup r (v :: seen) end.
Fixpoint insert_sorted (p : nat * nat) (l : list (nat * nat)) :=
  match l with [] => [p] | q :: r => if Nat.leb (fst p) (fst q) then p :: l else q :: insert_sorted p r end.
Definition final_bindings (c : ctx) := fold_right insert_sorted [] (dedup (c_bind c) []).
Definition chk (c : list eqn * list (list action * sret) * nat * list (nat * nat)) : bool :=
  let '(jp, ss, tag, fin) := c in
  match lower_scripted (mkCtx [(1, 1); (0, 0)] [0; 1]) jp ss with
  | Ok cf => Nat.eqb tag 0 && list_eqb pair_eqb (final_bindings cf) fin
  | Err x => Nat.eqb tag (err_tag x)
  end.
"""
TAGS = {"Ok": 0, "ENotImplemented": 1, "EUnboundInput": 2, "EBadResult": 3, "EArity": 4, "EUnboundOutput": 5, "EDisconnected": 6, "EPlugin": 7}


def tie_dispatcher(ctx, n):
    rows, hist = [], {}
    for _ in range(n):
        eqns = _gen_case(ctx.rng)
        tag, fin = _run_real(eqns)
        hist[tag] = hist.get(tag, 0) + 1
        if tag not in TAGS:
            ctx.oblige("tie:dispatcher-model", False, "tie", f"unclassified real outcome {tag}")
            return
        es, ss = _coq_case(eqns)
        fins = "[" + "; ".join(f"({a}, {b})" for a, b in (fin or [])) + "]"
        rows.append((f"({es}, {ss}, {TAGS[tag]}, {fins})", eqns, tag))
    txt = common.CASES_HEADER + COQ_SCRIPT + "Definition cs := [\n" + ";\n".join(r[0] for r in rows) + "].\nEval vm_compute in bad_idx_ chk 0 cs.\n"
    ok, out = common.coq_eval_file(ctx, "c16_dispatch", txt)
    bad = common.coq_bad_indices(out) if ok else None
    ctx.oblige(f"tie:Lowering.v dispatcher == lower_jaxpr_with_plugins on {n} scripted jaxprs", bad == [], "tie",
               out[-1200:] if bad is None else f"differs on {[(rows[i][1], rows[i][2]) for i in bad[:2]]}")
    ctx.coverage["dispatcher_outcomes"] = hist


# ------------------------------------------------------------------ policy tie
def tie_policy(ctx):
    from jax2onnx.converter import conversion_api as capi
    env = capi._STRICT_OPTIMIZER_FAILURES_ENV
    vals = [None, "", "0", "1", "true", "TRUE", " False ", "no", "No ", "off", "OFF\t", "yes", "on", "2", " ", "\n0\n", "fAlSe", "nope", "0.0", "f"]
    saved = os.environ.get(env)
    rows = []
    try:
        for v in vals:
            if v is None:
                os.environ.pop(env, None)
            else:
                os.environ[env] = v
            for arg in (None, True, False):
                rows.append((arg, v, bool(capi._resolve_strict_optimizer_failures(arg))))
    finally:
        if saved is None:
            os.environ.pop(env, None)
        else:
            os.environ[env] = saved

    def cs(s):
        return "None" if s is None else '(Some "' + s.replace("\t", "\\t") + '"%string)'
    # Coq strings cannot hold escapes: build tab/newline through ascii codes
    def cstr(s):
        if s is None:
            return "None"
        parts = "EmptyString"
        for ch in reversed(s):
            parts = f"(String (Ascii.ascii_of_nat {ord(ch)}) {parts})"
        return f"(Some {parts})"
    txt = common.CASES_HEADER + "From J2OGen Require Import GenPolicy.\nClose Scope Z_scope.\n"
    txt += "Definition cs : list (option bool * option string * bool) := [\n" + ";\n".join(
        f"({'None' if a is None else 'Some ' + blit(a)}, {cstr(v)}, {blit(r)})" for a, v, r in rows) + "].\n"
    txt += "Eval vm_compute in bad_idx_ (fun c => let '(a, v, r) := c in match resolve_strict a v with Some b => Bool.eqb b r | None => false end) 0 cs.\n"
    ok, out = common.coq_eval_file(ctx, "c16_policy", txt)
    bad = common.coq_bad_indices(out) if ok else None
    ctx.oblige(f"tie:translated failure policy == _resolve_strict_optimizer_failures ({len(rows)} (arg, env) pairs)", bad == [], "tie",
               out[-800:] if bad is None else f"differs on {[rows[i] for i in bad[:4]]}")
    # which policy shape the current code has (decided by the AST shape check of the regen unit): the strong theorem
    # C16_default_policy_returns_input is about the restoring shape
    try:
        gen = open(os.path.join(common.COQ, "gen", "GenPolicy.v")).read()
    except OSError:
        gen = ""
    restores = "Definition failure_policy_restores_input : bool := true." in gen
    ctx.oblige("tie:current-code-restores-the-un-optimised-model-on-a-non-fatal-optimizer-failure(failure_policy_restores_input = true)", restores, "tie",
               "" if restores else "the policy keeps the partially optimised model: an exception raised inside a pass leaves an inconsistent graph")
    # and it really does: a pass that mutates the graph and then raises must leave the model exactly as it was
    import onnx_ir as ir
    from jax2onnx.converter import ir_optimizations as opt
    x = ir.val("x", ir.DataType.FLOAT, (2,))
    y = ir.val("y", ir.DataType.FLOAT, (2,))
    z = ir.val("z", ir.DataType.FLOAT, (2,))
    g = ir.Graph([x], [z], nodes=[ir.Node("", "Relu", [x], outputs=[y], name="a"), ir.Node("", "Neg", [y], outputs=[z], name="b")],
                 name="g", opset_imports={"": 23})
    model = ir.Model(g, ir_version=10)
    before = [(n.op_type, [v.name for v in n.inputs], [v.name for v in n.outputs]) for n in model.graph]

    def vandal(graph):
        nodes = list(graph)
        ir.convenience.replace_all_uses_with(nodes[0].outputs[0], nodes[0].inputs[0], replace_graph_outputs=True)
        graph.remove(nodes[0])
        raise RuntimeError("injected after mutation")
    saved = opt._OPTIMIZER_PASSES
    try:
        opt._OPTIMIZER_PASSES = (opt._OptimizerPass(name="vandal", model_runner=None, graph_runner=vandal, function_graph_runner=None),)
        capi._optimize_graph_with_failure_policy(model, strict_optimizer_failures=False)
        after = [(n.op_type, [v.name for v in n.inputs], [v.name for v in n.outputs]) for n in model.graph]
        same = after == before and [o.name for o in model.graph.outputs] == ["z"]
    except Exception as e:  # noqa
        same, after = False, f"raised {type(e).__name__}: {e}"
    finally:
        opt._OPTIMIZER_PASSES = saved
    if not same:
        ctx.violate("policy-restore vandal-pass", f"after a pass that mutated the graph and raised, the default policy returned {after} instead of the input {before}",
                    {"kind": "policy_restore", "before": before, "after": str(after)})
    # the same for FUNCTION bodies: a function-scoped pass that mutates an @onnx_function body and raises
    fn_same = None
    try:
        from jax2onnx import to_onnx
        import extra_programs as xp
        irm = to_onnx(xp.outer_fn, [(2, 3)], return_mode="ir")
        if len(irm.functions):
            ref_bytes = ir.to_proto(irm).SerializeToString(deterministic=True)

            def fn_vandal(graph):
                nodes = list(graph)
                victim = next((n for n in nodes if len(n.inputs) >= 1 and n.inputs[0] is not None and len(n.outputs) == 1), None)
                if victim is not None:
                    ir.convenience.replace_all_uses_with(victim.outputs[0], victim.inputs[0], replace_graph_outputs=True)
                    graph.remove(victim)
                raise RuntimeError("injected after mutating a function body")
            try:
                opt._OPTIMIZER_PASSES = (opt._OptimizerPass(name="fn_vandal", model_runner=None, graph_runner=None, function_graph_runner=fn_vandal),)
                capi._optimize_graph_with_failure_policy(irm, strict_optimizer_failures=False)
                fn_same = ir.to_proto(irm).SerializeToString(deterministic=True) == ref_bytes
            except Exception as e:  # noqa
                fn_same = False
            finally:
                opt._OPTIMIZER_PASSES = saved
            if not fn_same:
                ctx.violate("policy-restore vandal-pass function-body",
                            "after a function-scoped pass that mutated an @onnx_function body and raised, the default policy returned a model whose serialisation "
                            "differs from the input (function bodies were not restored)", {"kind": "policy_restore_fn", "program": "x:nested_onnx_functions"})
    except Exception as e:  # noqa
        ctx.coverage["policy_restore_fn_error"] = f"{type(e).__name__}: {str(e)[:120]}"
    ctx.coverage["policy_restores_input"] = {"flag": restores, "vandal_pass_left_model_intact": bool(same), "function_body_vandal_left_model_intact": fn_same}


# ------------------------------------------------------------------ real-code sweeps
def _programs():
    import jax
    import jax.numpy as jnp
    from flax import nnx
    conv = nnx.Conv(3, 3, kernel_size=(3, 3), padding="SAME", rngs=nnx.Rngs(0))
    bn = nnx.BatchNorm(3, use_running_average=True, rngs=nnx.Rngs(0))
    return {
        "conv_bn_residual_nchw": (lambda x: jax.nn.relu(bn(conv(x))) + x, [(1, 6, 6, 3)], dict(inputs_as_nchw=[0], outputs_as_nchw=[0])),
        "reshape_relu_reshape": (lambda x: jax.nn.relu(x.reshape(-1)).reshape(x.shape) * 2.0, [(2, 3, 4)], {}),
        "casts_and_mean": (lambda x: jnp.mean(x.astype(jnp.float32), axis=1, keepdims=True) + x, [(2, 5)], {}),
        "silu_mlp": (lambda x: jax.nn.silu(x @ jnp.ones((4, 4), jnp.float32)) + 1.0, [(3, 4)], {}),
    }


def _ort(model, xs):
    import onnxruntime as ort
    so = ort.SessionOptions()
    so.log_severity_level = 4
    s = ort.InferenceSession(model.SerializeToString(), so, providers=["CPUExecutionProvider"])
    return s.run(None, {i.name: x for i, x in zip(s.get_inputs(), xs)})


def sweep_pass_failures(ctx):
    """every pass index forced to raise at its boundary, default and strict policy"""
    from jax2onnx import to_onnx
    from jax2onnx.converter import ir_optimizations as opt
    rng = np.random.default_rng(ctx.seed)
    saved = opt._OPTIMIZER_PASSES
    n = 0

    class Boom(RuntimeError):
        pass
    try:
        progs = _programs()
        if ctx.tier == "quick":
            progs = {k: progs[k] for k in ("conv_bn_residual_nchw", "reshape_relu_reshape")}
        for name, (fn, shapes, kw) in progs.items():
            m0 = to_onnx(fn, shapes, **kw)
            xs = [rng.standard_normal([d.dim_value for d in i.type.tensor_type.shape.dim]).astype(np.float32) for i in m0.graph.input]
            ref = _ort(m0, xs)
            for k in range(len(saved)):
                def boom(*a, **k_):
                    raise Boom("injected")
                bad = opt._OptimizerPass(name=saved[k].name, model_runner=boom if saved[k].model_runner else None,
                                         graph_runner=boom if saved[k].graph_runner else None,
                                         function_graph_runner=saved[k].function_graph_runner)
                opt._OPTIMIZER_PASSES = saved[:k] + (bad,) + saved[k + 1:]
                key = f"pass-abort {name}@{k}:{saved[k].name}"
                n += 1
                try:
                    m = to_onnx(fn, shapes, **kw)
                    got = _ort(m, xs)
                    if len(got) != len(ref) or any(g.shape != r.shape or not np.allclose(g, r, rtol=1e-4, atol=1e-5) for g, r in zip(got, ref)):
                        ctx.violate(key + ":default", "default policy returned a model that differs from the fully optimised export",
                                    {"program": name, "pass": k, "policy": "default"})
                except Boom:
                    ctx.violate(key + ":default", "default policy re-raised the optimizer failure", {"program": name, "pass": k, "policy": "default"})
                except Exception as e:  # noqa
                    ctx.violate(key + ":default", f"partially optimised model is not loadable/runnable: {type(e).__name__}: {str(e)[:150]}",
                                {"program": name, "pass": k, "policy": "default"})
                os.environ["JAX2ONNX_STRICT_OPTIMIZER_FAILURES"] = "1"
                try:
                    to_onnx(fn, shapes, **kw)
                    ctx.violate(key + ":strict", "strict policy swallowed the optimizer failure", {"program": name, "pass": k, "policy": "strict"})
                except Boom:
                    pass
                finally:
                    os.environ.pop("JAX2ONNX_STRICT_OPTIMIZER_FAILURES", None)
        # ---- the FUNCTION-BODY phase of optimize_graph: every function-scoped pass forced to raise while it runs on
        #      an @onnx_function body (top-level runners untouched): strict must re-raise, default must return the same model
        import extra_programs as xp
        fprogs = {"fn:nested_onnx_functions": (xp.outer_fn, [(2, 3)], {}), "fn:two_function_instances": (lambda x: xp.b2(xp.b1(x)), [(2, 4)], {})}
        if ctx.tier == "quick":
            fprogs = {"fn:nested_onnx_functions": fprogs["fn:nested_onnx_functions"]}
        for name, (fn, shapes, kw) in fprogs.items():
            m0 = to_onnx(fn, shapes, **kw)
            if not len(m0.functions):
                ctx.oblige(f"sweep:function-phase program {name} has function bodies", False, "tie", "export has no functions")
                continue
            xs = [rng.standard_normal([d.dim_value for d in i.type.tensor_type.shape.dim]).astype(np.float32) for i in m0.graph.input]
            ref = _ort(m0, xs)
            for k in range(len(saved)):
                if saved[k].function_graph_runner is None:
                    continue

                def boom(*a, **k_):
                    raise Boom("injected")
                bad = opt._OptimizerPass(name=saved[k].name, model_runner=saved[k].model_runner, graph_runner=saved[k].graph_runner,
                                         function_graph_runner=boom)
                opt._OPTIMIZER_PASSES = saved[:k] + (bad,) + saved[k + 1:]
                key = f"pass-abort {name}@fn{k}:{saved[k].name}"
                n += 1
                try:
                    m = to_onnx(fn, shapes, **kw)
                    got = _ort(m, xs)
                    if len(got) != len(ref) or any(g.shape != r.shape or not np.allclose(g, r, rtol=1e-4, atol=1e-5) for g, r in zip(got, ref)):
                        ctx.violate(key + ":default", "default policy returned a model that differs from the fully optimised export (failure in a function body)",
                                    {"program": name, "pass": k, "policy": "default", "phase": "function"})
                except Boom:
                    ctx.violate(key + ":default", "default policy re-raised the optimizer failure (function body)", {"program": name, "pass": k, "policy": "default", "phase": "function"})
                except Exception as e:  # noqa
                    ctx.violate(key + ":default", f"partially optimised model is not loadable/runnable: {type(e).__name__}: {str(e)[:150]}",
                                {"program": name, "pass": k, "policy": "default", "phase": "function"})
                os.environ["JAX2ONNX_STRICT_OPTIMIZER_FAILURES"] = "1"
                try:
                    to_onnx(fn, shapes, **kw)
                    ctx.violate(key + ":strict", "strict policy swallowed an optimizer failure raised while a pass ran on a function body",
                                {"program": name, "pass": k, "policy": "strict", "phase": "function"})
                except Boom:
                    pass
                finally:
                    os.environ.pop("JAX2ONNX_STRICT_OPTIMIZER_FAILURES", None)
    finally:
        opt._OPTIMIZER_PASSES = saved
    return n


def sweep_midpass_faults(ctx, limit):
    """a fault at the n-th graph-surgery call inside the optimizer (replace_all_uses_with / Graph.remove /
    Node.replace_input_with), default policy: the returned model must still be valid and equivalent"""
    import onnx
    import onnx_ir as ir
    import graphs
    import optcheck
    from jax2onnx.converter import conversion_api as capi
    from jax2onnx.converter import ir_optimizations as opt
    keys = ["T/nchw/Relu/none/outs=y", "T/inv/Max:scalar/none/outs=y", "R/static_back/Relu/outs=y", "C/FLOAT->DOUBLE/plain",
            "M/transpose_reducemean/keep=1/axes=[1]", "M/add_forest/second=T/sum_observed=False", "M/dropout_not_true/ratio=0.0",
            "T/nchw/Tanh+Relu/t1_second_consumer/outs=y,z", "M/mul_sigmoid/opset24/x_sig/sig_out=False"]
    wanted = {k: m for k, m in graphs.all_graphs() if k in keys}
    targets = [(ir.convenience, "replace_all_uses_with"), (ir.Graph, "remove"), (ir.Node, "replace_input_with")]
    n = 0
    rng = np.random.default_rng(ctx.seed)

    class Boom(RuntimeError):
        pass
    for key, model in wanted.items():
        model = onnx.shape_inference.infer_shapes(model, strict_mode=True)
        feeds = optcheck.feeds_for(model, rng, optcheck.BINDINGS[0])
        ref = optcheck.ort_session(model.SerializeToString()).run(None, feeds)
        # count calls in a clean run
        counter = {"n": 0, "fail_at": None, "pass": None, "failed_in": None}
        originals = [(o, a, getattr(o, a)) for o, a in targets]
        orig_run_pass = opt._run_top_level_optimizer_pass

        def run_pass(opt_pass, mdl):
            counter["pass"] = opt_pass.name
            return orig_run_pass(opt_pass, mdl)

        def wrap(f):
            def w(*a, **k):
                counter["n"] += 1
                if counter["fail_at"] is not None and counter["n"] == counter["fail_at"]:
                    counter["failed_in"] = counter["pass"]
                    raise Boom("injected mid-pass")
                return f(*a, **k)
            return w
        bad_by_pass = {}
        try:
            opt._run_top_level_optimizer_pass = run_pass
            for o, a, f in originals:
                setattr(o, a, wrap(f))
            counter["n"] = 0
            capi._optimize_graph_with_failure_policy(ir.from_proto(model), strict_optimizer_failures=False)
            total = counter["n"]
            for fail_at in range(1, min(total, limit) + 1):
                counter["n"], counter["fail_at"], counter["failed_in"] = 0, fail_at, None
                irm = ir.from_proto(model)
                capi._optimize_graph_with_failure_policy(irm, strict_optimizer_failures=False)
                counter["fail_at"] = None
                n += 1
                try:
                    after = ir.to_proto(irm)
                    onnx.checker.check_model(after)
                    s1 = optcheck.ort_session(after.SerializeToString())
                    got = s1.run(None, {k: v for k, v in feeds.items() if k in {i.name for i in s1.get_inputs()}})
                    okv = len(got) == len(ref) and all(optcheck.same(g, r, False) for g, r in zip(got, ref))
                    why = None if okv else "computes something else"
                except Exception as e:  # noqa
                    why = f"is invalid ({str(e)[:100]})"
                if why:
                    bad_by_pass.setdefault(counter["failed_in"], []).append((fail_at, why))
        finally:
            opt._run_top_level_optimizer_pass = orig_run_pass
            for o, a, f in originals:
                setattr(o, a, f)
        for pname, lst in bad_by_pass.items():
            ctx.violate(f"midpass-fault {key} in {pname}",
                        f"an exception raised inside pass {pname} (injected at graph-surgery call(s) {[c for c, _ in lst]}) is swallowed by the default "
                        f"policy and the returned model {lst[0][1]}", {"graph": key, "pass": pname, "fail_at_calls": [c for c, _ in lst]})
    return n


def sweep_unsupported(ctx):
    """unsupported constructs must raise at export, wherever they sit"""
    import jax
    import jax.numpy as jnp
    from jax import lax
    from jax.extend import core as jcore
    from jax2onnx import to_onnx, onnx_function
    prim = jcore.Primitive("verif_unregistered")
    prim.def_impl(lambda x: x)
    prim.def_abstract_eval(lambda x: x)
    u = lambda x: prim.bind(x)      # noqa: E731
    global _c16_fn_unsup

    @onnx_function
    def _c16_fn_unsup(x):
        return u(x) + 1.0
    globals()["_c16_fn_unsup"] = _c16_fn_unsup
    cases = {
        "unregistered:top": (lambda x: u(x) * 2.0, [(3,)]),
        "unregistered:fori_body": (lambda x: lax.fori_loop(0, 3, lambda i, c: u(c) + 1.0, x), [(3,)]),
        "unregistered:while_body": (lambda x: lax.while_loop(lambda s: s[0] < 3, lambda s: (s[0] + 1, u(s[1])), (jnp.int32(0), x))[1], [(3,)]),
        "unregistered:while_cond": (lambda x: lax.while_loop(lambda s: jnp.sum(u(s)) < 10.0, lambda s: s + 1.0, x), [(3,)]),
        "unregistered:scan_body": (lambda xs: lax.scan(lambda c, x: (c + u(x), c), jnp.zeros((3,)), xs), [(4, 3)]),
        "unregistered:cond_branch": (lambda x: lax.cond(jnp.sum(x) > 0, lambda a: u(a), lambda a: a * 2.0, x), [(3,)]),
        "unregistered:jit_body": (lambda x: jax.jit(lambda a: u(a) + 1.0)(x), [(3,)]),
        "unregistered:function_body": (lambda x: _c16_fn_unsup(x), [(3,)]),
        "unregistered:nested_loop_in_cond": (lambda x: lax.cond(jnp.sum(x) > 0, lambda a: lax.fori_loop(0, 2, lambda i, c: u(c), a), lambda a: a, x), [(3,)]),
        "switch3": (lambda i, x: lax.switch(i, [lambda a: a + 1.0, lambda a: a * 2.0, lambda a: a - 3.0], x), [jax.ShapeDtypeStruct((), jnp.int32), (3,)]),
        "reverse_scan": (lambda xs: lax.scan(lambda c, x: (c + x, c * x), jnp.zeros((3,)), xs, reverse=True), [(4, 3)]),
        "traced_fori_bounds": (lambda n, x: lax.fori_loop(0, n, lambda i, c: c * 1.5, x), [jax.ShapeDtypeStruct((), jnp.int32), (3,)]),
    }
    n = 0
    for name, (fn, spec) in cases.items():
        n += 1
        try:
            m = to_onnx(fn, list(spec))
        except Exception:  # noqa  (any exception is a loud failure)
            continue
        # exported: it must then be CORRECT (a supported variant), compare with eager JAX
        try:
            rng = np.random.default_rng(0)
            xs = []
            for s in spec:
                if isinstance(s, tuple):
                    xs.append(rng.standard_normal(s).astype(np.float32))
                else:
                    xs.append(np.asarray(2, dtype=np.int32))
            got = _ort(m, xs)
            want = jax.tree_util.tree_leaves(fn(*xs))
            same = len(got) == len(want) and all(np.allclose(g, np.asarray(w), rtol=1e-4, atol=1e-5) for g, w in zip(got, want))
        except Exception as e:  # noqa
            same = False
        if name.startswith("unregistered") or not same:
            ctx.violate(f"silent-export {name}", "an unsupported construct was exported instead of raising" +
                        ("" if same else " and the model differs from JAX"), {"case": name})
    return n


def run(ctx):
    ctx.trusted_base = [
        "Coq 8.16.1 kernel; all C16 theorems closed under the global context",
        "Lowering.v: hand model of lowering_dispatch/output_binding, tied by differential run with scripted stub plugins (error class and final bindings compared inside Coq)",
        "tools/units/c16_units.py + py2coq: failure-policy decision translated; shape of _optimize_graph_with_failure_policy checked on the AST",
        "pass soundness itself is property C02; plugins are assumed to propagate exceptions of nested lowerings (checked on real control-flow/jit/function bodies by the sweep)",
    ]
    common.build_props(ctx, "C16", ["GenPolicy"])
    tie_policy(ctx)
    tie_dispatcher(ctx, 400 if ctx.tier == "quick" else 3000)
    n1 = sweep_pass_failures(ctx)
    n2 = sweep_midpass_faults(ctx, 200)
    n3 = sweep_unsupported(ctx)
    import c16_matrix
    n4 = c16_matrix.sweep_guard_matrix(ctx, ctx.tier)     # "raise or be right" over the parameter neighbourhood of the plugins' rejection guards
    ctx.coverage.update({"evaluations": n1 * 2 + n2 + n3 + int(n4 or 0) + sum(ctx.coverage.get("dispatcher_outcomes", {}).values()),
                         "distinct_nontrivial": n1 + n2 + n3 + int(n4 or 0),
                         "rule": "crash points: every optimizer pass index forced to raise x 4 programs x {default,strict}; a fault injected at each of the first N graph-surgery calls "
                                 "inside the optimizer on 9 pattern graphs; 12 unsupported constructs at top level / loop body / loop cond / scan body / cond branch / jit body / function body",
                         "pass_abort_cases": n1, "midpass_fault_cases": n2, "unsupported_cases": n3})
    ctx.samples = ["pass-abort conv_bn_residual_nchw@4:remove_redundant_transpose_pairs", "midpass-fault T/nchw/Relu/none/outs=y@call1",
                   "unregistered:scan_body", "switch3"]
    return ctx


def replay(path):
    import json
    r = json.load(open(path)).get("replay", {})
    if r.get("kind") == "guard_matrix":
        import c16_matrix
        return c16_matrix.replay_case(r["case"])
    print("replay: re-run ./check C16 (cases are deterministic)")
    return 0
