"""Shared machinery of ./check: regeneration, Coq builds, case evaluation inside Coq, evidence,
known findings, VIOLATION reporting.  Runs under /venv/bin/python with PYTHONPATH=/repo."""
import fcntl
import hashlib
import json
import os
import random
import re
import shutil
import subprocess
import sys
import time

VERIF = os.path.dirname(os.path.dirname(os.path.abspath(__file__)))
COQ = os.path.join(VERIF, "coq")
REPO = os.environ.get("VERIF_REPO", "/repo")
sys.path.insert(0, os.path.join(VERIF, "tools"))

# axioms declared by the Coq standard library that theorems here may depend on (DESIGN section 6)
ALLOWED_AXIOMS = {
    "ClassicalDedekindReals.sig_forall_dec",
    "ClassicalDedekindReals.sig_not_dec",
    "FunctionalExtensionality.functional_extensionality_dep",
    "Classical_Prop.classic",
}
QARGS = ["-Q", "theories", "J2O", "-Q", "gen", "J2OGen", "-Q", "props", "J2OProps",
         "-w", "-notation-overridden,-deprecated-hint-without-locality,-deprecated-instance-without-locality"]


class Ctx:
    def __init__(self, prop, tier, seed):
        self.prop, self.tier, self.seed = prop, tier, seed
        self.t0 = time.time()
        self.rng = random.Random(seed)
        self.obligations = []      # {"name","kind","ok","detail"}
        self.violations = []       # {"key","what","replay",...}
        self.coverage = {}
        self.samples = []
        self.assumptions = []
        self.axioms = {}
        self.trusted_base = []
        self.level = "proof"
        self.work = os.path.join(VERIF, ".work", f"{prop}-{os.getpid()}")
        os.makedirs(self.work, exist_ok=True)

    def oblige(self, name, ok, kind="theorem", detail=""):
        self.obligations.append({"name": name, "kind": kind, "ok": bool(ok), "detail": str(detail)[:2000]})
        return bool(ok)

    def violate(self, key, what, replay):
        self.violations.append({"key": key, "what": what, "replay": replay})

    def cleanup(self):
        shutil.rmtree(self.work, ignore_errors=True)


def run(cmd, timeout, cwd=None, env=None, input=None):
    try:
        p = subprocess.run(cmd, cwd=cwd, env=env, input=input, stdout=subprocess.PIPE, stderr=subprocess.STDOUT,
                           timeout=timeout, text=True)
        return p.returncode, p.stdout
    except subprocess.TimeoutExpired as e:
        out = e.stdout or ""
        if isinstance(out, bytes):
            out = out.decode(errors="replace")
        return 124, out + f"\n[timeout after {timeout}s]"


class CoqLock:
    def __enter__(self):
        self.fh = open(os.path.join(COQ, ".lock"), "w")
        fcntl.flock(self.fh, fcntl.LOCK_EX)
        return self

    def __exit__(self, *a):
        fcntl.flock(self.fh, fcntl.LOCK_UN)
        self.fh.close()


def regen(only=None):
    import regen as _regen
    with CoqLock():
        return _regen.regen(only)


def ensure_makefile():
    """_CoqProject lists every .v under theories/ gen/ props/ (regenerated when the file set changes)"""
    files = []
    for d in ("theories", "gen", "props"):
        dd = os.path.join(COQ, d)
        if os.path.isdir(dd):
            files += sorted(f"{d}/{f}" for f in os.listdir(dd) if f.endswith(".v") and not f.startswith("."))
    txt = ("-Q theories J2O\n-Q gen J2OGen\n-Q props J2OProps\n"
           "-arg -w -arg -notation-overridden,-deprecated-hint-without-locality,-deprecated-instance-without-locality\n"
           + "\n".join(files) + "\n")
    cp = os.path.join(COQ, "_CoqProject")
    mk = os.path.join(COQ, "Makefile")
    old = open(cp).read() if os.path.exists(cp) else None
    if old != txt or not os.path.exists(mk):
        with open(cp, "w") as fh:
            fh.write(txt)
        run(["coq_makefile", "-f", "_CoqProject", "-o", "Makefile"], 60, cwd=COQ)


def coq_make(targets, timeout=900, jobs=8):
    """Full .vo build (never -vos) of the given make targets."""
    with CoqLock():
        ensure_makefile()
        rc, out = run(["make", f"-j{jobs}"] + list(targets), timeout, cwd=COQ)
    return rc == 0, out


def build_props(ctx, prop_file, gen_units, timeout=900):
    """regen -> build deps -> recompile props/<prop_file>.v capturing Print Assumptions.
    Registers obligations on ctx; returns True when every theorem of the file checked."""
    st = regen()
    ok_all = True
    for u in gen_units:
        s = st.get(u, {"ok": False, "error": "unit missing"})
        if not ctx.oblige(f"translate:{u}", s["ok"], "translator", s.get("error", "")):
            ok_all = False
    vo = f"props/{prop_file}.vo"
    with CoqLock():
        ensure_makefile()
        for ext in (".vo", ".glob", ".vok", ".vos"):
            try:
                os.remove(os.path.join(COQ, "props", prop_file + ext))
            except FileNotFoundError:
                pass
        rc, out = run(["make", "-j8", vo], timeout, cwd=COQ)
    names = re.findall(r"Print Assumptions\s+([\w.']+)\s*\.", open(os.path.join(COQ, "props", prop_file + ".v")).read())
    if rc != 0:
        # name the first failing file / theorem
        m = re.search(r'File "\./([^"]+)", line (\d+)', out)
        where = f"{m.group(1)}:{m.group(2)}" if m else "?"
        failing = _theorem_at(where)
        ctx.oblige(f"coq:{prop_file}", False, "theorem", f"build failed at {where} ({failing})\n" + out[-1500:])
        for n in names:
            ctx.oblige(f"thm:{n}", False, "theorem", "not checked: build failed")
        ctx.build_log = out
        ctx.failing_where = where
        ctx.failing_theorem = failing
        return False
    blocks = re.split(r"(?m)^(?=Closed under the global context|Axioms:)", out)
    blocks = [b for b in blocks if b.startswith("Closed under") or b.startswith("Axioms:")]
    if len(blocks) != len(names):
        ctx.oblige(f"coq:{prop_file}", False, "theorem",
                   f"could not match Print Assumptions output ({len(blocks)}) to theorems ({len(names)})")
        return False
    for n, b in zip(names, blocks):
        axs = []
        if b.startswith("Axioms:"):
            axs = re.findall(r"(?m)^([A-Za-z_][\w.']*)\s*:", b[len("Axioms:"):])
        bad = [a for a in axs if a not in ALLOWED_AXIOMS]
        ctx.axioms[n] = axs
        if not ctx.oblige(f"thm:{n}", not bad, "theorem",
                          ("axioms: " + ", ".join(axs)) if axs else "closed under the global context"):
            ok_all = False
    return ok_all


def _theorem_at(where):
    try:
        f, ln = where.rsplit(":", 1)
        lines = open(os.path.join(COQ, f)).read().split("\n")[: int(ln)]
        for l in reversed(lines):
            m = re.match(r"\s*(Theorem|Lemma|Corollary|Example|Definition|Fixpoint)\s+([\w']+)", l)
            if m:
                return m.group(2)
    except Exception:
        pass
    return "?"


def coq_eval_file(ctx, name, text, timeout=600):
    """compile a generated .v file in the work dir against the built theories; returns (ok, output)"""
    path = os.path.join(ctx.work, name + ".v")
    with open(path, "w") as fh:
        fh.write(text)
    rc, out = run(["coqc"] + [os.path.join(COQ, a) if a in ("theories", "gen", "props") else a for a in QARGS]
                  + [path], timeout, cwd=ctx.work)
    return rc == 0, out


def coq_eval_batches(ctx, name, header, items, render, per_file=40, jobs=8, timeout=900):
    """Evaluate many cases inside Coq in parallel.  `items` is a list; `render(chunk, offset)` returns the
    Gallina text (definitions + Eval commands) for items[offset:offset+len(chunk)].
    Returns the list of (ok, output) per file, in order."""
    from concurrent.futures import ThreadPoolExecutor
    chunks = [(i, items[i:i + per_file]) for i in range(0, len(items), per_file)]

    def one(ch):
        off, chunk = ch
        return coq_eval_file(ctx, f"{name}_{off}", header + render(chunk, off), timeout=timeout)
    with ThreadPoolExecutor(max_workers=jobs) as ex:
        return list(ex.map(one, chunks))


def coq_bad_indices(out):
    """parse the result of `Eval vm_compute in <list nat>` printed with huge width"""
    m = re.search(r"=\s*(\[[^\]]*\]|nil)\s*:\s*list nat", out.replace("\n", " "))
    if not m:
        return None
    body = m.group(1)
    if body == "nil" or body == "[]":
        return []
    return [int(x.replace("%nat", "")) for x in body.strip("[]").split(";") if x.strip()]


CASES_HEADER = """From Coq Require Import ZArith String List Bool.
From J2O Require Import PyLib Dtype.
Import ListNotations.
Open Scope Z_scope.
Set Printing Width 1000000.
Set Printing Depth 1000000.
Fixpoint bad_idx_ {A} (f : A -> bool) (i : nat) (l : list A) : list nat :=
  match l with [] => [] | x :: r => if f x then bad_idx_ f (S i) r else i :: bad_idx_ f (S i) r end.
"""


def zlit(z):
    return f"({int(z)})"


def zlist(l):
    return "[" + "; ".join(zlit(x) for x in l) + "]"


def blit(b):
    return "true" if b else "false"


def optlit(x, f):
    return "None" if x is None else f"(Some {f(x)})"


# ------------------------------------------------------------------ findings / evidence
def load_known():
    """known_findings.json plus known_findings.d/*.json (committed; never written at run time)"""
    out = []
    p = os.path.join(VERIF, "known_findings.json")
    if os.path.exists(p):
        out += json.load(open(p))
    d = os.path.join(VERIF, "known_findings.d")
    if os.path.isdir(d):
        for f in sorted(os.listdir(d)):
            if f.endswith(".json"):
                out += json.load(open(os.path.join(d, f)))
    return out


def finish(ctx, extra_assumptions=()):
    known = {(k["property"], k["key"]): k for k in load_known() if k.get("status") == "known"}
    new_violations = []
    for v in ctx.violations:
        k = known.get((ctx.prop, v["key"]))
        if k is not None:
            print(f"KNOWN-FINDING: property={ctx.prop} {v['key']}: {v['what']}")
        else:
            new_violations.append(v)
    failed = [o for o in ctx.obligations if not o["ok"]]
    lines = []
    rdir = os.path.join(VERIF, "replays", ctx.prop)
    if new_violations or failed:
        os.makedirs(rdir, exist_ok=True)
    for v in new_violations:
        h = hashlib.sha1(v["key"].encode()).hexdigest()[:12]
        path = os.path.join(rdir, f"{h}.json")
        json.dump({"property": ctx.prop, "key": v["key"], "what": v["what"], "replay": v["replay"],
                   "broken_obligations": [o["name"] for o in failed]}, open(path, "w"), indent=1, default=str)
        lines.append(f"VIOLATION property={ctx.prop} replay={path}")
    if failed and not new_violations:
        # a failed obligation explained entirely by KNOWN findings cannot occur: known findings are
        # refuted/guarded statements whose theorems check.  So: broken proof/tie, no input found.
        h = hashlib.sha1(("|".join(o["name"] for o in failed)).encode()).hexdigest()[:12]
        path = os.path.join(rdir, f"broken-{h}.json")
        json.dump({"property": ctx.prop, "no_failing_input_found": True,
                   "broken_obligations": failed,
                   "note": "the named theorem / correspondence no longer checks; the search over model and "
                           "implementation found no concrete failing input"}, open(path, "w"), indent=1, default=str)
        lines.append(f"VIOLATION property={ctx.prop} replay={path} no-failing-input-found")
    n_ob = len(ctx.obligations)
    cov = dict(ctx.coverage)
    LEVELS = ("exploration", "fault_enumeration", "model_checking", "proof", "translation_validation", "other")
    if ctx.level not in LEVELS:
        cov["level_detail"] = ctx.level
        ctx.level = "proof"
    # the evidence level is the level CLAIMED for this property in MANIFEST.json (one source of truth); a harness
    # that describes itself more finely (e.g. "translation_validation" for a proved validator run on real exports)
    # keeps that description in coverage.level_detail
    try:
        man = json.load(open(os.path.join(VERIF, "MANIFEST.json")))
        claimed = {c["property_id"]: c["level_claimed"]["category"] for c in man.get("checks", [])}.get(ctx.prop)
        if claimed and claimed != ctx.level:
            cov.setdefault("level_detail", ctx.level)
            ctx.level = claimed
    except Exception:  # noqa
        pass
    cov.setdefault("obligations", n_ob)
    cov.setdefault("discharged", n_ob - len(failed))
    cov.setdefault("checker_cmd", f"make -C coq props/{ctx.prop}.vo (coqc 8.16.1, full .vo) + harness/{ctx.prop.lower()}.py ties")
    cov.setdefault("trusted_base", ctx.trusted_base or ["Coq 8.16.1 kernel (vm_compute used, native_compute not)"])
    cov.setdefault("samples", ctx.samples[:12] if ctx.samples else [o["name"] for o in ctx.obligations[:12]])
    cov.setdefault("evaluations", cov.get("evaluations", 0))
    # schema hygiene: the typed coverage keys must have their schema types, whatever a harness put there
    for k in ("evaluations", "distinct_nontrivial", "states", "transitions", "traces_validated_against_impl", "programs", "disagreements_checked"):
        if k in cov and not (isinstance(cov[k], int) and not isinstance(cov[k], bool) and cov[k] >= 0):
            detail = cov.pop(k)
            cov[k + "_detail"] = detail
            if isinstance(detail, dict) and all(isinstance(v, int) for v in detail.values()):
                cov[k] = sum(detail.values())
            elif isinstance(detail, (list, tuple)):
                cov[k] = len(detail)
            elif isinstance(detail, float):
                cov[k] = int(detail)
    for k in ("rule", "explanation", "checker_cmd"):
        if k in cov and not isinstance(cov[k], str):
            cov[k] = json.dumps(cov[k], default=str)
    if "exhaustive" in cov and not isinstance(cov["exhaustive"], bool):
        cov["exhaustive_detail"] = cov.pop("exhaustive")
    if not isinstance(cov.get("samples"), list):
        cov["samples"] = [cov.get("samples")]
    if not (isinstance(cov.get("trusted_base"), list) and all(isinstance(x, str) for x in cov["trusted_base"])):
        cov["trusted_base"] = [str(x) for x in (cov.get("trusted_base") or [])] if isinstance(cov.get("trusted_base"), (list, tuple)) else [str(cov.get("trusted_base"))]
    cov["obligation_list"] = [{"name": o["name"], "kind": o["kind"], "ok": o["ok"], "detail": o["detail"][:300]}
                              for o in ctx.obligations]
    cov["axioms_per_theorem"] = ctx.axioms
    cov["known_findings_reported"] = [v["key"] for v in ctx.violations if (ctx.prop, v["key"]) in known]
    ev = {"property_id": ctx.prop, "tier": ctx.tier, "seed": ctx.seed, "level": ctx.level,
          "coverage": cov, "assumptions": list(ctx.assumptions) + list(extra_assumptions),
          "wall_s": round(time.time() - ctx.t0, 2), "violations": len(new_violations) + (1 if (failed and not new_violations) else 0)}
    os.makedirs(os.path.join(VERIF, "evidence"), exist_ok=True)
    json.dump(ev, open(os.path.join(VERIF, "evidence", f"{ctx.prop}.json"), "w"), indent=1, default=str)
    for l in lines:
        print(l)
    ctx.cleanup()
    return 1 if lines else 0
