"""Shared by C02 / C16: run the REAL optimizer on a ModelProto and compare before/after in ONNX Runtime."""
import os
import sys
import warnings

import numpy as np
import onnx
from onnx import TensorProto as TP

warnings.simplefilter("ignore")
import logging  # noqa: E402
logging.getLogger("onnx_ir").setLevel(logging.ERROR)
logging.disable(logging.WARNING)


def np_dtype(elem_type):
    import ml_dtypes
    if elem_type == TP.BFLOAT16:
        return ml_dtypes.bfloat16
    return onnx.helper.tensor_dtype_to_np_dtype(elem_type)


def feeds_for(model, rng, binding):
    """one feed dict: random normal floats mixed with boundary values; ints over their range edges"""
    feeds = {}
    for i in model.graph.input:
        tt = i.type.tensor_type
        shape = [d.dim_value if d.HasField("dim_value") else binding[d.dim_param] for d in tt.shape.dim]
        dt = np.dtype(np_dtype(tt.elem_type))
        n = int(np.prod(shape)) if shape else 1
        if dt == np.bool_:
            a = rng.integers(0, 2, n).astype(bool)
        elif dt.kind in "iu":
            info = np.iinfo(dt)
            pool = np.array([info.min, info.min + 1, -1 if info.min < 0 else 0, 0, 1, 2, info.max - 1, info.max, 100, 127, 128, 255, 256, 65535, 2 ** 31 - 1], dtype=object)
            pool = np.array([int(p) for p in pool if info.min <= int(p) <= info.max], dtype=object)
            a = np.array([pool[j] for j in rng.integers(0, len(pool), n)], dtype=object).astype(dt)
        else:
            a = rng.standard_normal(n).astype(np.float64)
            special = np.array([0.0, -0.0, 1.0, -1.0, 0.5, -2.5, 1e-3, 123456.789, 65504.0, 1.0000001, 3.3e38, 1e-40, np.inf, -np.inf, np.nan, 2.0 ** 24 + 1])
            if any(nd.op_type.startswith("Reduce") for nd in model.graph.node):
                special = special[:10]      # keep sums finite and order-insensitive up to rounding
            k = min(n, len(special))
            if k and tt.elem_type != TP.FLOAT or True:
                idx = rng.choice(n, size=min(n, 6), replace=False)
                a[idx] = special[rng.integers(0, len(special), len(idx))]
            a = a.astype(dt)
        feeds[i.name] = a.reshape(shape)
    return feeds


def ort_session(model_bytes):
    import onnxruntime as ort
    so = ort.SessionOptions()
    so.log_severity_level = 4
    so.graph_optimization_level = ort.GraphOptimizationLevel.ORT_DISABLE_ALL
    return ort.InferenceSession(model_bytes, so, providers=["CPUExecutionProvider"])


def same(a, b, exact):
    a, b = np.asarray(a), np.asarray(b)
    if a.shape != b.shape or a.dtype != b.dtype:
        return False
    if a.dtype.kind in "fc" or str(a.dtype) == "bfloat16":
        af, bf = a.astype(np.float64), b.astype(np.float64)
        if exact:
            return bool(np.array_equal(af, bf, equal_nan=True))
        return bool(np.allclose(af, bf, rtol=1e-5, atol=1e-6, equal_nan=True))
    return bool(np.array_equal(a, b))


def optimize_proto(model, passes=None):
    """run the real optimizer (all passes, or the named subset / prefix) on a copy of the proto"""
    import onnx_ir as ir
    from jax2onnx.converter import ir_optimizations as opt
    irm = ir.from_proto(model)
    if passes is None:
        irm = opt.optimize_graph(irm)
    else:
        for p in opt._OPTIMIZER_PASSES:
            if p.name in passes:
                opt._run_top_level_optimizer_pass(p, irm)
    return ir.to_proto(irm)


BINDINGS = [{"A": 2, "B": 3, "N": 6}, {"A": 3, "B": 3, "N": 9}, {"A": 1, "B": 4, "N": 4}]


def check_graph(args):
    """returns dict(key, status in {invalid_before, ok, violation}, detail, changed)"""
    key, mbytes, seed = args
    model = onnx.load_model_from_string(mbytes)
    try:   # exported models carry type+shape annotations on every value; give the candidates the same
        model = onnx.shape_inference.infer_shapes(model, strict_mode=True)
        mbytes = model.SerializeToString()
    except Exception as e:
        return {"key": key, "status": "invalid_before", "detail": "shape inference: " + str(e)[:200]}
    rng = np.random.default_rng(seed)
    try:
        s0 = ort_session(mbytes)
    except Exception as e:  # the candidate is not a valid model: not in the quantifier
        return {"key": key, "status": "invalid_before", "detail": str(e)[:200]}
    symbolic = any(d.HasField("dim_param") for i in model.graph.input for d in i.type.tensor_type.shape.dim)
    runs = []
    for b in (BINDINGS if symbolic else [{}]):
        for rep in range(2):
            f = feeds_for(model, rng, b)
            if any(v.dtype == np.bool_ and v.shape == () for v in f.values()):
                for name, v in f.items():
                    if v.dtype == np.bool_ and v.shape == ():
                        f[name] = np.array(bool(rep))
            try:
                runs.append((f, s0.run(None, f)))
            except Exception:
                pass
    if not runs:
        return {"key": key, "status": "invalid_before", "detail": "no feed runs before optimisation"}
    try:
        after = optimize_proto(model)
    except Exception as e:
        return {"key": key, "status": "violation", "what": f"optimizer raised {type(e).__name__}: {str(e)[:200]}", "changed": None}
    changed = [n.op_type for n in model.graph.node] != [n.op_type for n in after.graph.node]
    ab = after.SerializeToString()
    try:
        onnx.checker.check_model(after, full_check=False)
        s1 = ort_session(ab)
    except Exception as e:
        return {"key": key, "status": "violation", "changed": changed,
                "what": f"optimised model is not loadable: {str(e)[:300]}"}
    in_after = {i.name for i in s1.get_inputs()}
    # reductions may be re-associated by a layout change; Swish replaces Mul(x, Sigmoid x): tolerance compare
    exact = not any(n.op_type == "Swish" or n.op_type.startswith("Reduce") for n in after.graph.node)
    for f, ref in runs:
        try:
            got = s1.run(None, {k: v for k, v in f.items() if k in in_after})
        except Exception as e:
            return {"key": key, "status": "violation", "changed": changed,
                    "what": f"optimised model fails at run time where the original runs: {str(e)[:300]}",
                    "feed": {k: v.tolist() for k, v in f.items()}}
        if len(got) != len(ref):
            return {"key": key, "status": "violation", "changed": changed, "what": "output count changed"}
        for j, (g, r) in enumerate(zip(got, ref)):
            if not same(g, r, exact):
                return {"key": key, "status": "violation", "changed": changed,
                        "what": f"output {j} differs after optimisation: shape {np.shape(r)}->{np.shape(g)} dtype {np.asarray(r).dtype}->{np.asarray(g).dtype}",
                        "feed": {k: v.tolist() for k, v in f.items()}}
    return {"key": key, "status": "ok", "changed": changed}
