"""C14 — export is deterministic and independent of history.

Proof side: coq/props/C14.v over coq/theories/Determinism.v (order-insensitivity of every set-iteration
site of converter/ir_optimizations.py under its exact side condition, names as a function of the request,
transparency of the signature cache).
Ties:   AST scan — every loop over a set-typed local of converter/*.py is one of the modelled sites;
        counters feeding names are constructed per conversion.
Search: THE PROPERTY ON THE REAL CODE — a fixed request set exported in fresh subprocesses under many
        PYTHONHASHSEEDs, at different positions of randomised histories (succeeding and failing
        conversions), repeated 3x, with shuffled plugin import order, and with the iteration order of the
        optimizer's node sets forced to several legal orders; sha256 of deterministic serialisation must
        agree per request.

The same file is the subprocess driver:  python c14.py --worker JOB.json"""
import ast
import hashlib
import json
import os
import subprocess
import sys
import time

HERE = os.path.dirname(os.path.abspath(__file__))
REPO = os.environ.get("VERIF_REPO", "/repo")

# ------------------------------------------------------------------------------------------------
# the set-iteration sites modelled in Determinism.v:
#   (file, function, iterated variable, how) -> (site id, model in Determinism.v, verdict)
#   verdict "proved"  : order-insensitive; the side condition is guaranteed by the pass's own matching
#   verdict "refuted" : the exact commutation side condition is NOT guaranteed (…_refuted + …_partial)
#   verdict "ordered" : not a set: insertion-ordered dict
# ------------------------------------------------------------------------------------------------
_AF, _TP, _DR = ("remove_redundant_transpose_add_forests_ir", "remove_redundant_transpose_pairs_ir",
                 "inline_dropout_training_mode_constants_ir")
_O = "ir_optimizations.py"
MODELLED_SITES = {
    (_O, _AF, "output_transposes", "for"): ("S1", "site_rauw_order_irrelevant", "proved"),
    (_O, _AF, "output_transposes", "list"): ("S2", "remove_list_of_set_order_irrelevant", "proved"),
    (_O, _AF, "input_transposes", "for"): ("S3", "site_collect_remove_order_irrelevant", "proved"),
    (_O, _TP, "to_remove", "list"): ("S4", "remove_list_of_set_order_irrelevant", "proved"),
    (_O, _TP, "transpose_nodes", "for"): ("S5/S7/S11", "site_perm_agree / site_build_map / site_remove_unused _order_irrelevant", "proved"),
    (_O, _TP, "elem_nodes", "for"): ("S6/S8'/S12", "site_check_collect / site_rewire_map (+ site_refresh_graph_order: refresh in graph order, "
                                     "set used for membership) / site_rewire _order_irrelevant", "proved"),
    (_O, _TP, "output_transposes", "for"): ("S9", "site_rauw_order_irrelevant", "proved"),
    (_O, _TP, "output_transposes", "list"): ("S10", "remove_list_of_set_order_irrelevant", "proved"),
    (_O, _DR, "del_not_nodes", "for"): ("S13", "site_collect_remove_order_irrelevant", "proved"),
    ("plugin_system.py", "FunctionPlugin._lower_and_call", "call_param_names", "sorted"): ("S14'", "sorted_canonical / site_append_sorted_strings_order_irrelevant", "proved"),
    ("function_scope.py", "FunctionRegistry.all", "self._defs", "list.values"): ("S15", "insertion-ordered dict", "ordered"),
}
# number of `for` loops per (function, variable) the models were written for (a further loop over the same
# variable is a new site as well)
MODELLED_LOOP_COUNTS = {(_O, _AF, "output_transposes", "for"): 1, (_O, _AF, "input_transposes", "for"): 1,
                        (_O, _TP, "transpose_nodes", "for"): 3, (_O, _TP, "elem_nodes", "for"): 4,
                        (_O, _TP, "output_transposes", "for"): 1, (_O, _DR, "del_not_nodes", "for"): 1}
# what the bodies of the loops over each set may call (the per-element actions the models were written from);
# any other call inside such a loop - e.g. a shape refresh in set order, the defect fixed in /repo 77c9ea7 -
# is an unmodelled action
MODELLED_LOOP_CALLS = {
    (_O, _AF, "output_transposes"): {"_node_output", "_first_input", "isinstance", "replace_all_uses_with"},
    (_O, _AF, "input_transposes"): {"_node_output", "append", "_consumer_nodes", "is_graph_output", "_nested_graph_references_value"},
    (_O, _TP, "transpose_nodes"): {"_transpose_perm", "_node_output", "_first_input", "isinstance", "_consumer_nodes",
                                   "_value_is_observed", "remove"},
    (_O, _TP, "elem_nodes"): {"_node_output", "_value_is_observed", "_consumer_nodes", "_transpose_perm", "add",
                              "_node_inputs", "enumerate", "replace_input_with",
                              "_op_type"},      # (/repo 3bba8a6) pure read of a node's domain/op_type: order-independent
    (_O, _TP, "output_transposes"): {"_node_output", "_first_input", "isinstance", "replace_all_uses_with"},
    (_O, _DR, "del_not_nodes"): {"_node_outputs", "uses", "is_graph_output", "append"},
}
SCAN_FILES = ["converter/*.py", "plugins/plugin_system.py", "user_interface.py"]

SEEDS_FIXED = [0, 1, 2, 3, 12345, 2 ** 32 - 1]


# ------------------------------------------------------------------------------------------------
# requests
# ------------------------------------------------------------------------------------------------
REGISTRY_REQUESTS = [
    "reg:examples.nnx.NestedResidualGroup:nested_residual_group_static_nchw",
    "reg:examples.nnx.ResBlock:resblock_channel_attention_static_nchw",
    "reg:examples.nnx.ResBlock:resblock_channel_attention_dynamic_hw_nchw",
    "reg:examples.nnx.DepthToSpaceResNet:depth_to_space_resnet_inputs_outputs_as_nchw",
    "reg:examples.nnx.SimpleModel:simple_model_clip_nchw_io",
    "reg:examples.nnx.NestedResidualGroup:nested_residual_stack_static",
    "reg:examples.nnx.SequentialWithResidual:sequential_nested_with_residual",
    "reg:primitives.nnx.dropout:dropout_call_params",
    "reg:primitives.lax.transpose:transpose_nhwc_to_nchw",
    "reg:primitives.lax.conv:conv_nchw",
]


_NET2 = None
_CRASH = {"calls": 0, "fail_at": None, "exc": RuntimeError}
_CRASHABLE = None


class C14Interrupt(BaseException):
    """KeyboardInterrupt-like: not an Exception"""


def _crash_point():
    """called at the top of the bodies of the harness's @onnx_function targets: raises at the fail_at-th invocation
    within one failing history conversion (never during a request)"""
    _CRASH["calls"] += 1
    if _CRASH["fail_at"] is not None and _CRASH["calls"] == _CRASH["fail_at"]:
        raise _CRASH["exc"]("c14 injected crash at invocation %d" % _CRASH["calls"])


def _crashable_model():
    """model(x) = c14_scaled_tanh(x) + 1 with c14_scaled_tanh an @onnx_function (module attribute of this module)"""
    global _CRASHABLE
    if _CRASHABLE is None:
        import jax.numpy as jnp
        from jax2onnx import onnx_function

        def c14_scaled_tanh(x):
            _crash_point()
            return jnp.tanh(x) * 3.0

        c14_scaled_tanh.__module__ = __name__
        c14_scaled_tanh.__qualname__ = "c14_scaled_tanh"
        globals()["c14_scaled_tanh"] = c14_scaled_tanh
        globals()["c14_scaled_tanh"] = onnx_function(c14_scaled_tanh)

        def model(x):
            return globals()["c14_scaled_tanh"](x) + 1.0

        _CRASHABLE = model
    return _CRASHABLE


_NESTED5 = None


def _outer_with_nested_functions():
    """an OUTER @onnx_function whose body calls five different nested @onnx_functions: the FunctionProto of the outer
    function declares one opset import per nested custom domain (function_scope.FunctionScope.to_ir_function)"""
    global _NESTED5
    if _NESTED5 is None:
        import jax.numpy as jnp
        from jax2onnx import onnx_function
        g = globals()

        def _mk(name, fn):
            fn.__name__ = name
            fn.__qualname__ = name
            fn.__module__ = __name__
            g[name] = fn
            g[name] = onnx_function(fn)

        _mk("c14_nf_alpha", lambda x: jnp.tanh(x) * 2.0)
        _mk("c14_nf_bravo", lambda x: jnp.exp(x) - 1.0)
        _mk("c14_nf_charlie", lambda x: jnp.abs(x) + 0.5)
        _mk("c14_nf_delta", lambda x: jnp.sin(x) * x)
        _mk("c14_nf_echo", lambda x: jnp.maximum(x, 0.25))

        def c14_nf_outer(x):
            return (g["c14_nf_alpha"](x) + g["c14_nf_bravo"](x) + g["c14_nf_charlie"](x)
                    + g["c14_nf_delta"](x) + g["c14_nf_echo"](x))
        _mk("c14_nf_outer", c14_nf_outer)
        _NESTED5 = lambda x: g["c14_nf_outer"](x) * 0.5  # noqa: E731
    return _NESTED5


def _two_call_params_net():
    """@onnx_function module whose __call__ accepts call parameters that the call site does not pass
    (plugin_system.py:952 iterates the SET of call-parameter names)"""
    global _NET2
    if _NET2 is None:
        from flax import nnx
        from jax2onnx import onnx_function

        class C14Blk(nnx.Module):
            def __init__(self, rngs):
                self.l = nnx.Linear(4, 4, rngs=rngs)
                self.d = nnx.Dropout(0.5, rngs=rngs)

            def __call__(self, x, deterministic=True, train_flag=False, other=True):
                _crash_point()
                return self.d(self.l(x), deterministic=deterministic)

        C14Blk.__module__ = __name__
        C14Blk.__qualname__ = "C14Blk"
        globals()["C14Blk"] = C14Blk
        FB = onnx_function(C14Blk)

        class C14Net(nnx.Module):
            def __init__(self, rngs):
                self.b = FB(rngs)

            def __call__(self, x, deterministic=True, train_flag=False, other=True):
                return self.b(x, deterministic=deterministic)

        _NET2 = C14Net(nnx.Rngs(0))
    return _NET2


def own_programs():
    """hand-written requests aimed at the set-iteration sites (defined in the worker: jax is imported here)"""
    import jax
    import jax.numpy as jnp
    from flax import nnx

    NHWC, NCHW = (0, 2, 3, 1), (0, 3, 1, 2)

    def forest_unary_after_add(a, b):           # pass -0.5: 2 source transposes, elem nodes {Add, Exp}
        s = jnp.exp(jnp.transpose(a, NHWC) + jnp.transpose(b, NHWC))
        return jnp.transpose(s, NCHW)

    def forest_binary_only(a, b, c):            # pass -0.5: 3 source transposes, elem nodes {Mul, Add}
        s = jnp.transpose(a, NHWC) * jnp.transpose(b, NHWC) + jnp.transpose(c, NHWC)
        return jnp.transpose(s, NCHW)

    def forest_two_outputs(a, b):               # pass -0.5: two inverse transposes on the outputs
        m = jnp.transpose(a, NHWC) * jnp.transpose(b, NHWC)
        n = jnp.abs(m)
        return jnp.transpose(m, NCHW), jnp.transpose(n, NCHW)

    def add_forest_two_outputs(a, b, c):        # add-forest pass: 3 input transposes, 2 output transposes
        s = jnp.transpose(a, NHWC) + jnp.transpose(b, NHWC)
        u = s + jnp.transpose(c, NHWC)
        return jnp.transpose(s, NCHW), jnp.transpose(u, NCHW)

    def chain_three_unary(a):                   # single transpose, elementwise chain of 3
        return jnp.transpose(jnp.tanh(jnp.exp(jnp.abs(jnp.transpose(a, NHWC)))), NCHW)

    def gather_const_index_chain(x):            # gather whose indices are constant * literal in the SAME jaxpr:
        import numpy as np                      # foldable only by the handlers gather.py registers on a context
        from jax import lax
        dn = lax.GatherDimensionNumbers(offset_dims=(1,), collapsed_slice_dims=(0,), start_index_map=(0,))
        idx = lax.reshape(lax.mul(jnp.asarray(np.array([2, 0, 1], dtype=np.int32)), np.int32(1)), (3, 1))
        return lax.gather(x, idx, dn, slice_sizes=(1, 5), mode="promise_in_bounds")

    class TwoDropouts(nnx.Module):
        def __init__(self, rngs):
            self.l1 = nnx.Linear(6, 6, rngs=rngs)
            self.d1 = nnx.Dropout(0.3, rngs=rngs)
            self.d2 = nnx.Dropout(0.4, rngs=rngs)

        def __call__(self, x, deterministic=True):
            return self.d2(jax.nn.relu(self.d1(self.l1(x), deterministic=deterministic)), deterministic=deterministic)

    class ConvBnResidual(nnx.Module):
        def __init__(self, rngs):
            self.c1 = nnx.Conv(4, 4, (3, 3), rngs=rngs)
            self.bn = nnx.BatchNorm(4, rngs=rngs, use_running_average=True)
            self.c2 = nnx.Conv(4, 4, (3, 3), rngs=rngs)

        def __call__(self, x):
            y = jax.nn.relu(self.bn(self.c1(x)))
            return x + self.c2(y) * 0.5

    net2 = _two_call_params_net()
    s4 = [(1, 4, 8, 6)]
    return {
        "c14:function_crashable": (_crashable_model(), [(2, 3)], {}),
        "c14:outer_function_five_nested": (_outer_with_nested_functions(), [(2, 3)], {}),
        "c14:function_two_call_params": (net2, [(2, 4)],
                                         {"input_params": {"deterministic": True, "train_flag": False, "other": True}}),
        "c14:forest_unary_after_add": (forest_unary_after_add, s4 * 2, {}),
        "c14:forest_binary_only": (forest_binary_only, s4 * 3, {}),
        "c14:forest_two_outputs": (forest_two_outputs, s4 * 2, {}),
        "c14:add_forest_two_outputs": (add_forest_two_outputs, s4 * 3, {}),
        "c14:chain_three_unary": (chain_three_unary, s4, {}),
        "c14:gather_const_index_chain": (gather_const_index_chain, [(4, 5)], {}),
        "c14:two_dropouts_call_param": (TwoDropouts(nnx.Rngs(0)), [(3, 6)], {"input_params": {"deterministic": True}}),
        "c14:conv_bn_residual_nchw_io": (ConvBnResidual(nnx.Rngs(0)), [(1, 8, 8, 4)],
                                         {"inputs_as_nchw": [0], "outputs_as_nchw": [0]}),
        "c14:conv_bn_residual_symbolic_nchw_io": (ConvBnResidual(nnx.Rngs(1)), [("B", 8, 8, 4)],
                                                  {"inputs_as_nchw": [0], "outputs_as_nchw": [0]}),
    }


OWN_NAMES = ["c14:function_crashable", "c14:outer_function_five_nested", "c14:function_two_call_params", "c14:forest_unary_after_add", "c14:forest_binary_only", "c14:forest_two_outputs",
             "c14:add_forest_two_outputs", "c14:chain_three_unary", "c14:two_dropouts_call_param",
             "c14:conv_bn_residual_nchw_io", "c14:conv_bn_residual_symbolic_nchw_io", "c14:gather_const_index_chain"]
# requests that history job h exports as the very FIRST conversion of its process (then 3x repeated): state that
# only the first conversion of a process initialises shows up as first-vs-second difference
FIRST_REQUESTS = ["c14:gather_const_index_chain", "x:nested_onnx_functions", "c14:function_two_call_params"]


def all_requests():
    import exports
    return list(exports.extra_names()) + list(REGISTRY_REQUESTS) + list(OWN_NAMES)


# ------------------------------------------------------------------------------------------------
# worker (runs in a fresh interpreter)
# ------------------------------------------------------------------------------------------------
class _W:
    """state of one worker process"""
    own = None
    reg = None
    sites = {}          # (function, line) -> [iterations, iterations with >=2 elements, max elements]
    cur = {}            # the same, for the export in progress: (function, line) -> max elements


def _make_ordered_set(mode, seed):
    """a `set` subclass whose iteration order is chosen by us (every permutation of the elements is a legal
    iteration order of a Python set of id-hashed objects) and which records who iterates it"""
    import builtins
    import random
    rnd = random.Random(seed)

    class _Meta(type):
        def __instancecheck__(cls, inst):          # isinstance(x, set) inside patched modules keeps its meaning
            return isinstance(inst, builtins.set)

    class OSet(set, metaclass=_Meta):
        __slots__ = ("_ord",)

        def __init__(self, it=()):
            items = list(it)
            set.__init__(self, items)
            self._ord = []
            for x in items:
                if not any(x is y for y in self._ord):
                    self._ord.append(x)

        def add(self, x):
            if not set.__contains__(self, x):
                self._ord.append(x)
            set.add(self, x)

        def update(self, *others):
            for o in others:
                for x in list(o):
                    self.add(x)

        def discard(self, x):
            if set.__contains__(self, x):
                self._ord = [y for y in self._ord if y is not x and y != x]
            set.discard(self, x)

        def remove(self, x):
            if not set.__contains__(self, x):
                raise KeyError(x)
            self.discard(x)

        def clear(self):
            self._ord = []
            set.clear(self)

        def pop(self):
            x = self._ord.pop()
            set.discard(self, x)
            return x

        def __ior__(self, o):
            self.update(o)
            return self

        def __iter__(self):
            f = sys._getframe(1)
            n = len(self._ord)
            mod = f.f_globals.get("__name__", "")
            if mod.startswith("jax2onnx."):
                k = (mod.rsplit(".", 1)[1] + ":" + f.f_code.co_name, f.f_lineno)
                st = _W.sites.setdefault(k, [0, 0, 0])
                st[0] += 1
                st[1] += 1 if n >= 2 else 0
                st[2] = max(st[2], n)
                _W.cur[k] = max(_W.cur.get(k, 0), n)
            if mode == "natural":
                return set.__iter__(self)
            order = list(self._ord)
            if mode == "reverse":
                order.reverse()
            elif mode == "shuffle":
                rnd.shuffle(order)
            return iter(order)

    return OSet


PATCHED_MODULE_PREFIXES = ("jax2onnx.converter.", "jax2onnx.plugins.plugin_system", "jax2onnx.user_interface")


def _install_set_order(mode, seed):
    """every `set(...)` call evaluated in the converter core creates an OSet (set literals and comprehensions
    stay builtin sets; the AST scan shows none of them is iterated)"""
    import jax2onnx  # noqa
    import jax2onnx.converter.ir_optimizations  # noqa
    import jax2onnx.converter.conversion_api  # noqa
    cls = _make_ordered_set(mode, seed)
    n = 0
    for name, mod in list(sys.modules.items()):
        if mod is not None and name.startswith(PATCHED_MODULE_PREFIXES):
            mod.set = cls
            n += 1
    return n


def _import_plugins_shuffled(seed):
    """import every plugin module in a shuffled order BEFORE the first conversion (import_all_plugins
    discovers modules by Path.rglob, i.e. in directory order, and the last registration of a primitive wins)"""
    import importlib
    import random
    from pathlib import Path
    import jax2onnx.plugins.plugin_system as ps
    root = Path(os.path.dirname(ps.__file__))
    mods = []
    for py in root.rglob("*.py"):
        if py.name in {"plugin_system.py", "__init__.py"}:
            continue
        mods.append(".".join(["jax2onnx.plugins"] + list(py.relative_to(root).with_suffix("").parts)))
    mods.sort()
    random.Random(seed).shuffle(mods)
    bad = 0
    for m in mods:
        try:
            importlib.import_module(m)
        except Exception:
            bad += 1
    return len(mods), bad


def _export(req):
    import exports
    from jax2onnx import to_onnx
    if req.startswith("graph:"):
        return _pass_graph(req)
    if req.startswith("x:"):
        return exports.export_extra(req)
    if req.startswith("c14:"):
        if _W.own is None:
            _W.own = own_programs()
        fn, spec, kw = _W.own[req]
        return to_onnx(fn, spec, **kw)
    if _W.reg is None:
        _W.reg = {exports.tp_key(tp): tp for tp in exports.registry_items()}
    tp = _W.reg[req]
    over = {}
    for k in ("inputs_as_nchw", "outputs_as_nchw"):
        if tp.get(k):
            over[k] = list(tp[k])
    return exports.export_tp(tp, **over)


PASS_GRAPHS = ["graph:pairs_add_chain_two_outputs", "graph:dropout_two_not_true"]


def _pass_graph(name):
    """sites the full pipeline never reaches with >= 2 members (an earlier pass consumes the pattern) are
    driven directly: a hand-built onnx_ir graph is given to the pass function of the real code"""
    import numpy as np
    import onnx_ir as ir
    import jax2onnx.converter.ir_optimizations as opt
    F = ir.DataType.FLOAT
    NHWC, NCHW = [0, 2, 3, 1], [0, 3, 1, 2]

    def tr(x, perm, nm, shape):
        o = ir.val(nm, F, shape)
        return ir.Node(op_type="Transpose", domain="", inputs=[x], outputs=[o], name="n_" + nm,
                       attributes=[ir.AttrInt64s("perm", perm)]), o

    if name == "graph:pairs_add_chain_two_outputs":      # pass -1 of remove_redundant_transpose_pairs_ir: to_remove
        a, b, c = (ir.val(n, F, (1, 4, 8, 6)) for n in "abc")
        na, ta = tr(a, NHWC, "ta", (1, 8, 6, 4))
        nb, tb = tr(b, NHWC, "tb", (1, 8, 6, 4))
        nc, tc = tr(c, NHWC, "tc", (1, 8, 6, 4))
        s_ = ir.val("s", F, (1, 8, 6, 4))
        u_ = ir.val("u", F, (1, 8, 6, 4))
        ns = ir.Node(op_type="Add", domain="", inputs=[ta, tb], outputs=[s_], name="n_s")
        nu = ir.Node(op_type="Add", domain="", inputs=[s_, tc], outputs=[u_], name="n_u")
        n1, o1 = tr(s_, NCHW, "o1", (1, 4, 8, 6))
        n2, o2 = tr(u_, NCHW, "o2", (1, 4, 8, 6))
        g = ir.Graph(name="g", inputs=[a, b, c], outputs=[o1, o2], nodes=[na, nb, nc, ns, nu, n1, n2],
                     opset_imports={"": 23})
        opt.remove_redundant_transpose_pairs_ir(g)
    elif name == "graph:dropout_two_not_true":           # inline_dropout_training_mode_constants_ir: del_not_nodes
        x = ir.val("x", F, (3, 4))
        t = ir.val("true_c", ir.DataType.BOOL, (), const_value=ir.tensor(np.asarray(True)))
        r = ir.val("ratio", F, (), const_value=ir.tensor(np.asarray(0.5, dtype=np.float32)))
        m1, m2 = ir.val("not1", ir.DataType.BOOL, ()), ir.val("not2", ir.DataType.BOOL, ())
        d1, d2 = ir.val("d1", F, (3, 4)), ir.val("d2", F, (3, 4))
        nodes = [ir.Node(op_type="Not", domain="", inputs=[t], outputs=[m1], name="n_not1"),
                 ir.Node(op_type="Not", domain="", inputs=[t], outputs=[m2], name="n_not2"),
                 ir.Node(op_type="Dropout", domain="", inputs=[x, r, m1], outputs=[d1], name="n_d1"),
                 ir.Node(op_type="Dropout", domain="", inputs=[d1, r, m2], outputs=[d2], name="n_d2")]
        g = ir.Graph(name="g", inputs=[x], outputs=[d2], nodes=nodes, initializers=[t, r], opset_imports={"": 23})
        opt.inline_dropout_training_mode_constants_ir(g)
    else:
        raise ValueError(name)
    return ir.serde.serialize_graph(g)


def _failing(kind, i):
    """conversions that fail: returns the exception class name (None = unexpectedly succeeded).
    kind[:k] -- k = which invocation / which equation crashes."""
    import contextlib
    import jax
    import jax.numpy as jnp
    from jax import lax
    from jax2onnx import to_onnx
    kind, _, karg = kind.partition(":")
    k = int(karg) if karg else 1

    @contextlib.contextmanager
    def lowering_crash(exc):
        """the k-th tanh equation that reaches the plugin dispatch raises (whatever the depth: top graph,
        @onnx_function body, control-flow body)"""
        import jax2onnx.converter.lowering_dispatch as ld
        orig = ld.lower_equation_with_plugin
        seen = {"n": 0}

        def crashing(plugin, **kw):
            if "tanh" in str(kw.get("primitive_name", "")):
                seen["n"] += 1
                if seen["n"] == k:
                    raise exc("c14 injected lowering crash")
            return orig(plugin, **kw)
        ld.lower_equation_with_plugin = crashing
        try:
            yield
        finally:
            ld.lower_equation_with_plugin = orig

    def body_crash(exc, model, spec, **kw):
        # jax caches the shape-inference trace of the function: count the invocations of a (succeeding) export
        # first, then crash at the k-th of them (the last one when there are fewer)
        for _ in range(2):                       # the second export shows the steady-state count
            _CRASH.update(calls=0, fail_at=None, exc=RuntimeError)
            to_onnx(model, spec, **kw)
        n = max(1, _CRASH["calls"])
        _CRASH.update(calls=0, fail_at=min(k, n), exc=exc)
        try:
            to_onnx(model, spec, **kw)
        finally:
            _CRASH.update(calls=0, fail_at=None, exc=RuntimeError)

    try:
        if kind == "unsupported":
            from jax.extend.core import Primitive
            p = Primitive(f"c14_unknown_{i}")
            p.def_impl(lambda x: x)
            p.def_abstract_eval(lambda x: x)
            to_onnx(lambda x: p.bind(jnp.tanh(x)) + 1.0, [(2 + i % 3,)])
        elif kind == "trace-exception":
            def boom(x):
                y = jnp.sin(x)  # noqa: F841
                raise RuntimeError("c14 tracing failure")
            to_onnx(boom, [(3,)])
        elif kind == "shape-error":
            to_onnx(lambda a, b: a @ b, [(2, 3), (4, 5)])
        elif kind == "bad-layout":
            to_onnx(lambda a: a * 2.0, [(2, 3)], inputs_as_nchw=[0])
        elif kind == "fn-body-crash":            # @onnx_function (function) body raises at its k-th invocation
            body_crash(RuntimeError, _crashable_model(), [(2, 3)])
        elif kind == "fn-body-interrupt":        # ... with a BaseException
            body_crash(C14Interrupt, _crashable_model(), [(2, 3)])
        elif kind == "cls-body-crash":           # @onnx_function (class) __call__ raises at its k-th invocation
            body_crash(RuntimeError, _two_call_params_net(), [(2, 4)],
                       input_params={"deterministic": True, "train_flag": False, "other": True})
        elif kind == "nested-fn-body-crash":     # crash inside an @onnx_function called from a control-flow body
            f = _crashable_model()
            body_crash(RuntimeError, lambda x: lax.cond(jnp.sum(x) > 0, lambda a: f(a), lambda a: a - 1.0, x), [(2, 3)])
        elif kind == "control-flow-body-crash":  # exception while tracing a loop body
            def lbody(j, c):
                if k:
                    raise RuntimeError("c14 loop body failure")
                return c
            to_onnx(lambda x: lax.fori_loop(0, 3, lbody, x), [(3,)])
        elif kind == "lowering-crash-top":
            with lowering_crash(RuntimeError):
                to_onnx(lambda x: jnp.tanh(jnp.tanh(x)) * 2.0, [(3,)])
        elif kind == "lowering-crash-function":  # while the FunctionScope of an @onnx_function is open
            with lowering_crash(RuntimeError):
                to_onnx(_crashable_model(), [(2, 3)])
        elif kind == "lowering-interrupt-function":
            with lowering_crash(C14Interrupt):
                to_onnx(_crashable_model(), [(2, 3)])
        elif kind == "lowering-crash-loop":      # inside the body graph of a Loop
            with lowering_crash(RuntimeError):
                to_onnx(lambda x: lax.fori_loop(0, 3, lambda j, c: jnp.tanh(c) + 1.0, x), [(3,)])
        elif kind == "lowering-crash-cond":
            with lowering_crash(RuntimeError):
                to_onnx(lambda x: lax.cond(jnp.sum(x) > 0, lambda a: jnp.tanh(a), lambda a: a - 1.0, x), [(3,)])
        elif kind == "optimizer-strict-crash":   # the optimizer raises and strict mode propagates it
            import jax2onnx.converter.conversion_api as api
            orig, old = api.optimize_graph, os.environ.get("JAX2ONNX_STRICT_OPTIMIZER_FAILURES")

            def bad_opt(model):
                raise RuntimeError("c14 injected optimizer failure")
            api.optimize_graph = bad_opt
            os.environ["JAX2ONNX_STRICT_OPTIMIZER_FAILURES"] = "1"
            try:
                to_onnx(_crashable_model(), [(2, 3)])
            finally:
                api.optimize_graph = orig
                if old is None:
                    os.environ.pop("JAX2ONNX_STRICT_OPTIMIZER_FAILURES", None)
                else:
                    os.environ["JAX2ONNX_STRICT_OPTIMIZER_FAILURES"] = old
        else:
            raise ValueError(kind)
    except BaseException as e:  # noqa
        if isinstance(e, (KeyboardInterrupt, SystemExit, ValueError)) and not str(e).startswith("c14") and kind not in (
                "bad-layout",):
            if isinstance(e, (KeyboardInterrupt, SystemExit)):
                raise
        return type(e).__name__
    return None


def _filler(i):
    import jax.numpy as jnp
    from jax2onnx import to_onnx
    k = i % 4
    if k == 0:
        to_onnx(lambda x: jnp.tanh(x) * float(i + 1), [(3 + i % 5,)])
    elif k == 1:
        to_onnx(lambda x, w: jnp.maximum(x @ w, 0.0), [("B", 4 + i % 3), (4 + i % 3, 5)])
    elif k == 2:
        to_onnx(lambda x: jnp.transpose(jnp.reshape(x, (2, 3, -1)), (2, 0, 1)), [(6, 2 + i % 4)])
    else:
        to_onnx(lambda x: jnp.cumsum(x, axis=0) + jnp.arange(x.shape[0])[:, None], [(3 + i % 2, 2)])


def _ties():
    """behavioural ties on the real code (run inside a worker, after conversions have filled every cache)"""
    import inspect
    out = {}
    try:
        from jax2onnx.converter.ir_context import IRContext
        names = []
        objs = []
        for _ in range(2):
            c = IRContext(opset=23, enable_double_precision=False, input_specs=[])
            names.append([c.fresh_name("x"), c.fresh_name("x"), c.builder.fresh_name("Add"), c.builder.fresh_name("Add")])
            objs.append((id(c._name_counters), id(c.builder._counters), id(c._func_name_counters)))
            c._func_name_counters[("custom", "f", "shared")] = 7
            keep = c  # noqa: F841  (both contexts alive: ids comparable)
            objs.append(c)
        out["fresh_names_restart_per_context"] = [names[0] == names[1] and names[0] == ["x_0", "x_1", "Add_0", "Add_1"], str(names)]
        c3 = IRContext(opset=23, enable_double_precision=False, input_specs=[])
        out["func_counters_fresh_per_context"] = [c3._func_name_counters == {}, str(c3._func_name_counters)]
    except Exception as e:  # noqa
        out["fresh_names_restart_per_context"] = [False, f"{type(e).__name__}: {e}"]
    try:
        from jax2onnx.converter import lowering_dispatch as ld
        from jax2onnx.plugins.plugin_system import PLUGIN_REGISTRY
        bad, n = [], 0
        warm = len(ld._LOWER_SIGNATURE_CACHE)
        for name, plug in sorted(PLUGIN_REGISTRY.items()):
            lower = getattr(plug, "lower", None)
            if lower is None:
                continue
            n += 1
            try:
                want = "params" in inspect.signature(lower).parameters
            except (TypeError, ValueError):
                want = False
            got_warm = ld._lower_accepts_params(lower)
            key = getattr(lower, "__func__", lower)
            ld._LOWER_SIGNATURE_CACHE.pop(key, None)
            got_cold = ld._lower_accepts_params(lower)
            if not (got_warm == got_cold == want):
                bad.append(name)
        out["signature_cache_transparent"] = [not bad and n > 0, f"{n} lowerings, {warm} entries warm, mismatches: {bad[:5]}"]
    except Exception as e:  # noqa
        out["signature_cache_transparent"] = [False, f"{type(e).__name__}: {e}"]
    return out


def worker(job_path):
    import warnings
    warnings.simplefilter("ignore")
    import logging
    logging.disable(logging.CRITICAL)
    job = json.load(open(job_path))
    sys.path.insert(0, HERE)
    out = {"id": job["id"], "results": [], "failures": [], "notes": {}}
    if job.get("import_order") is not None:
        n, bad = _import_plugins_shuffled(job["import_order"])
        out["notes"]["plugins_imported_shuffled"] = [n, bad]
    if job.get("set_order"):
        _install_set_order(job["set_order"], job.get("set_order_seed", 0))
    save = job.get("save_dir")
    for pos, st in enumerate(job["steps"]):
        op = st[0]
        t = time.time()
        if op == "export":
            req = st[1]
            _W.cur = {}
            try:
                m = _export(req)
                b = m.SerializeToString(deterministic=True)
                d = hashlib.sha256(b).hexdigest()
                if save:
                    p = os.path.join(save, d + ".onnx")
                    if not os.path.exists(p):
                        with open(p + f".{os.getpid()}", "wb") as fh:
                            fh.write(b)
                        os.replace(p + f".{os.getpid()}", p)
                hit = sorted([k[0], k[1], n] for k, n in _W.cur.items())
                out["results"].append({"req": req, "pos": pos, "digest": d, "t": round(time.time() - t, 2),
                                       "sites": hit})
            except Exception as e:  # noqa
                out["results"].append({"req": req, "pos": pos, "digest": None,
                                       "error": f"{type(e).__name__}: {str(e)[:200]}"})
        elif op == "ties":
            out["ties"] = _ties()
        elif op == "fail":
            out["failures"].append({"kind": st[1], "pos": pos, "raised": _failing(st[1], pos)})
        elif op == "filler":
            try:
                _filler(st[1])
            except Exception as e:  # noqa
                out["failures"].append({"kind": "filler", "pos": pos, "raised": type(e).__name__})
    out["sites"] = [[k[0], k[1]] + v for k, v in sorted(_W.sites.items())]
    with open(job["out"], "w") as fh:
        json.dump(out, fh)


# ------------------------------------------------------------------------------------------------
# AST scan: every consumption of a set-typed (or object-keyed dict) name in iteration order
# ------------------------------------------------------------------------------------------------
import re  # noqa: E402
import glob  # noqa: E402

SET_ANN = re.compile(r"^(typing\.)?(Set|set|FrozenSet|frozenset|AbstractSet|MutableSet)\b")
def ann_kind(a):
    """'set' | 'objdict' | None for an annotation node"""
    if a is None: return None
    t = ast.unparse(a)
    t = re.sub(r"^(Optional\[)(.*)\]$", r"\2", t)
    if SET_ANN.match(t): return "set"
    m = re.match(r"^(typing\.)?(Dict|dict|Mapping|MutableMapping|OrderedDict|defaultdict)\[(.*)\]$", t, re.S)
    if m:
        key = m.group(3).split(",")[0].strip()
        if key not in ("str", "int", "bytes", "Tuple[str, str]", "tuple[str, str]"):
            return "objdict"
    return None
def value_kind(v):
    if isinstance(v, (ast.Set, ast.SetComp)): return "set"
    if isinstance(v, ast.Call) and isinstance(v.func, ast.Name) and v.func.id in ("set", "frozenset"): return "set"
    return None
def ret_tuple_kinds(fn):
    """kinds of the tuple elements a function returns, from its return annotation"""
    if fn.returns is None: return None
    t = fn.returns
    if isinstance(t, ast.Subscript) and ast.unparse(t.value) in ("Optional", "typing.Optional"): t = t.slice
    if isinstance(t, ast.Subscript) and ast.unparse(t.value) in ("Tuple", "tuple", "typing.Tuple"):
        el = t.slice.elts if isinstance(t.slice, ast.Tuple) else [t.slice]
        return [ann_kind(e) for e in el]
    k = ann_kind(t)
    return k
def name_of(n):
    if isinstance(n, ast.Name): return n.id
    if isinstance(n, ast.Attribute) and isinstance(n.value, ast.Name) and n.value.id == "self": return "self." + n.attr
    return None

# read-only helpers allowed inside any(...)/all(...) over a set
PURE_CALLS = {"isinstance", "len", "getattr", "_node_output", "_node_outputs", "_node_inputs", "_first_input", "_transpose_perm",
              "_v_name", "_op_type", "is_graph_output", "is_graph_input"}
LOOP_CALLS = {}     # (file, function, variable) -> names called in the bodies of the `for` loops over that set


def scan_file(path):
    tree = ast.parse(open(path).read())
    rets = {}
    funcs = []
    class_attrs = {}
    for node in ast.walk(tree):
        if isinstance(node, (ast.FunctionDef, ast.AsyncFunctionDef)):
            rets[node.name] = ret_tuple_kinds(node)
    # class attribute kinds (self.x annotated/assigned as set anywhere in the class)
    for cls in [n for n in ast.walk(tree) if isinstance(n, ast.ClassDef)]:
        for node in ast.walk(cls):
            if isinstance(node, ast.AnnAssign):
                nm = name_of(node.target)
                k = ann_kind(node.annotation) or (value_kind(node.value) if node.value else None)
                if nm and nm.startswith("self.") and k: class_attrs[nm] = k
            elif isinstance(node, ast.Assign):
                for t in node.targets:
                    nm = name_of(t)
                    k = value_kind(node.value)
                    if nm and nm.startswith("self.") and k: class_attrs[nm] = k
    out = []
    def top_funcs(body, prefix=""):
        for n in body:
            if isinstance(n, (ast.FunctionDef, ast.AsyncFunctionDef)):
                yield prefix + n.name, n
            elif isinstance(n, ast.ClassDef):
                yield from top_funcs(n.body, prefix + n.name + ".")
    # module-level set-typed globals
    mod_kinds = {}
    for n in tree.body:
        if isinstance(n, ast.AnnAssign) and isinstance(n.target, ast.Name):
            k = ann_kind(n.annotation) or (value_kind(n.value) if n.value else None)
            if k: mod_kinds[n.target.id] = k
        elif isinstance(n, ast.Assign):
            k = value_kind(n.value)
            if k:
                for t in n.targets:
                    if isinstance(t, ast.Name): mod_kinds[t.id] = k
    for fname, fn in top_funcs(tree.body):
        kinds = dict(class_attrs)
        tupvars = {}
        for a in fn.args.args + fn.args.kwonlyargs:
            k = ann_kind(a.annotation)
            if k: kinds[a.arg] = k
        nodes = list(ast.walk(fn))
        for _ in range(2):
            for node in nodes:
                if isinstance(node, ast.AnnAssign):
                    nm = name_of(node.target)
                    k = ann_kind(node.annotation) or (value_kind(node.value) if node.value else None)
                    if nm and k: kinds[nm] = k
                elif isinstance(node, ast.Assign):
                    v = node.value
                    k = value_kind(v)
                    src = None
                    if isinstance(v, ast.Call) and isinstance(v.func, ast.Name) and v.func.id in rets: src = rets[v.func.id]
                    elif isinstance(v, ast.Name) and v.id in tupvars: src = tupvars[v.id]
                    elif isinstance(v, ast.Name) and v.id in kinds: k = kinds[v.id]
                    for t in node.targets:
                        nm = name_of(t)
                        if nm and k: kinds[nm] = k
                        if nm and isinstance(src, list): tupvars[nm] = src
                        if nm and isinstance(src, str): kinds[nm] = src
                        if isinstance(t, ast.Tuple) and isinstance(src, list) and len(src) == len(t.elts):
                            for e, kk in zip(t.elts, src):
                                en = name_of(e)
                                if en and kk: kinds[en] = kk
        def kind_of(e):
            # set-valued EXPRESSIONS: a | b, a - b, set(...), {...}, {x for ...}
            if isinstance(e, ast.BinOp) and isinstance(e.op, (ast.BitOr, ast.BitAnd, ast.Sub, ast.BitXor)):
                for side in (e.left, e.right):
                    _n, _k = kind_of(side)
                    if _k == "set":
                        return "<" + ast.unparse(e)[:40] + ">", "set"
                return None, None
            if value_kind(e) == "set":
                return "<" + ast.unparse(e)[:40] + ">", "set"
            nm = name_of(e)
            if nm is None: return None, None
            if nm in kinds: return nm, kinds[nm]
            if nm in mod_kinds: return nm, mod_kinds[nm]
            return nm, None
        anyall_gens = set()
        for node in nodes:
            its = []
            if isinstance(node, (ast.For, ast.AsyncFor)):
                its.append(("for", node.iter, node.lineno))
                nm0, k0 = kind_of(node.iter)
                if k0 == "set":
                    calls = set()
                    for st in node.body:
                        for x in ast.walk(st):
                            if isinstance(x, ast.Call):
                                calls.add(x.func.id if isinstance(x.func, ast.Name) else
                                          (x.func.attr if isinstance(x.func, ast.Attribute) else "<expr>"))
                    LOOP_CALLS.setdefault((os.path.basename(path), fname, nm0), set()).update(calls)
            if isinstance(node, ast.Call) and isinstance(node.func, ast.Name) and node.func.id in ("any", "all") \
                    and len(node.args) == 1 and isinstance(node.args[0], ast.GeneratorExp) and not node.keywords:
                gen = node.args[0]
                called = {(x.func.id if isinstance(x.func, ast.Name) else getattr(x.func, "attr", "<expr>"))
                          for part in [gen.elt] + [c for g in gen.generators for c in g.ifs] for x in ast.walk(part)
                          if isinstance(x, ast.Call)}
                pure = called <= PURE_CALLS
                for g in gen.generators:
                    its.append(("anyall" if pure else "anyall-impure", g.iter, node.lineno))
                anyall_gens.add(id(gen))
            if isinstance(node, (ast.ListComp, ast.SetComp, ast.DictComp, ast.GeneratorExp)) and id(node) not in anyall_gens:
                for g in node.generators: its.append(("comp", g.iter, node.lineno))
            if isinstance(node, ast.Call) and isinstance(node.func, ast.Name) and node.func.id in ("list", "tuple", "iter", "enumerate", "zip", "next", "reversed", "sorted"):
                how0 = node.func.id
                if how0 == "sorted" and any(kw.arg == "key" for kw in node.keywords):
                    how0 = "sorted-key"          # stable sort: ties keep the set's order
                for a in node.args: its.append((how0, a, node.lineno))
            if isinstance(node, ast.Call) and isinstance(node.func, ast.Attribute) and node.func.attr == "pop" and not node.args:
                its.append(("pop", node.func.value, node.lineno))
            if isinstance(node, ast.Call) and isinstance(node.func, ast.Attribute) and node.func.attr == "join":
                for a in node.args: its.append(("join", a, node.lineno))
            for how, e, ln in its:
                if isinstance(e, ast.Call) and isinstance(e.func, ast.Attribute) and e.func.attr in ("items", "keys", "values") :
                    nm, k = kind_of(e.func.value)
                    if k == "objdict": out.append((fname, nm, how + "." + e.func.attr, ln, k))
                    continue
                nm, k = kind_of(e)
                if k == "set" or (k == "objdict" and how != "pop"):
                    out.append((fname, nm, how, ln, k))
    return out



def scan_sites():
    """[(file, function, variable, how, line, kind)] over SCAN_FILES of the working tree"""
    out = []
    LOOP_CALLS.clear()
    for pat in SCAN_FILES:
        for path in sorted(glob.glob(os.path.join(REPO, "jax2onnx", pat))):
            for (fn, var, how, ln, kind) in scan_file(path):
                out.append((os.path.basename(path), fn, var, "for" if how in ("for", "comp") else how, ln, kind))
    return out


# ------------------------------------------------------------------------------------------------
# process-global state written while converting: every module-level object mutated inside a function, every
# `global` statement and every class attribute assigned through `cls.` must be classified here (fail closed)
#   memo       : transparent cache (Determinism.v signature_cache_transparent + behavioural tie)
#   registry   : filled by plugin import (covered by the import-order sweep)
#   contextvar : set and reset inside one conversion
#   patch      : patch bookkeeping (property C13)
#   report     : only read by reporting helpers
#   init-flag  : idempotent one-time initialisation whose effect is itself process-global
#   OBSERVABLE : feeds the exported bytes - a finding (see known_findings.d/C14.json)
# ------------------------------------------------------------------------------------------------
GLOBAL_STATE = {
    ("converter/lowering_dispatch.py", "_LOWER_SIGNATURE_CACHE"): ("memo", "keyed by the function object, value = 'params' in its signature"),
    ("plugins/jax/lax/gather.py", "_CONST_HANDLERS_REGISTERED"): (
        "OBSERVABLE", "process-wide flag guarding a registration on PER-CONTEXT state (ctx._const_folder): only the first "
                      "IRContext of the process that lowers a gather gets the constant-evaluator handlers; request "
                      "c14:gather_const_index_chain; Determinism.v handlers_history_independent_refuted"),
    ("plugins/plugin_system.py", "EXAMPLE_REGISTRY"): ("registry", "docs/test metadata"),
    ("plugins/plugin_system.py", "ONNX_FUNCTION_PLUGIN_REGISTRY"): ("registry", "qualified name -> FunctionPlugin, written by the decorator"),
    ("plugins/plugin_system.py", "PLUGIN_REGISTRY"): ("registry", "primitive name -> plugin, written at import / decoration"),
    ("plugins/plugin_system.py", "INSTANCE_MAP2"): ("memo", "weak id(instance) -> instance, rewritten at every bind before the lowering reads it"),
    ("plugins/plugin_system.py", "_IN_FUNCTION_BUILD"): ("contextvar", "scoped: set before the body trace, restored in finally "
                                                                 "(Determinism.v contextvar_restored_on_every_exit; tie contextvar-restore)"),
    ("plugins/plugin_system.py", "_ONNX_FN_HITS"): ("report", "names of the @onnx_function targets hit, accumulated for test bookkeeping; "
                                                            "conversion_api discards the consumed value"),
    ("plugins/plugin_system.py", "_PATCH_STATE"): ("patch", "reference counts of applied patches (C13)"),
    ("plugins/plugin_system.py", "_RNG_TRACE_REGISTRY"): ("report", "names for CI reporting"),
    ("plugins/plugin_system.py", "_already_imported_plugins"): ("init-flag", "guards the one-time import of the plugin tree, whose effect (the registries) is process-wide too"),
}
CLASS_STATE = {
    "_ABSTRACT_EVAL_BOUND": ("init-flag", "guards def_abstract_eval on the class's primitive, itself process-wide"),
    "_ORIG_CALL": ("patch", "original callable kept for the patch wrapper (C13)"),
    "_ORIG_FORI_LOOP": ("patch", "original callable kept for the patch wrapper (C13)"),
}

MUT = {"add","append","update","pop","setdefault","clear","set","extend","remove","discard","insert","popitem","reset","appendleft"}
def scan_globals(path):
    tree = ast.parse(open(path).read())
    modnames = {}
    for n in tree.body:
        tg, val = [], None
        if isinstance(n, ast.Assign): tg, val = [t.id for t in n.targets if isinstance(t, ast.Name)], n.value
        elif isinstance(n, ast.AnnAssign) and isinstance(n.target, ast.Name): tg, val = [n.target.id], n.value
        for t in tg: modnames[t] = val
    out = {}
    def funcs(body, prefix=""):
        for n in body:
            if isinstance(n, (ast.FunctionDef, ast.AsyncFunctionDef)): yield prefix+n.name, n
            elif isinstance(n, ast.ClassDef): yield from funcs(n.body, prefix+n.name+".")
    for fname, fn in funcs(tree.body):
        local = {a.arg for a in fn.args.args+fn.args.kwonlyargs}
        for x in ast.walk(fn):
            if isinstance(x, ast.Global):
                for nm in x.names: out.setdefault(nm, set()).add(("global", fname))
        # local assignments shadow module names
        assigned = set()
        globs = {nm for x in ast.walk(fn) if isinstance(x, ast.Global) for nm in x.names}
        for x in ast.walk(fn):
            if isinstance(x, (ast.Assign, ast.AnnAssign, ast.AugAssign)):
                tgs = x.targets if isinstance(x, ast.Assign) else [x.target]
                for t in tgs:
                    if isinstance(t, ast.Name) and t.id not in globs: assigned.add(t.id)
        for x in ast.walk(fn):
            nm = None; how = None
            if isinstance(x, ast.Call) and isinstance(x.func, ast.Attribute) and x.func.attr in MUT and isinstance(x.func.value, ast.Name):
                nm, how = x.func.value.id, "."+x.func.attr
            elif isinstance(x, (ast.Assign, ast.AugAssign, ast.Delete)):
                tgs = x.targets if isinstance(x, (ast.Assign, ast.Delete)) else [x.target]
                for t in tgs:
                    if isinstance(t, ast.Subscript) and isinstance(t.value, ast.Name):
                        nm, how = t.value.id, "[]="
            if nm and nm in modnames and nm not in local and nm not in assigned:
                out.setdefault(nm, set()).add((how, fname))
    return out


def unrestored_scoped_writes(path, var):
    """writes `var.set(...)` (or var[...] = / var.add ...) inside functions of `path` that are NOT paired with a restore on
    every exit path: a write must sit in a `finally:` block (it is the restore) or be directly followed by a `try`
    whose `finally:` writes/resets the same variable.  Returns [(function, line)]."""
    tree = ast.parse(open(path).read())

    def touches(node):
        for x in ast.walk(node):
            if isinstance(x, ast.Call) and isinstance(x.func, ast.Attribute) and isinstance(x.func.value, ast.Name) \
                    and x.func.value.id == var and x.func.attr in (MUT | {"reset"}):
                return True
            if isinstance(x, (ast.Assign, ast.AugAssign, ast.Delete)):
                tgs = x.targets if isinstance(x, (ast.Assign, ast.Delete)) else [x.target]
                if any(isinstance(t, ast.Subscript) and isinstance(t.value, ast.Name) and t.value.id == var for t in tgs):
                    return True
        return False

    bad = []

    def walk(block, in_finally, fname):
        for i, st in enumerate(block):
            if isinstance(st, (ast.FunctionDef, ast.AsyncFunctionDef)):
                walk(st.body, False, st.name)
            elif isinstance(st, ast.ClassDef):
                walk(st.body, False, fname)
            elif isinstance(st, ast.Try):
                walk(st.body, in_finally, fname)
                for h in st.handlers:
                    walk(h.body, in_finally, fname)
                walk(st.orelse, in_finally, fname)
                walk(st.finalbody, True, fname)
            elif isinstance(st, (ast.If, ast.For, ast.AsyncFor, ast.While, ast.With, ast.AsyncWith)):
                if isinstance(st, (ast.With, ast.AsyncWith)) and any(touches(it.context_expr) for it in st.items) and not in_finally:
                    bad.append((fname, st.lineno))
                walk(st.body, in_finally, fname)
                walk(getattr(st, "orelse", []), in_finally, fname)
            elif fname is not None and touches(st) and not in_finally:
                nxt = block[i + 1] if i + 1 < len(block) else None
                if not (isinstance(nxt, ast.Try) and nxt.finalbody and any(touches(f) for f in nxt.finalbody)):
                    bad.append((fname, st.lineno))
    walk(tree.body, False, None)
    return bad


def scan_global_state():
    """({(relative file, name): uses}, {class attribute: [files]}) over the whole package (sandbox excluded)"""
    root = os.path.join(REPO, "jax2onnx")
    res, cls_attrs = {}, {}
    for path in sorted(glob.glob(root + "/**/*.py", recursive=True)):
        rel = os.path.relpath(path, root)
        if rel.startswith("sandbox"):
            continue
        try:
            src = open(path).read()
            for nm, uses in scan_globals(path).items():
                res[(rel, nm)] = sorted(uses)
        except SyntaxError:
            continue
        for m in re.finditer(r"(?m)^\s*(?:cls|self\.__class__|type\(self\))\.([A-Za-z_]\w*)\s*(?::[^=\n]+)?=[^=]", src):
            cls_attrs.setdefault(m.group(1), []).append(rel)
    return res, cls_attrs


def counter_scopes():
    """where the three counter families are constructed: {family: (per_conversion?, detail)}"""
    res = {}

    def cls_init_assigns(path, cls, attr):
        tree = ast.parse(open(path).read())
        for c in [n for n in ast.walk(tree) if isinstance(n, ast.ClassDef) and n.name == cls]:
            for m in c.body:
                if isinstance(m, ast.FunctionDef) and m.name == "__init__":
                    for n in ast.walk(m):
                        tgt = n.target if isinstance(n, ast.AnnAssign) else (n.targets[0] if isinstance(n, ast.Assign) else None)
                        if tgt is not None and name_of(tgt) == "self." + attr and isinstance(n.value, ast.Dict) and not n.value.keys:
                            return True
        return False

    def module_level_counters(path):
        tree = ast.parse(open(path).read())
        bad = []
        for n in tree.body:
            tg = []
            if isinstance(n, ast.Assign):
                tg = [t.id for t in n.targets if isinstance(t, ast.Name)]
            elif isinstance(n, ast.AnnAssign) and isinstance(n.target, ast.Name):
                tg = [n.target.id]
            for t in tg:
                if re.search(r"count", t, re.I):
                    bad.append(t)
        return bad

    conv = os.path.join(REPO, "jax2onnx", "converter")
    b_ok = cls_init_assigns(os.path.join(conv, "ir_builder.py"), "IRBuilder", "_counters")
    c_ok = cls_init_assigns(os.path.join(conv, "ir_context.py"), "IRContext", "_name_counters")
    f_ok = cls_init_assigns(os.path.join(conv, "ir_context.py"), "IRContext", "_func_name_counters")
    ctx_src = open(os.path.join(conv, "ir_context.py")).read()
    api_src = open(os.path.join(conv, "conversion_api.py")).read()
    ps_path = os.path.join(REPO, "jax2onnx", "plugins", "plugin_system.py")
    ps_src = open(ps_path).read()
    builder_per_ctx = bool(re.search(r"self\.builder(: *\w+)? *= *IRBuilder\(", ctx_src))
    ctx_per_conv = bool(re.search(r"def _create_ir_context\(", api_src)) and bool(re.search(r"ctx = IRContext\(", api_src)) \
        and bool(re.search(r"ctx = _create_ir_context\(", api_src))
    globs = []
    for path in sorted(glob.glob(os.path.join(conv, "*.py"))) + [ps_path]:
        globs += [os.path.basename(path) + ":" + g for g in module_level_counters(path)]
    # the function-name allocator must read the dict from the context and must not keep module state
    def mutable_globals(tree):
        m = set()
        for n in tree.body:
            tg, val = [], None
            if isinstance(n, ast.Assign):
                tg, val = [t.id for t in n.targets if isinstance(t, ast.Name)], n.value
            elif isinstance(n, ast.AnnAssign) and isinstance(n.target, ast.Name):
                tg, val = [n.target.id], n.value
            if val is not None and not isinstance(val, (ast.Constant, ast.Lambda, ast.Name, ast.Attribute, ast.Tuple, ast.JoinedStr)):
                m.update(tg)
        return m

    def uses_module_state(path, fname, cls=None):
        """names of module-level mutable objects that function `fname` references (and global/nonlocal use)"""
        tree = ast.parse(open(path).read())
        m = mutable_globals(tree)
        hits, seen = set(), False
        for c in ast.walk(tree):
            if isinstance(c, ast.FunctionDef) and c.name == fname:
                seen = True
                for x in ast.walk(c):
                    if isinstance(x, ast.Name) and x.id in m:
                        hits.add(x.id)
                    if isinstance(x, (ast.Global, ast.Nonlocal)):
                        hits.update(x.names)
        return seen, sorted(hits)

    seen_a, st_a = uses_module_state(ps_path, "_allocate_friendly_name")
    seen_b, st_b = uses_module_state(os.path.join(conv, "ir_builder.py"), "fresh_name")
    seen_c, st_c = uses_module_state(os.path.join(conv, "ir_context.py"), "fresh_name")
    tree = ast.parse(ps_src)
    alloc_ok = False
    for n in ast.walk(tree):
        if isinstance(n, ast.FunctionDef) and n.name == "_allocate_friendly_name":
            src = ast.unparse(n)
            alloc_ok = "getattr(ctx, '_func_name_counters'" in src and seen_a and not st_a
    b_ok = b_ok and seen_b and not st_b
    c_ok = c_ok and seen_c and not st_c
    count_globs = list(globs)
    globs += [f"module state used by a name generator: {x}" for x in st_a + st_b + st_c]
    res["builder"] = (b_ok and builder_per_ctx and ctx_per_conv and not count_globs,
                      f"IRBuilder.__init__ sets _counters={{}}: {b_ok}; IRBuilder built in IRContext.__init__: {builder_per_ctx}")
    res["context"] = (c_ok and ctx_per_conv and not count_globs,
                      f"IRContext.__init__ sets _name_counters={{}}: {c_ok}; IRContext built per to_onnx: {ctx_per_conv}")
    res["func"] = (f_ok and alloc_ok and ctx_per_conv and not count_globs,
                   f"IRContext.__init__ sets _func_name_counters={{}}: {f_ok}; _allocate_friendly_name reads it from ctx, no global: {alloc_ok}")
    return res, globs


# ------------------------------------------------------------------------------------------------
# orchestration
# ------------------------------------------------------------------------------------------------
FAIL_KINDS = ["unsupported", "trace-exception", "shape-error", "bad-layout",
              "fn-body-crash:1", "fn-body-crash:2", "fn-body-crash:3", "fn-body-interrupt:1", "fn-body-interrupt:2",
              "cls-body-crash:1", "cls-body-crash:2", "cls-body-crash:3", "nested-fn-body-crash:1", "nested-fn-body-crash:2",
              "control-flow-body-crash", "lowering-crash-top:1", "lowering-crash-top:2", "lowering-crash-function:1",
              "lowering-interrupt-function:1", "lowering-crash-loop:1", "lowering-crash-cond:1", "optimizer-strict-crash"]
MAY_SUCCEED = set()
# after EVERY kind of failed conversion these requests are exported again (job history-failures)
AFTER_FAILURE_REQUESTS = ["c14:function_crashable", "c14:function_two_call_params", "x:nested_onnx_functions",
                          "x:two_function_instances", "x:cond_in_while", "x:symbolic_matmul"]


def request_set(tier):
    reqs = all_requests() + list(PASS_GRAPHS)
    if tier == "quick":
        reqs = [r for r in reqs if "DepthToSpaceResNet" not in r]
    return reqs


def make_jobs(ctx, reqs):
    rng = ctx.rng
    quick = ctx.tier == "quick"
    jobs = []
    seeds = list(SEEDS_FIXED)
    n_seeds = 8 if quick else 64
    while len(seeds) < n_seeds:
        x = rng.randrange(0, 2 ** 32)
        if x not in seeds:
            seeds.append(x)
    plain = [["export", r] for r in reqs]
    for sd in seeds:
        jobs.append({"id": f"seed-{sd}", "kind": "hashseed", "hashseed": sd,
                     "steps": plain + ([["ties"]] if sd == 0 else [])})
    for h in range(2 if quick else 6):
        hr = __import__("random").Random(rng.randrange(2 ** 31))
        steps = []
        order = list(reqs)
        hr.shuffle(order)
        first = FIRST_REQUESTS[h] if h < len(FIRST_REQUESTS) and FIRST_REQUESTS[h] in order else None
        if first:
            order.remove(first)
            order.insert(0, first)
        ctr = 0
        for r in order:                                   # pass 1: random prefix, then the request 3x
            for _ in range(0 if r == first else hr.choice([0, 1, 1, 2])):
                ctr += 1
                k = hr.random()
                if k < 0.45:
                    steps.append(["fail", hr.choice(FAIL_KINDS)])
                elif k < 0.75:
                    steps.append(["filler", ctr])
                else:
                    steps.append(["export", hr.choice(reqs), "history"])
            steps += [["export", r, "rep"], ["export", r, "rep"], ["export", r, "rep"]]
        hr.shuffle(order)
        for r in order:                                   # pass 2: another position
            if hr.random() < 0.4:
                steps.append(["fail", hr.choice(FAIL_KINDS)])
            steps.append(["export", r])
        jobs.append({"id": f"history-{h}", "kind": "history", "hashseed": 0, "steps": steps})
    # every kind of failed conversion directly BEFORE the requests that share state with it
    steps = []
    after = [r for r in AFTER_FAILURE_REQUESTS if r in reqs]
    for fk in FAIL_KINDS:
        steps.append(["fail", fk])
        steps += [["export", r] for r in after]
    steps += [["export", r] for r in reqs]
    jobs.append({"id": "history-failures", "kind": "history", "hashseed": 0, "steps": steps})
    for i in range(1 if quick else 3):
        jobs.append({"id": f"import-order-{i}", "kind": "import-order", "hashseed": 0,
                     "import_order": rng.randrange(2 ** 31), "steps": plain})
    if not quick:      # builtin order, traced (quick tier: the site trace comes from the forced-order jobs)
        jobs.append({"id": "set-order-natural", "kind": "trace", "hashseed": 0, "set_order": "natural", "steps": plain})
    jobs.append({"id": "set-order-insertion", "kind": "set-order", "hashseed": 0, "set_order": "insertion", "steps": plain})
    jobs.append({"id": "set-order-reverse", "kind": "set-order", "hashseed": 0, "set_order": "reverse", "steps": plain})
    for i in range(1 if quick else 4):
        jobs.append({"id": f"set-order-shuffle-{i}", "kind": "set-order", "hashseed": 0, "set_order": "shuffle",
                     "set_order_seed": rng.randrange(2 ** 31), "steps": plain})
    return jobs


def run_job(job, work, timeout):
    jp = os.path.join(work, job["id"] + ".job.json")
    job = dict(job, out=os.path.join(work, job["id"] + ".out.json"), save_dir=os.path.join(work, "save"))
    with open(jp, "w") as fh:
        json.dump(job, fh)
    env = dict(os.environ)
    env["PYTHONHASHSEED"] = str(job["hashseed"])
    env["JAX_PLATFORMS"] = "cpu"
    env["PYTHONPATH"] = HERE + os.pathsep + env.get("PYTHONPATH", "")
    env.pop("JAX2ONNX_ENABLE_STACKTRACE_METADATA", None)
    for k in ("OMP_NUM_THREADS", "OPENBLAS_NUM_THREADS", "MKL_NUM_THREADS"):      # many workers run side by side
        env.setdefault(k, "2")
    t = time.time()
    try:
        p = subprocess.run([sys.executable, os.path.abspath(__file__), "--worker", jp], env=env, cwd=work,
                           stdout=subprocess.PIPE, stderr=subprocess.STDOUT, timeout=timeout, text=True)
        log = p.stdout[-1500:]
        rc = p.returncode
    except subprocess.TimeoutExpired:
        log, rc = f"timeout after {timeout}s", 124
    res = None
    if rc == 0 and os.path.exists(job["out"]):
        res = json.load(open(job["out"]))
    return job, res, rc, log, round(time.time() - t, 1)


def outcome(r):
    return r["digest"] if r.get("digest") else "error:" + (r.get("error") or "?").split(":")[0]


def setting_of(job, pos=None):
    d = {"job": job["id"], "PYTHONHASHSEED": job["hashseed"]}
    for k in ("import_order", "set_order", "set_order_seed"):
        if job.get(k) is not None:
            d[k] = job[k]
    if pos is not None:
        d["position"] = pos
        d["steps"] = job["steps"][: pos + 1]
    else:
        d["steps"] = job["steps"]
    return d


def first_difference(pa, pb, req):
    """name the first differing field of two serialised protos"""
    try:
        import onnx
        cls = onnx.GraphProto if req.startswith("graph:") else onnx.ModelProto
        a, b = cls(), cls()
        a.ParseFromString(open(pa, "rb").read())
        b.ParseFromString(open(pb, "rb").read())
    except Exception as e:  # noqa
        return f"(could not parse: {e})"

    def short(v):
        s_ = repr(v)
        return s_ if len(s_) < 80 else s_[:77] + "..."

    def walk(x, y, path):
        for fd in x.DESCRIPTOR.fields:
            vx, vy = getattr(x, fd.name), getattr(y, fd.name)
            pth = f"{path}.{fd.name}" if path else fd.name
            rep = fd.is_repeated if hasattr(fd, "is_repeated") else (fd.label == fd.LABEL_REPEATED)
            if rep:
                for i in range(min(len(vx), len(vy))):
                    if fd.type == fd.TYPE_MESSAGE:
                        lab = pth + f"[{i}]"
                        nm = getattr(vx[i], "name", None)
                        if isinstance(nm, str) and nm:
                            lab += f"<{nm}>"
                        d = walk(vx[i], vy[i], lab)
                        if d:
                            return d
                    elif vx[i] != vy[i]:
                        return f"{pth}[{i}]: {short(vx[i])} vs {short(vy[i])}"
                if len(vx) != len(vy):
                    return f"{pth}: {len(vx)} vs {len(vy)} entries"
            elif fd.type == fd.TYPE_MESSAGE:
                hx, hy = x.HasField(fd.name), y.HasField(fd.name)
                if hx != hy:
                    return f"{pth}: present={hx} vs present={hy}"
                if hx:
                    d = walk(vx, vy, pth)
                    if d:
                        return d
            elif vx != vy:
                return f"{pth}: {short(vx)} vs {short(vy)}"
        return None
    return walk(a, b, "") or "(serialisations differ, parsed protos agree field by field)"


def run(ctx):
    import common
    import concurrent.futures as cf
    quick = ctx.tier == "quick"
    ctx.level = "proof"
    ctx.trusted_base = [
        "Coq 8.16.1 kernel; vm_compute (no native_compute); no axioms (every theorem closed under the global context)",
        "Determinism.v models of the per-element actions (hand-written from ir_optimizations.py / plugin_system.py; "
        "tied to the source only by the AST site scan and the runtime site trace, not translated)",
        "NOT modelled, covered by the subprocess sweep only: CPython set/dict hash order, id() values, memory layout, "
        "onnx_ir's per-value use order (Value.consumers()), onnx_ir common passes (CSE, NameFix, DCE, lift constants), "
        "protobuf deterministic serialisation",
        "harness/c14.py OSet (a set subclass with chosen iteration order) as a faithful stand-in for a legal set order",
    ]
    ctx.assumptions = [
        "the sequence of fresh-name requests of a conversion is a function of the request (checked end to end by the digests only)",
        "inspect.signature of a lowering is a function of the function object used as cache key",
        "every permutation of a set's members is a legal CPython iteration order (sets of id-hashed nodes; string sets under PYTHONHASHSEED)",
    ]
    common.build_props(ctx, "C14", [])

    # ---------------- tie: every set-iteration site of the source is a modelled one
    found = scan_sites()
    counts = {}
    for (f, fn, var, how, ln, kind) in found:
        counts[(f, fn, var, how)] = counts.get((f, fn, var, how), 0) + 1
    unmodelled = []
    n_sorted = 0
    for k, n in sorted(counts.items()):
        if k[3] in ("sorted", "anyall"):
            # sorted(<set>) without key: the canonical list of C14_sorted_canonical, whatever the set's order;
            # any()/all() of a read-only predicate: C14_any_all_over_set_order_irrelevant
            n_sorted += n
            continue
        if k not in MODELLED_SITES:
            unmodelled.append(k)
            ctx.oblige(f"unmodelled set iteration: {k[0]}:{k[1]}:{k[2]} ({k[3]})", False, "tie",
                       f"lines {[x[4] for x in found if x[:4] == k]}")
        elif k in MODELLED_LOOP_COUNTS and n != MODELLED_LOOP_COUNTS[k]:
            unmodelled.append(k)
            ctx.oblige(f"unmodelled set iteration: {k[0]}:{k[1]}:{k[2]} ({n} loops, {MODELLED_LOOP_COUNTS[k]} modelled)", False, "tie",
                       f"lines {[x[4] for x in found if x[:4] == k]}")
    extra_calls = {}
    for k, calls in sorted(LOOP_CALLS.items()):
        extra = sorted(calls - MODELLED_LOOP_CALLS.get(k, set())) if k in MODELLED_LOOP_CALLS else []
        if extra:
            extra_calls[":".join(k)] = extra
    ctx.oblige("tie:set-loop-bodies-perform-only-modelled-actions", not extra_calls, "tie",
               "" if not extra_calls else f"calls inside a loop over a set that the model of that loop does not cover: {extra_calls}")
    gone = [k for k in MODELLED_SITES if k not in counts]
    ctx.oblige(f"tie:ast-set-iteration-sites-all-modelled({len(counts)} sites, {len(found)} loops/calls, {n_sorted} of them sorted(<set>) / any() / all())",
               not unmodelled, "tie", "" if not unmodelled else f"new: {unmodelled}")
    ctx.oblige("tie:modelled-sites-exist-in-source", not gone, "tie", "" if not gone else f"modelled but not found: {gone}")
    line2site = {(f[:-3] + ":" + fn.split(".")[-1], ln): (f, fn, var, how) for (f, fn, var, how, ln, kind) in found}

    # ---------------- tie: every piece of process-global state written by the package is classified
    gstate, cstate = scan_global_state()
    new_g = sorted(k for k in gstate if k not in GLOBAL_STATE)
    new_c = sorted(k for k in cstate if k not in CLASS_STATE)
    for k in new_g:
        ctx.oblige(f"unclassified process-global state: {k[0]}:{k[1]}", False, "tie", f"written by {gstate[k][:4]}")
    for k in new_c:
        ctx.oblige(f"unclassified class-level state: cls.{k}", False, "tie", f"assigned in {sorted(set(cstate[k]))[:4]}")
    ctx.oblige(f"tie:process-global-state-all-classified({len(gstate)} module objects, {len(cstate)} class attributes)",
               not new_g and not new_c, "tie", "" if not (new_g or new_c) else f"new: {new_g} {new_c}")
    # scoped state: every write is paired with a restore in a `finally:` (normal AND exceptional exit)
    unrestored = {}
    n_scoped = 0
    for (rel, nm), (cls_, _why) in sorted(GLOBAL_STATE.items()):
        if cls_ == "contextvar" and (rel, nm) in gstate:
            n_scoped += 1
            b = unrestored_scoped_writes(os.path.join(REPO, "jax2onnx", rel), nm)
            if b:
                unrestored[f"{rel}:{nm}"] = b
    ctx.oblige(f"tie:contextvar-restore-on-every-exit-path({n_scoped} scoped variables)", not unrestored, "tie",
               "" if not unrestored else f"writes without a restore in a finally block (function, line): {unrestored}")
    ctx.coverage["process_global_state"] = {f"{k[0]}:{k[1]}": (GLOBAL_STATE.get(k, ("UNCLASSIFIED", ""))[0]) for k in sorted(gstate)}
    ctx.coverage["process_global_state_classified_but_absent"] = sorted(f"{k[0]}:{k[1]}" for k in GLOBAL_STATE if k not in gstate)

    # ---------------- tie: counters feeding names are constructed per conversion
    scopes, globs = counter_scopes()
    for fam, (ok, detail) in scopes.items():
        ctx.oblige(f"tie:counter-scope:{fam}-is-per-conversion", ok, "tie", detail + (f"; module-level counter-like globals: {globs}" if globs else ""))

    # ---------------- the property on the real code
    reqs = request_set(ctx.tier)
    jobs = make_jobs(ctx, reqs)
    os.makedirs(os.path.join(ctx.work, "save"), exist_ok=True)
    timeout = 900 if quick else 2400
    results = {}
    t0 = time.time()
    with cf.ThreadPoolExecutor(max_workers=14) as ex:
        for job, res, rc, log, dt in ex.map(lambda j: run_job(j, ctx.work, timeout), jobs):
            results[job["id"]] = (job, res, dt)
            if res is None:
                ctx.oblige(f"worker:{job['id']}", False, "tie", f"rc={rc} {log}")
    sweep_s = round(time.time() - t0, 1)
    done = {k: v for k, v in results.items() if v[1] is not None}
    if "seed-0" not in done:
        ctx.oblige("worker:baseline", False, "tie", "baseline job seed-0 did not complete")
        return ctx
    base_job, base_res, _ = done["seed-0"]
    base = {r["req"]: outcome(r) for r in base_res["results"]}
    base_pos = {r["req"]: r["pos"] for r in base_res["results"]}
    save = os.path.join(ctx.work, "save")
    keep_dir = os.path.join(common.VERIF, "replays", "C14", "protos")

    ties = base_res.get("ties") or {}
    for nm in ("fresh_names_restart_per_context", "func_counters_fresh_per_context", "signature_cache_transparent"):
        ok, detail = ties.get(nm, [False, "tie step did not run"])
        ctx.oblige(f"tie:{nm}", ok, "tie", detail)

    compared = 0
    reported = set()
    sensitive = {}

    def report(req, dim, sa, oa, sb, ob):
        if (req, dim) in reported:
            return
        reported.add((req, dim))
        sensitive.setdefault(req, []).append(dim)
        what = f"request {req}: outcome differs along '{dim}' ({sa['job']} -> {oa[:12]}, {sb['job']} -> {ob[:12]})"
        files = {}
        if not oa.startswith("error:") and not ob.startswith("error:"):
            pa, pb = os.path.join(save, oa + ".onnx"), os.path.join(save, ob + ".onnx")
            what += "; first differing field: " + first_difference(pa, pb, req)
            files = {"a": pa, "b": pb}
        ctx.violate(f"nondeterministic:{req}:{dim}", what,
                    {"request": req, "dimension": dim, "a": dict(sa, outcome=oa), "b": dict(sb, outcome=ob), "_files": files})

    n_hist_positions = 0
    for jid, (job, res, dt) in sorted(done.items()):
        kind = job["kind"]
        dim = {"hashseed": "hashseed", "history": "history", "import-order": "import-order", "set-order": "set-order",
               "trace": None}[kind]
        by_req = {}
        for r in res["results"]:
            by_req.setdefault(r["req"], []).append(r)
        if kind == "history":
            # repeat: the three consecutive exports
            steps = job["steps"]
            for req, rs in by_req.items():
                reps = [r for r in rs if len(steps[r["pos"]]) > 2 and steps[r["pos"]][2] == "rep"]
                n_hist_positions += len(rs)
                if reps:
                    o0 = outcome(reps[0])
                    for r in reps[1:]:
                        compared += 1
                        if outcome(r) != o0:
                            report(req, "repeat", setting_of(job, reps[0]["pos"]), o0, setting_of(job, r["pos"]), outcome(r))
                            break
        ref_job, ref, ref_pos = base_job, base, base_pos
        if kind in ("set-order", "trace"):
            # forced orders are compared with each other (reference: insertion order), so that anything the
            # instrumented set class might change besides the order cancels out
            dim = "set-order"
            if jid == "set-order-insertion" or "set-order-insertion" not in done:
                continue
            ref_job = done["set-order-insertion"][0]
            ref = {r["req"]: outcome(r) for r in done["set-order-insertion"][1]["results"]}
            ref_pos = {r["req"]: r["pos"] for r in done["set-order-insertion"][1]["results"]}
        for req, rs in by_req.items():
            if req not in ref:
                continue
            for r in rs:
                compared += 1
                if outcome(r) != ref[req]:
                    report(req, dim, setting_of(ref_job, ref_pos[req]), ref[req], setting_of(job, r["pos"]), outcome(r))
                    break

    # keep the protos of reported differences for the replay
    known = {(k["property"], k["key"]) for k in common.load_known() if k.get("status") == "known"}
    for v in ctx.violations:
        fl = v["replay"].pop("_files", {})
        kept = {}
        for k, pth in fl.items():
            if os.path.exists(pth) and (ctx.prop, v["key"]) not in known:
                os.makedirs(keep_dir, exist_ok=True)
                dst = os.path.join(keep_dir, os.path.basename(pth))
                if not os.path.exists(dst):
                    import shutil
                    shutil.copyfile(pth, dst)
                kept[k] = dst
        v["replay"]["protos"] = kept

    # ---------------- which sites were exercised (runtime trace of the real passes)
    found_after = scan_sites()           # the tree may have been edited while the workers ran: accept both line maps
    if found_after != found:
        ctx.coverage["source_changed_during_run"] = True
        for (f, fn, var, how, ln, kind) in found_after:
            line2site.setdefault((f[:-3] + ":" + fn.split(".")[-1], ln), (f, fn, var, how))
    site_max = {}
    seen_lines = {}
    runtime_unmodelled = []
    for jid, (job, res, dt) in done.items():
        if not job.get("set_order"):
            continue
        for (fk, ln, n_it, n_it2, mx) in res.get("sites", []):
            site = line2site.get((fk, ln))
            if site is None:
                runtime_unmodelled.append((fk, ln))
                continue
            key = f"{site[0]}:{site[1]}:{site[2]}:{ln}"
            site_max[key] = max(site_max.get(key, 0), mx)
            seen_lines.setdefault((site[0], site[1], site[2]), set()).add(ln)
    ctx.oblige("tie:runtime-set-iterations-all-modelled", not runtime_unmodelled, "tie",
               "" if not runtime_unmodelled else f"sets created by set() in the converter core were iterated at unmodelled places: {sorted(set(runtime_unmodelled))}")
    for (fk, ln) in sorted(set(runtime_unmodelled)):
        ctx.oblige(f"unmodelled set iteration: {fk}:{ln}", False, "tie", "observed at run time")
    all_site_keys = [f"{f}:{fn}:{var}:{ln}" for (f, fn, var, how, ln, kind) in (found_after if found_after != found else found)
                     if kind == "set"]
    exercised2 = sorted(k for k in all_site_keys if site_max.get(k, 0) >= 2)
    not_ex = sorted(k for k in all_site_keys if site_max.get(k, 0) < 2)
    per_req_sites = {}
    tr = done.get("set-order-natural") or done.get("set-order-insertion")
    if tr:
        for r in tr[1]["results"]:
            for (fk, ln, n) in r.get("sites", []):
                if n >= 2 and (fk, ln) in line2site:
                    per_req_sites.setdefault(f"{fk}:{ln}", []).append(r["req"])

    fails = {}
    for jid, (job, res, dt) in done.items():
        for f in res.get("failures", []):
            fails.setdefault(f["kind"], set()).add(str(f["raised"]))
    not_failing = sorted(k for k, v in fails.items() if "None" in v and k != "filler" and k not in MAY_SUCCEED)
    ctx.oblige("tie:history-failing-conversions-do-fail", not not_failing, "tie",
               "" if not not_failing else f"conversions meant to fail succeeded: {not_failing}")

    n_err = sum(1 for v in base.values() if v.startswith("error:"))
    ctx.coverage.update({
        "level_detail": "proof, partial: every set-iteration site of the current source (after /repo 77c9ea7) has a proved order-irrelevance "
                        "theorem; the two shapes that code had before (S8, S14) stay refuted with partial versions as documentation; "
                        "seeds/histories/import orders/set orders explored on the real code",
        "requests": len(reqs), "request_list": reqs, "requests_failing_deterministically": n_err,
        "failing_requests": {k: v for k, v in base.items() if v.startswith("error:")},
        "hash_seeds": sorted(j["hashseed"] for j, r, d in done.values() if j["kind"] == "hashseed"),
        "histories": sum(1 for j, r, d in done.values() if j["kind"] == "history"),
        "history_export_positions": n_hist_positions,
        "import_orders": sum(1 for j, r, d in done.values() if j["kind"] == "import-order"),
        "forced_set_orders": sorted(j["id"] for j, r, d in done.values() if j["kind"] in ("set-order", "trace")),
        "subprocesses": len(done), "digests_compared": compared, "evaluations": compared,
        "distinct_nontrivial": len({o for j, r, d in done.values() for x in r["results"] for o in [outcome(x)] if not o.startswith("error:")}),
        "rule": "one evaluation = one export outcome compared with the baseline outcome (PYTHONHASHSEED=0, canonical order) of the same "
                "request, or with the first of its 3 consecutive repeats; non-trivial = distinct successful model digest",
        "set_iteration_sites_in_source": len(all_site_keys),
        "sites_exercised_with_>=2_members": exercised2,
        "sites_not_exercised_with_>=2_members": not_ex,
        "site_max_members": site_max,
        "requests_exercising_site_with_>=2_members": {k: v[:6] for k, v in sorted(per_req_sites.items())},
        "order_sensitive_requests": {k: sorted(set(v)) for k, v in sorted(sensitive.items())},
        "failing_history_conversions": {k: sorted(v) for k, v in fails.items()},
        "sweep_wall_s": sweep_s, "job_wall_s": {k: d for k, (j, r, d) in sorted(done.items())},
        "modelled_sites": {":".join(k): list(v) for k, v in MODELLED_SITES.items()},
        "exhaustive": False,
    })
    ctx.samples = [{"request": r, "outcome": base[r][:16]} for r in reqs[:8]] + \
                  [{"violation": v["key"], "what": v["what"][:200]} for v in ctx.violations[:4]]
    return ctx


def replay(path):
    """re-run the two settings of a reported difference (each in a fresh subprocess) and compare"""
    import tempfile
    rep = json.load(open(path))["replay"]
    work = tempfile.mkdtemp(prefix="c14-replay-")
    os.makedirs(os.path.join(work, "save"), exist_ok=True)
    outs = {}
    for tries in range(3):
        for side in ("a", "b"):
            st = rep[side]
            job = {"id": f"{side}{tries}", "kind": "replay", "hashseed": st["PYTHONHASHSEED"], "steps": st["steps"],
                   "import_order": st.get("import_order"), "set_order": st.get("set_order"),
                   "set_order_seed": st.get("set_order_seed", 0)}
            job, res, rc, log, dt = run_job(job, work, 1800)
            if res is None:
                print("worker failed:", log)
                return 2
            pos = st.get("position", None)
            rs = [r for r in res["results"] if r["req"] == rep["request"] and (pos is None or r["pos"] == pos)]
            outs.setdefault(side, set()).add(outcome(rs[-1]))
        print(f"try {tries}: a={sorted(outs['a'])} b={sorted(outs['b'])}")
        if len(outs["a"] | outs["b"]) > 1:
            print(f"request {rep['request']} is not deterministic along {rep['dimension']}")
            return 1
    print("both settings agree now")
    return 0


if __name__ == "__main__":
    if len(sys.argv) == 3 and sys.argv[1] == "--worker":
        worker(sys.argv[2])
        sys.exit(0)
    sys.exit(2)
