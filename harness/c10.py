"""C10 — JAX transformations commute with export.

Proofs (coq/props/C10.v):
  Batch.v   the shared broadcasting batch rule (broadcast_batcher_compat + _handle_scalar_broadcasting) against the
            DEFINITION of vmap: proved for ALL shapes for the current helper (axes after the batch axis, c32db30);
            history: refuted for the old helper (witness), proved on the exact fragment where it was right; the hypothesis "elementwise
            with numpy broadcasting" is shown to be necessary (jnp.dot / jnp.matmul register the same rule).
  Inline.v  _freshen_closed_jaxpr as alpha-renaming + JitPlugin.lower (= custom_jvp_call/custom_vjp_call/remat2
            body lowering): same graph / same outer bindings as lowering the body directly, no clash between two
            inlinings.
  Linear.v  every name of _LINEAR_TRANSPOSE_FALLBACK_ALLOWLIST denotes a function that is linear in its
            differentiable operands; forwarding pairs relate primitives of the same family (lists translated from
            the current source, gen/GenAutodiff.v).
Ties:
  D(batcher)  the REAL broadcast_batcher_compat is driven directly (numpy integer operands, a recording primitive
              with numpy broadcasting) on generated (shapes, batch dims); result shape / batch dim / values /
              raises are compared INSIDE Coq with the model of the current code (Batch.batcher_fixed; Batch.batcher is
              the historical helper, kept with its refutation), and Batch.vmap_spec with numpy's stack-of-examples.
  D(reduce)   the REAL _softmax_batch_rule / _standardize_batch_rule, driven with the original jax.nn function replaced by an
              integer fiber kernel, against Batch.softmax_rule / Batch.reduce_rule inside Coq.
  D(inline)   real _freshen_closed_jaxpr on traced jaxprs is an injective, fresh renaming that keeps structure;
              the four body-lowering plugins have the statement shape of Lowering.inline_plugin (AST).
  D(linear)   the real jax.numpy functions named in the allow-list are linear on integer data and have the
              modelled form (gather / concatenation / select).
  D(prod)     Linear.ProdJvp (three-case tangent = product rule, proved) against jax.jvp(jnp.prod) on integer slices.
  Inventory   every plugin registering a HAND-WRITTEN jvp/transpose rule (AST scan, gen/GenAutodiff.v) has a boundary program family
              here (grad/jvp/vjp/vmap-of-grad on the case splits of its rule); derived/forwarded rules are JAX's own.
  D(reduce2)  the REAL register_reduction_batch_rule closures (jnp.sum/max/min/amax/amin/any/all) against Batch.reduction_batch_rule
              (axis lists, None, keepdims both ways, every batch dim); register_jvp_via_jax_jvp AST-tied to `jax.jvp of the original`.
  Second order: grad.grad, jacfwd.grad, jvp.jvp, vmap.grad.grad, mixed partials and gradient penalties through derived-rule primitives.
Exploration + search (the property on the real code): T(f) for ~30 functions f and ~20 transformations T is
exported with the real to_onnx, run with onnxruntime and compared with T(f) evaluated by JAX."""
import ast
import inspect
import json
import os
import re
import textwrap
import time
import warnings

import numpy as np

import common
from common import zlit

warnings.simplefilter("ignore")

GEN_UNITS = ["GenAutodiff"]
RTOL, ATOL = 1e-4, 1e-5
REG_RTOL, REG_ATOL = 1e-3, 1e-3


# ===================================================================== tie D: the batcher
class _RecPrim:
    """stands for a substitute jax.numpy primitive: an elementwise map with numpy broadcasting"""
    multiple_results = False

    def __init__(self):
        self.shapes = None

    def bind(self, *a, **k):
        a = [np.asarray(x) for x in a]
        self.shapes = [tuple(x.shape) for x in a]
        return a[0] * 1000 + a[1]          # not commutative: operand confusion is visible


def _np_vmap_ref(x, dx, y, dy):
    B = x.shape[dx] if dx is not None else y.shape[dy]
    outs = []
    for b in range(B):
        xb = np.take(x, b, axis=dx) if dx is not None else x
        yb = np.take(y, b, axis=dy) if dy is not None else y
        outs.append(xb * 1000 + yb)
    return np.stack(outs)


def _gen_batch_cases(rng, n):
    """(sx, dx, sy, dy): full operand shapes and batch dims; per-example shapes are numpy-compatible"""
    cases = []
    fixed = [((3, 3), 0, (3, 3), None),               # witness (1)
             ((3, 3), 1, (3, 3), None), ((3,), 0, (3, 3), None), ((3, 3), None, (3, 3), 0),
             ((2, 3), 0, (2, 2, 3), 0), ((2, 3), 0, (2, 3), 0), ((2, 3), 1, (2, 3), 1), ((2, 3), 1, (3, 2), 0),
             ((3, 2), 0, (), None), ((), None, (2, 3), 1), ((3,), 0, (3,), 0), ((2, 1), 0, (2, 3, 4), 0),
             ((2, 1, 1), 0, (3, 2, 2), 1), ((2, 3), 0, (4, 3), None), ((2, 3), 0, (1, 3), None),
             ((2, 3), 0, (2, 4, 3), 0), ((3, 2), 1, (4, 3), None),
             # identical (square) operand shapes mapped along DIFFERENT axes: must not take the "agreeing dims" fast path
             ((3, 3), 0, (3, 3), 1), ((3, 3), 1, (3, 3), 0), ((2, 2, 2), 0, (2, 2, 2), 2), ((2, 2, 2), 2, (2, 2, 2), 1),
             ((2, 2), 1, (2, 2), 0), ((3, 3, 3), 1, (3, 3, 3), 0), ((2, 2), 0, (2, 2), 0), ((3, 3), 1, (3, 3), 1)]
    cases += fixed
    while len(cases) < n:
        B = rng.choice([1, 2, 3])
        r_out = rng.randint(0, 3)
        out = [rng.choice([1, 2, 3, 2, 3]) for _ in range(r_out)]

        def operand():
            r = rng.randint(0, r_out)
            s = [d if rng.random() < 0.7 else 1 for d in out[r_out - r:]] if r else []
            return s
        px, py = operand(), operand()
        if rng.random() < 0.2:                     # same cubic shape, independent batch dims
            r = rng.randint(1, 3)
            m = rng.choice([2, 3])
            cases.append(((m,) * r, rng.randint(0, r - 1), (m,) * r, rng.randint(0, r - 1)))
            continue
        mode = rng.choice(["xy", "x", "y", "xy"])
        dx = dy = None
        sx, sy = list(px), list(py)
        if "x" in mode:
            dx = rng.randint(0, len(px))
            sx.insert(dx, B)
        if "y" in mode:
            dy = rng.randint(0, len(py))
            sy.insert(dy, B)
        if max(int(np.prod(sx)) if sx else 1, int(np.prod(sy)) if sy else 1) * B > 400:
            continue
        cases.append((tuple(sx), dx, tuple(sy), dy))
    return cases


def _natlist(l):
    return "([" + "; ".join(str(int(x)) for x in l) + "]%nat : list nat)"


def _zl(l):
    return "[" + "; ".join(zlit(x) for x in l) + "]"


def _optnat(d):
    return "None" if d is None else f"(Some {int(d)}%nat)"


def tie_batcher(ctx):
    from jax2onnx.plugins.jax._batching_utils import broadcast_batcher_compat
    rng = ctx.rng
    # which model must the real code agree with?  probe witness (1)
    x = np.arange(9).reshape(3, 3)
    y = np.arange(9).reshape(3, 3) * 10
    out, od = broadcast_batcher_compat(_RecPrim(), (x, y), (0, None))
    fixed_code = bool(np.array_equal(np.moveaxis(np.asarray(out), od, 0), _np_vmap_ref(x, 0, y, None)))
    # the model of the CURRENT code is Batch.batcher_fixed (commit c32db30); Batch.batcher images the historical helper.
    # A tree that behaves like the historical helper fails this tie and the search below reports the concrete operands.
    model = "batcher_fixed"
    ctx.coverage["batcher_variant_on_this_tree"] = "axes-after-batch (current)" if fixed_code else "axes-at-end (historical helper: regression)"
    n = 100 if ctx.tier == "quick" else 600
    cases = _gen_batch_cases(rng, n)
    rows = []
    wrong = []
    n_raise = 0
    for (sx, dx, sy, dy) in cases:
        xa = np.asarray([rng.randint(0, 9) for _ in range(int(np.prod(sx)) if sx else 1)], dtype=np.int64).reshape(sx)
        ya = np.asarray([rng.randint(0, 9) for _ in range(int(np.prod(sy)) if sy else 1)], dtype=np.int64).reshape(sy)
        ref = _np_vmap_ref(xa, dx, ya, dy)
        prim = _RecPrim()
        try:
            out, od = broadcast_batcher_compat(prim, (xa, ya), (dx, dy))
            out = np.asarray(out)
            real = (list(out.shape), int(od), [int(v) for v in out.reshape(-1)])
            if not (out.ndim > od and np.array_equal(np.moveaxis(out, od, 0), ref)):
                wrong.append(((sx, dx, sy, dy), list(np.moveaxis(out, od, 0).shape) if out.ndim > od else list(out.shape), list(ref.shape)))
        except (ValueError, TypeError) as e:      # the recording primitive's numpy broadcasting refused the shapes
            real = None
            n_raise += 1
            wrong.append(((sx, dx, sy, dy), "raises " + type(e).__name__, list(ref.shape)))
        rows.append((sx, dx, sy, dy, xa, ya, real, ref))
    # inside Coq: model result == real result ; vmap_spec == numpy stack of examples
    hdr = common.CASES_HEADER + "From J2O Require Import Tensor Batch.\n"
    hdr += ("Definition opz (a b : Z) : Z := (a * 1000 + b)%Z.\n"
            "Definition zl_eqb := list_eqb Z.eqb.\n"
            "Definition compatp (x y : tensor Z) : tensor Z := mkT ([] : list nat) (fun _ => if bcompatb (shape x) (shape y) then 1%Z else 0%Z).\n"
            "Record bcase := mkC { sx : list nat; dx : option nat; datx : list Z; sy : list nat; dy : option nat; daty : list Z;\n"
            "  raises : bool; rshape : list nat; rod : nat; rflat : list Z; refshape : list nat; refflat : list Z }.\n"
            f"Definition model_ok (c : bcase) : bool :=\n"
            f"  let x := of_flat (sx c) (datx c) in let y := of_flat (sy c) (daty c) in\n"
            f"  match {model} compatp x (dx c) y (dy c), {model} (tmap2b opz) x (dx c) y (dy c) with\n"
            f"  | Some (k, _), Some (r, od) =>\n"
            f"      if Z.eqb (at_ k []) 1 then negb (raises c) && nat_list_eqb (shape r) (rshape c) && Nat.eqb od (rod c) && zl_eqb (flat r) (rflat c)\n"
            f"      else raises c\n"
            f"  | _, _ => false end.\n"
            "Definition spec_ok (c : bcase) : bool :=\n"
            "  let x := of_flat (sx c) (datx c) in let y := of_flat (sy c) (daty c) in\n"
            "  let v := vmap_spec (tmap2b opz) x (dx c) y (dy c) in\n"
            "  nat_list_eqb (shape v) (refshape c) && zl_eqb (flat v) (refflat c).\n")

    def render(chunk, off):
        items = []
        for (sx, dx, sy, dy, xa, ya, real, ref) in chunk:
            rs, rd, rf = real if real is not None else ([], 0, [])
            items.append(f"mkC {_natlist(sx)} {_optnat(dx)} {_zl(xa.reshape(-1))} {_natlist(sy)} {_optnat(dy)} {_zl(ya.reshape(-1))} "
                         f"{common.blit(real is None)} {_natlist(rs)} {rd}%nat {_zl(rf)} {_natlist(ref.shape)} {_zl(ref.reshape(-1))}")
        return ("Definition cs : list bcase := [" + ";\n ".join(items) + "].\n"
                "Eval vm_compute in bad_idx_ model_ok 0%nat cs.\nEval vm_compute in bad_idx_ spec_ok 0%nat cs.\n")
    res = common.coq_eval_batches(ctx, "c10_batcher", hdr, rows, render, per_file=35)
    bad_model, bad_spec, broke = [], [], None
    for k, (ok, out) in enumerate(res):
        lists = re.findall(r"=\s*(\[[^\]]*\]|nil)\s*:\s*list nat", out.replace("\n", " "))
        if not ok or len(lists) != 2:
            broke = out[-1200:]
            continue
        for tgt, l in zip((bad_model, bad_spec), lists):
            if l not in ("nil", "[]"):
                tgt += [k * 35 + int(v.replace("%nat", "")) for v in l.strip("[]").split(";") if v.strip()]
    desc = lambda i: {"x_shape": rows[i][0], "x_bdim": rows[i][1], "y_shape": rows[i][2], "y_bdim": rows[i][3],
                      "real": None if rows[i][6] is None else [rows[i][6][0], rows[i][6][1]]}
    ctx.oblige(f"tie:batcher-model({model})-equals-real-broadcast_batcher_compat({len(rows)} cases)", broke is None and not bad_model, "tie",
               broke or ("" if not bad_model else f"model and implementation differ on {[desc(i) for i in bad_model[:4]]}"))
    ctx.oblige(f"tie:vmap_spec-equals-numpy-stack-of-examples({len(rows)} cases)", broke is None and not bad_spec, "tie",
               broke or ("" if not bad_spec else f"differ on {[desc(i) for i in bad_spec[:4]]}"))
    ctx.coverage.update({"batcher_cases": len(rows), "batcher_cases_where_real_batcher_is_not_vmap": len(wrong),
                         "batcher_cases_real_raises": n_raise,
                         "batcher_case_kinds": {"both_batched": sum(1 for c in cases if c[1] is not None and c[3] is not None),
                                                "one_unbatched": sum(1 for c in cases if (c[1] is None) != (c[3] is None)),
                                                "rank_deficient_batched_operand": sum(
                                                    1 for c in cases if _rank_deficient(c))}})
    ctx.samples += [{"batcher_case": desc(i)} for i in range(min(4, len(rows)))]
    # the hypothesis of C10_batcher_correct_partial, evaluated on the generated cases: inside the fragment the REAL code must
    # be right (theorem + tie); outside it, it is wrong on all but degenerate data (how exact the hypothesis is: measured)
    wrong_set = {w[0] for w in wrong}
    table = {"in_fragment_right": 0, "in_fragment_wrong": 0, "outside_right": 0, "outside_wrong": 0}
    for c in cases:
        inside = _in_fragment(c)
        table[("in_fragment_" if inside else "outside_") + ("wrong" if c in wrong_set else "right")] += 1
    ctx.coverage["partial_theorem_fragment_vs_real_code"] = table
    # C10_batcher_fixed_correct + the tie: the real rule is vmap on EVERY generated case (the historical helper was right only
    # inside the fragment of C10_batcher_correct_partial: the table says where a regression sits)
    ctx.oblige(f"tie:real-batcher-is-vmap-on-all-generated-cases({len(cases)})", not wrong, "tie", "" if not wrong else f"{table}")
    # search on the real code: the batcher level witness
    if wrong:
        (sx, dx, sy, dy), got, want = next((w for w in wrong if w[0] == ((3, 3), 0, (3, 3), None)), wrong[0])
        ctx.violate("batcher:new-axes-appended-at-end",
                    f"broadcast_batcher_compat is not vmap for an elementwise numpy-broadcasting primitive: operands {sx} (bdim {dx}) and {sy} "
                    f"(bdim {dy}) give {'other VALUES than' if got == want else str(got) + ' instead of'} the stack of per-example results (shape {want}) "
                    f"({len(wrong)} of {len(rows)} generated cases" + ("" if fixed_code else "; _handle_scalar_broadcasting appends the new axes at the end") + ")",
                    {"kind": "batcher", "x_shape": list(sx), "x_bdim": dx, "y_shape": list(sy), "y_bdim": dy})
    return fixed_code


def _in_fragment(c):
    """Batch.ranks_uniform_or_unit"""
    sx, dx, sy, dy = c
    px = [d for i, d in enumerate(sx) if i != dx] if dx is not None else list(sx)
    py = [d for i, d in enumerate(sy) if i != dy] if dy is not None else list(sy)
    n1 = max(len(px), len(py))
    okx = dx is None or len(px) == n1 or all(d == 1 for d in px)
    oky = dy is None or len(py) == n1 or all(d == 1 for d in py)
    return okx and oky


def _rank_deficient(c):
    sx, dx, sy, dy = c
    px = len(sx) - (dx is not None)
    py = len(sy) - (dy is not None)
    return (dx is not None and px < py) or (dy is not None and py < px)


# ===================================================================== tie D: reduction-type batch rules
def _kz_np(v, axes):
    """Batch.kz on a numpy/jax array: 100*v + sum over the fiber along `axes` (in that order) of (1 + ravel(sub)) * v[sub]"""
    import jax.numpy as jnp
    axes = [int(a) % v.ndim for a in axes]
    rest = [i for i in range(v.ndim) if i not in axes]
    moved = jnp.transpose(v, rest + axes)
    F = 1
    for a in axes:
        F *= v.shape[a]
    flatf = moved.reshape(moved.shape[:len(rest)] + (F,))
    w = jnp.arange(1, F + 1, dtype=v.dtype)
    ssum = jnp.sum(flatf * w, axis=-1)
    shp = [1 if i in axes else v.shape[i] for i in range(v.ndim)]
    return 100 * v + ssum.reshape(shp)


def tie_reduction_rules(ctx):
    """drive the REAL _softmax_batch_rule / _standardize_batch_rule (with the original jax.nn function replaced by the integer
    kernel Batch.kz, so that only the rule's own axis handling / moveaxis / bind is exercised) and compare with Batch.softmax_rule /
    Batch.reduce_rule inside Coq; Batch.vmap_spec1 is compared with numpy's stack of per-example results."""
    import jax.numpy as jnp
    from jax2onnx.plugins.jax.nn import softmax as sm_mod
    from jax2onnx.plugins.jax.nn import standardize as st_mod
    rng = ctx.rng
    n = 24 if ctx.tier == "quick" else 120
    rows = []
    # the rules as REGISTERED with jax (whatever the module calls them): batching.primitive_batchers[prim] = rule stores
    # fancy_primitive_batchers[prim] = wrapped(axis_data, vals, dims, **params)
    from jax._src.interpreters import batching as jb
    reg_sm = jb.fancy_primitive_batchers.get(sm_mod.SoftmaxPlugin._PRIM)
    reg_st = jb.fancy_primitive_batchers.get(st_mod.StandardizePlugin._PRIM)
    if reg_sm is None or reg_st is None:
        ctx.oblige("tie:reduction-batch-rules-registered", False, "tie", "no batch rule registered for jax.nn.softmax / jax.nn.standardize")
        return
    sm_rule = lambda vals, dims, **params: reg_sm(None, vals, dims, **params)
    st_rule = lambda vals, dims, **params: reg_st(None, vals, dims, **params)
    saved_sm = sm_mod._JAX_SOFTMAX_ORIG
    slot = "__orig_impl__standardize"
    had = hasattr(st_mod.StandardizePlugin._PRIM, slot)
    saved_st = getattr(st_mod.StandardizePlugin._PRIM, slot, None)
    problems = []
    try:
        sm_mod._JAX_SOFTMAX_ORIG = lambda v, axis=-1, where=None: _kz_np(v, [axis])
        setattr(st_mod.StandardizePlugin._PRIM, slot,
                lambda v, axis=None, mean=None, variance=None, epsilon=0.0, where=None:
                _kz_np(v, list(range(v.ndim)) if axis is None else list(axis)))
        while len(rows) < n:
            r = rng.randint(1, 3)                                   # per-example rank
            pes = [rng.choice([1, 2, 3]) for _ in range(r)]
            B = rng.choice([1, 2, 3])
            d = rng.randint(0, r)
            full = list(pes)
            full.insert(d, B)
            kind = "softmax" if len(rows) % 2 == 0 else "standardize"
            if kind == "softmax":
                axes = [rng.randint(-r, r - 1)]
            else:
                k = rng.randint(1, r)
                axes = sorted(rng.sample(range(r), k))
                axes = [a - r if rng.random() < 0.4 else a for a in axes]
                if sorted(a % r for a in axes) != [a % r for a in axes]:
                    continue
            x = np.asarray([rng.randint(0, 9) for _ in range(int(np.prod(full)))], dtype=np.int32).reshape(full)
            ref = np.stack([np.asarray(_kz_np(jnp.asarray(np.take(x, b, axis=d)), axes)) for b in range(B)])
            try:
                if kind == "softmax":
                    out, od = sm_rule((jnp.asarray(x),), (d,), axis=int(axes[0]), has_where=False)
                else:
                    out, od = st_rule((jnp.asarray(x),), (d,), axis=tuple(int(a) for a in axes), epsilon=0.0)
                out = np.asarray(out)
                real = (list(out.shape), int(od), [int(v) for v in out.reshape(-1)])
                if not np.array_equal(np.moveaxis(out, od, 0), ref):
                    problems.append((kind, full, d, axes))
            except Exception as e:
                real = None
                problems.append((kind, full, d, axes, type(e).__name__))
            rows.append((kind, full, d, axes, x, real, ref))
    finally:
        sm_mod._JAX_SOFTMAX_ORIG = saved_sm
        if had:
            setattr(st_mod.StandardizePlugin._PRIM, slot, saved_st)
        else:
            delattr(st_mod.StandardizePlugin._PRIM, slot)
    hdr = common.CASES_HEADER + "From J2O Require Import Tensor Batch.\n"
    hdr += ("Definition zl_eqb := list_eqb Z.eqb.\n"
            "Record rcase := mkR { softmax : bool; sx : list nat; dx : nat; axes : list Z; datx : list Z;\n"
            "  rshape : list nat; rod : nat; rflat : list Z; refshape : list nat; refflat : list Z }.\n"
            "Definition model_ok (c : rcase) : bool :=\n"
            "  let x := of_flat (sx c) (datx c) in\n"
            "  let '(r, od) := if softmax c then softmax_rule kz (hd 0%Z (axes c)) x (dx c) else reduce_rule kz (axes c) x (dx c) in\n"
            "  nat_list_eqb (shape r) (rshape c) && Nat.eqb od (rod c) && zl_eqb (flat r) (rflat c).\n"
            "Definition spec_ok (c : rcase) : bool :=\n"
            "  let v := vmap_spec1 (prim_axes kz (axes c)) (of_flat (sx c) (datx c)) (dx c) in\n"
            "  nat_list_eqb (shape v) (refshape c) && zl_eqb (flat v) (refflat c).\n")

    def render(chunk, off):
        items = []
        for (kind, full, d, axes, x, real, ref) in chunk:
            rs, rd, rf = real if real is not None else ([], 0, [])
            items.append(f"mkR {common.blit(kind == 'softmax')} {_natlist(full)} {int(d)}%nat {_zl(axes)} {_zl(x.reshape(-1))} "
                         f"{_natlist(rs)} {rd}%nat {_zl(rf)} {_natlist(ref.shape)} {_zl(ref.reshape(-1))}")
        return ("Definition cs : list rcase := [" + ";\n ".join(items) + "].\n"
                "Eval vm_compute in bad_idx_ model_ok 0%nat cs.\nEval vm_compute in bad_idx_ spec_ok 0%nat cs.\n")
    res = common.coq_eval_batches(ctx, "c10_reduce", hdr, rows, render, per_file=50)
    bad_model, bad_spec, broke = [], [], None
    for k, (ok, out) in enumerate(res):
        lists = re.findall(r"=\s*(\[[^\]]*\]|nil)\s*:\s*list nat", out.replace("\n", " "))
        if not ok or len(lists) != 2:
            broke = out[-1200:]
            continue
        for tgt, l in zip((bad_model, bad_spec), lists):
            if l not in ("nil", "[]"):
                tgt += [k * 50 + int(v.replace("%nat", "")) for v in l.strip("[]").split(";") if v.strip()]
    desc = lambda i: {"rule": rows[i][0], "x_shape": rows[i][1], "bdim": rows[i][2], "axes": rows[i][3]}
    ctx.oblige(f"tie:reduction-rule-models-equal-real-softmax/standardize-batch-rules({len(rows)} cases)", broke is None and not bad_model, "tie",
               broke or ("" if not bad_model else f"model and implementation differ on {[desc(i) for i in bad_model[:4]]}"))
    ctx.oblige(f"tie:vmap_spec1-equals-numpy-stack-of-examples({len(rows)} cases)", broke is None and not bad_spec, "tie",
               broke or ("" if not bad_spec else f"differ on {[desc(i) for i in bad_spec[:4]]}"))
    ctx.oblige(f"tie:real-reduction-batch-rules-are-vmap-on-all-generated-cases({len(rows)})", not problems, "tie", str(problems[:3]))
    ctx.coverage["reduction_rule_cases"] = {"total": len(rows), "softmax": sum(1 for r_ in rows if r_[0] == "softmax"),
                                            "positive_axis": sum(1 for r_ in rows if any(a >= 0 for a in r_[3])),
                                            "batch_dim_not_front": sum(1 for r_ in rows if r_[2] != 0)}
    if problems:
        p = problems[0]
        ctx.violate(f"reduction-batch-rule:{p[0]}",
                    f"the batch rule of jax.nn.{p[0]} is not vmap: operand shape {p[1]}, batch dim {p[2]}, axis {p[3]}"
                    + (f" raises {p[4]}" if len(p) > 4 else " gives other values than the stack of per-example results"),
                    {"kind": "reduction", "rule": p[0], "x_shape": list(p[1]), "bdim": int(p[2]), "axes": [int(a) for a in p[3]]})


def _rkz_np(a, axis=None, keepdims=False, **_kw):
    """Batch.rkz on an array: sum over the fiber along the reduced axes (ascending) of (1 + ravel(sub)) * a[sub]"""
    import jax.numpy as jnp
    a = jnp.asarray(a)
    if axis is None:
        axes = list(range(a.ndim))
    elif isinstance(axis, (tuple, list)):
        axes = sorted(int(x) % a.ndim for x in axis)
    else:
        axes = [int(axis) % a.ndim]
    rest = [i for i in range(a.ndim) if i not in axes]
    moved = jnp.transpose(a, rest + axes)
    F = 1
    for x in axes:
        F *= a.shape[x]
    flatf = moved.reshape(tuple(a.shape[i] for i in rest) + (F,))
    out = jnp.sum(flatf * jnp.arange(1, F + 1, dtype=a.dtype), axis=-1)
    if keepdims:
        out = out.reshape([1 if i in axes else a.shape[i] for i in range(a.ndim)])
    return out


def tie_reduction_keepdims_rule(ctx):
    """the REAL rule registered by register_reduction_batch_rule for jnp.sum/max/min/amax/amin/any/all (original jnp function replaced by
    the integer kernel Batch.rkz) against Batch.reduction_batch_rule inside Coq: output shape, batch dim, values, for keepdims both ways"""
    import importlib
    import jax.numpy as jnp
    from jax._src.interpreters import batching as jb
    rng = ctx.rng
    names = ["sum", "max", "min", "amax", "amin", "any", "all"]
    prims = {}
    for nm in names:
        mod = importlib.import_module(f"jax2onnx.plugins.jax.numpy.{nm}")
        cls = [v for v in vars(mod).values() if isinstance(v, type) and getattr(v, "_FUNC_NAME", None) == nm and hasattr(v, "_PRIM")]
        if not cls or jb.fancy_primitive_batchers.get(cls[0]._PRIM) is None:
            ctx.oblige(f"tie:reduction-batch-rule-registered(jnp.{nm})", False, "tie", "no plugin class / batch rule found")
            return
        prims[nm] = cls[0]._PRIM
    n = 28 if ctx.tier == "quick" else 140
    rows, problems = [], []
    saved = {}
    try:
        for nm, pr in prims.items():
            slot = f"__orig_impl___{nm}"
            saved[nm] = (slot, hasattr(pr, slot), getattr(pr, slot, None))
            setattr(pr, slot, _rkz_np)
        fixed = [("sum", [2, 3, 2], 1, [0], True), ("max", [3, 3, 3], 1, [0], True), ("all", [3, 3, 3], 2, [0, 1], True),
                 ("min", [3, 3, 3], 2, [1], True), ("sum", [3, 3], 1, None, True), ("any", [2, 3, 3], 1, [-1], True)]
        while len(rows) < n:
            if fixed:
                nm, full, d, axes, keep = fixed.pop(0)
            else:
                nm = names[len(rows) % len(names)]
                r = rng.randint(1, 3)
                m = rng.choice([2, 3])
                pes = [m if rng.random() < 0.6 else rng.choice([1, 2, 3]) for _ in range(r)]
                d = rng.randint(0, r)
                full = list(pes)
                full.insert(d, m if rng.random() < 0.6 else rng.choice([1, 2, 3]))
                keep = rng.random() < 0.6
                if rng.random() < 0.15:
                    axes = None
                else:
                    axes = sorted(rng.sample(range(r), rng.randint(1, r)))
                    axes = [a - r if rng.random() < 0.3 else a for a in axes]
            x = np.asarray([rng.randint(0, 9) for _ in range(int(np.prod(full)))], dtype=np.int32).reshape(full)
            B = full[d]
            ref = np.stack([np.asarray(_rkz_np(np.take(x, b, axis=d), None if axes is None else tuple(axes), keep)) for b in range(B)])
            rule = jb.fancy_primitive_batchers[prims[nm]]
            try:
                out, od = rule(None, (jnp.asarray(x),), (d,), axes=None if axes is None else tuple(int(a) for a in axes),
                               axes_is_tuple=axes is not None, keepdims=keep)
                out = np.asarray(out)
                real = (list(out.shape), int(od), [int(v) for v in out.reshape(-1)])
                if not (out.ndim > od and np.moveaxis(out, od, 0).shape == ref.shape and np.array_equal(np.moveaxis(out, od, 0), ref)):
                    problems.append((nm, full, d, axes, keep, list(np.moveaxis(out, od, 0).shape) if out.ndim > od else list(out.shape), list(ref.shape)))
            except Exception as e:
                real = None
                problems.append((nm, full, d, axes, keep, "raises " + type(e).__name__ + ": " + str(e)[:80], list(ref.shape)))
            rows.append((nm, full, d, axes, keep, x, real, ref))
    finally:
        for nm, (slot, had, val) in saved.items():
            if had:
                setattr(prims[nm], slot, val)
            elif hasattr(prims[nm], slot):
                delattr(prims[nm], slot)
    hdr = common.CASES_HEADER + "From J2O Require Import Tensor Batch.\n"
    hdr += ("Definition zl_eqb := list_eqb Z.eqb.\n"
            "Record kcase := mkK { sx : list nat; dx : nat; axes : option (list Z); keep : bool; datx : list Z;\n"
            "  rshape_ : list nat; rod : nat; rflat : list Z; refshape : list nat; refflat : list Z }.\n"
            "Definition model_ok (c : kcase) : bool :=\n"
            "  let '(r, od) := reduction_batch_rule rkz (axes c) (keep c) (of_flat (sx c) (datx c)) (dx c) in\n"
            "  nat_list_eqb (shape r) (rshape_ c) && Nat.eqb od (rod c) && zl_eqb (flat r) (rflat c).\n"
            "Definition spec_ok (c : kcase) : bool :=\n"
            "  let v := vmap_spec1 (reduce_axes rkz (axes c) (keep c)) (of_flat (sx c) (datx c)) (dx c) in\n"
            "  nat_list_eqb (shape v) (refshape c) && zl_eqb (flat v) (refflat c).\n")

    def render(chunk, off):
        items = []
        for (nm, full, d, axes, keep, x, real, ref) in chunk:
            rs, rd, rf = real if real is not None else ([], 0, [])
            ax = "None" if axes is None else f"(Some {_zl(axes)})"
            items.append(f"mkK {_natlist(full)} {int(d)}%nat {ax} {common.blit(keep)} {_zl(x.reshape(-1))} "
                         f"{_natlist(rs)} {rd}%nat {_zl(rf)} {_natlist(ref.shape)} {_zl(ref.reshape(-1))}")
        return ("Definition cs : list kcase := [" + ";\n ".join(items) + "].\n"
                "Eval vm_compute in bad_idx_ model_ok 0%nat cs.\nEval vm_compute in bad_idx_ spec_ok 0%nat cs.\n")
    res = common.coq_eval_batches(ctx, "c10_redkeep", hdr, rows, render, per_file=50)
    bad_model, bad_spec, broke = [], [], None
    for k, (ok, out) in enumerate(res):
        lists = re.findall(r"=\s*(\[[^\]]*\]|nil)\s*:\s*list nat", out.replace("\n", " "))
        if not ok or len(lists) != 2:
            broke = out[-1200:]
            continue
        for tgt, l in zip((bad_model, bad_spec), lists):
            if l not in ("nil", "[]"):
                tgt += [k * 50 + int(v.replace("%nat", "")) for v in l.strip("[]").split(";") if v.strip()]
    desc = lambda i: {"prim": rows[i][0], "x_shape": rows[i][1], "bdim": rows[i][2], "axes": rows[i][3], "keepdims": rows[i][4],
                      "real": None if rows[i][6] is None else rows[i][6][:2]}
    ctx.oblige(f"tie:reduction_batch_rule-model-equals-real-register_reduction_batch_rule({len(rows)} cases, 7 primitives)",
               broke is None and not bad_model, "tie",
               broke or ("" if not bad_model else f"model and implementation differ on {[desc(i) for i in bad_model[:4]]}"))
    ctx.oblige(f"tie:reduce_axes-spec-equals-numpy-stack-of-examples({len(rows)} cases)", broke is None and not bad_spec, "tie",
               broke or ("" if not bad_spec else f"differ on {[desc(i) for i in bad_spec[:4]]}"))
    ctx.oblige(f"tie:real-shared-reduction-batch-rule-is-vmap-on-all-generated-cases({len(rows)})", not problems, "tie", str(problems[:3]))
    ctx.coverage["reduction_keepdims_cases"] = {"total": len(rows), "keepdims": sum(1 for r_ in rows if r_[4]),
                                                "batch_dim_not_front": sum(1 for r_ in rows if r_[2] != 0),
                                                "reduced_axis_in_front_of_batch_dim_with_keepdims": sum(
                                                    1 for r_ in rows if r_[4] and (r_[3] is None or any((a % (len(r_[1]) - 1)) < r_[2] for a in r_[3])))}
    if problems:
        p = problems[0]
        ctx.violate(f"reduction-batch-rule:shared:{p[0]}",
                    f"the shared vmap rule of jnp.{p[0]} (register_reduction_batch_rule) is not vmap: operand shape {p[1]} mapped along axis {p[2]}, "
                    f"axes={p[3]}, keepdims={p[4]}: {p[5]} where the stack of per-example results has shape {p[6]}",
                    {"kind": "reduction_keepdims", "prim": p[0], "x_shape": list(p[1]), "bdim": int(p[2]),
                     "axes": None if p[3] is None else [int(a) for a in p[3]], "keepdims": bool(p[4])})


# ===================================================================== tie D: inlining
INLINE_SHAPE = [
    "for const_var, const_val in zip(inner_jaxpr.constvars, consts):\n    ctx.bind_const_for_var(const_var, np.asarray(const_val))",
    "for outer_var, inner_var in zip(eqn.invars, inner_jaxpr.invars):\n    ctx.bind_value_for_var(inner_var, ctx.get_value_for_var(outer_var))",
    "lower_jaxpr_eqns(ctx, inner_jaxpr, source=SRC)",
    "for outer_var, inner_var in zip(eqn.outvars, inner_jaxpr.outvars):\n    ctx.bind_value_for_var(outer_var, ctx.get_value_for_var(inner_var))",
]


def tie_inline(ctx):
    import jax
    import jax.numpy as jnp
    from jax._src import core as jcore
    from jax2onnx.plugins.jax.core.jit import JitPlugin
    from jax2onnx.plugins.jax.core.custom_jvp_call import CustomJvpCallPlugin
    from jax2onnx.plugins.jax.core.custom_vjp_call import CustomVjpCallPlugin
    from jax2onnx.plugins.jax.lax.remat2 import Remat2Plugin
    # (1) the four body lowerings end with the statement list of Lowering.inline_plugin
    bad = []
    for cls, src_tag in [(JitPlugin, "jit"), (CustomJvpCallPlugin, "custom_jvp"), (CustomVjpCallPlugin, "custom_vjp"), (Remat2Plugin, "remat2")]:
        fn = ast.parse(textwrap.dedent(inspect.getsource(cls.lower))).body[0]
        stmts = [ast.unparse(s) for s in fn.body]
        tail = [s.replace("const_value", "const_val") for s in stmts[-4:]]
        want = [s.replace("SRC", repr(src_tag)) for s in INLINE_SHAPE]
        if tail != want:
            bad.append((cls.__name__, tail))
    ctx.oblige("tie:body-lowerings-have-the-shape-of-inline_plugin(jit,custom_jvp_call,custom_vjp_call,remat2)", not bad, "tie",
               "" if not bad else f"unexpected statements: {bad[:1]}")
    # JitPlugin.lower lowers the FRESHENED jaxpr
    src = inspect.getsource(JitPlugin.lower)
    uses_fresh = "fresh_closed = self._freshen_closed_jaxpr(" in src and "inner_jaxpr = fresh_closed.jaxpr" in src
    ctx.oblige("tie:JitPlugin.lower-lowers-the-freshened-copy", uses_fresh, "tie", "" if uses_fresh else "lower no longer goes through _freshen_closed_jaxpr")

    # (2) the real _freshen_closed_jaxpr is an injective fresh renaming that keeps structure
    def g1(x):
        return jnp.sin(x) * x + 1.0

    def g2(x, y):
        a, b = jax.jit(lambda u, v: (u + v, u * v))(x, y)
        return a - b, jnp.tanh(a)

    def g3(x):
        w = jnp.arange(6.0).reshape(2, 3)
        return jnp.sum(w * x) + jnp.max(x)
    progs = [(g1, (np.ones(3, np.float32),)), (g2, (np.ones(2, np.float32), np.ones(2, np.float32))),
             (g3, (np.ones(3, np.float32),))]
    n_ok = n_vars = 0
    problems = []
    for f, args in progs:
        closed = jax.make_jaxpr(f)(*args)
        for _rep in range(2):
            fresh = JitPlugin._freshen_closed_jaxpr(closed)
            a, b = closed.jaxpr, fresh.jaxpr
            vm = {}

            def pair(u, v):
                if isinstance(u, jcore.Var):
                    if not isinstance(v, jcore.Var) or u.aval != v.aval:
                        problems.append("var mapped to non-var / different aval")
                    if u in vm and vm[u] is not v:
                        problems.append("not a function of the variable")
                    vm[u] = v
                else:
                    if u is not v and not (isinstance(u, jcore.Literal) and isinstance(v, jcore.Literal) and u.val is v.val):
                        problems.append("literal changed")
            for u, v in zip(list(a.constvars) + list(a.invars) + list(a.outvars), list(b.constvars) + list(b.invars) + list(b.outvars)):
                pair(u, v)
            if len(a.eqns) != len(b.eqns):
                problems.append("equation count changed")
            for e1, e2 in zip(a.eqns, b.eqns):
                if e1.primitive is not e2.primitive or e1.params is not e2.params and e1.params != e2.params:
                    problems.append("primitive/params changed")
                if len(e1.invars) != len(e2.invars) or len(e1.outvars) != len(e2.outvars):
                    problems.append("arity changed")
                for u, v in zip(list(e1.invars) + list(e1.outvars), list(e2.invars) + list(e2.outvars)):
                    pair(u, v)
            img = list(vm.values())
            if len({id(v) for v in img}) != len(img):
                problems.append("renaming not injective")
            if any(any(v is u for u in vm) for v in img):
                problems.append("renaming range not fresh")
            if fresh.consts is not closed.consts and list(fresh.consts) != list(closed.consts):
                problems.append("consts changed")
            n_vars += len(vm)
            n_ok += 1
    ctx.oblige(f"tie:_freshen_closed_jaxpr-is-an-injective-fresh-renaming({n_ok} clones, {n_vars} variables)", not problems, "tie",
               "; ".join(sorted(set(problems)))[:400])
    ctx.coverage["freshen_clones_checked"] = n_ok


# ===================================================================== tie D: linearity of the allow-listed names
def tie_linear(ctx):
    import jax.numpy as jnp
    from jax2onnx.plugins.jax import _autodiff_utils as au
    rng = np.random.RandomState(ctx.rng.randint(0, 2 ** 31 - 1))
    A = lambda *s: rng.randint(-9, 10, size=s).astype(np.int32)
    c3 = rng.rand(2, 3) > 0.5
    # name -> (function of the differentiable operands only, operand shapes, gather-form?)
    table = {
        "jax.numpy.add": (lambda x, y: jnp.add(x, y), [(2, 3), (3,)], False),
        "jax.numpy.concatenate": (lambda x, y: jnp.concatenate([x, y], axis=1), [(2, 3), (2, 2)], False),
        "jax.numpy.moveaxis": (lambda x: jnp.moveaxis(x, 0, 2), [(2, 3, 4)], True),
        "jax.numpy.reshape": (lambda x: jnp.reshape(x, (3, 4)), [(2, 6)], True),
        "jax.numpy.select": (lambda d, x, y: jnp.select([c3, ~c3 & (np.arange(3) > 0)], [x, y], default=d), [(2, 3), (2, 3), (2, 3)], False),
        "jax.numpy.split": (lambda x: tuple(jnp.split(x, [1, 3], axis=1)), [(2, 5)], True),
        "jax.numpy.squeeze": (lambda x: jnp.squeeze(x, axis=1), [(2, 1, 3)], True),
        "jax.numpy.stack": (lambda x, y: jnp.stack([x, y], axis=1), [(2, 3), (2, 3)], False),
        "jax.numpy.take": (lambda x: jnp.take(x, np.array([2, 0, 2]), axis=1), [(2, 3)], True),
        "jax.numpy.tile": (lambda x: jnp.tile(x, (2, 2)), [(2, 3)], True),
        "jax.numpy.transpose": (lambda x: jnp.transpose(x, (2, 0, 1)), [(2, 3, 4)], True),
        "jax.numpy.where": (lambda x, y: jnp.where(c3, x, y), [(2, 3), (3,)], False),
    }
    allow = sorted(au.get_linear_transpose_fallback_allowlist())
    missing = [n for n in allow if n not in table]
    bad = []
    n_eval = 0
    for n in allow:
        if n not in table:
            continue
        f, shapes, is_gather = table[n]
        leaves = lambda r: [np.asarray(v) for v in (r if isinstance(r, (tuple, list)) else (r,))]
        for _ in range(6):
            a, b = int(rng.randint(-3, 4)), int(rng.randint(-3, 4))
            xs, ys = [A(*s) for s in shapes], [A(*s) for s in shapes]
            lhs = leaves(f(*[a * x + b * y for x, y in zip(xs, ys)]))
            rhs = [a * u + b * v for u, v in zip(leaves(f(*xs)), leaves(f(*ys)))]
            n_eval += 1
            if len(lhs) != len(rhs) or any(not np.array_equal(p, q) for p, q in zip(lhs, rhs)):
                bad.append((n, "not linear"))
            if is_gather:      # out = x.flat[idx] with idx = f(arange)
                idx = leaves(f(np.arange(int(np.prod(shapes[0])), dtype=np.int32).reshape(shapes[0])))
                if any(not np.array_equal(xs[0].reshape(-1)[i], o) for i, o in zip(idx, leaves(f(xs[0])))):
                    bad.append((n, "not a gather"))
    ctx.oblige(f"tie:allowlisted-jnp-functions-are-linear-and-of-the-modelled-form({len(allow)} names, {n_eval} evaluations)",
               not bad and not missing, "tie",
               (f"no harness sample for {missing}; " if missing else "") + (f"{sorted(set(bad))[:4]}" if bad else ""))
    ctx.coverage["linear_evaluations"] = n_eval


# ===================================================================== exploration: T(f) on the real exporter
def _functions():
    import jax
    import jax.numpy as jnp
    from jax import lax
    W = np.linspace(-1.0, 1.0, 12, dtype=np.float32).reshape(3, 4)

    @jax.jit
    def inner_jit(x):
        return jnp.sin(x) * 2.0

    F = {}

    def reg(name, fn, shapes, **kw):
        F[name] = dict(fn=fn, shapes=shapes, **kw)
    # ---- unary
    reg("tanh_affine", lambda x: jnp.tanh(x) * 2.0 + 1.0, [(4,)])
    reg("exp_sum", lambda x: jnp.sum(jnp.exp(x)), [(4,)])
    reg("softmax", lambda x: jax.nn.softmax(x), [(4,)])
    reg("softmax_axis1", lambda x: jax.nn.softmax(x, axis=1), [(2, 3, 4)])
    reg("mean_square", lambda x: jnp.mean(x ** 2), [(3, 4)])
    reg("reshape_transpose", lambda x: jnp.transpose(jnp.reshape(x, (2, 2))) * x[0], [(4,)])
    reg("where_leaky", lambda x: jnp.where(x > 0, x, 0.1 * x), [(4,)])
    reg("gelu_sigmoid", lambda x: jax.nn.gelu(x) + jax.nn.sigmoid(x), [(4,)])
    reg("concat_sq", lambda x: jnp.concatenate([x, x * x]), [(4,)])
    reg("take_tile", lambda x: jnp.tile(jnp.take(x, np.array([0, 2])), 2) * 3.0, [(4,)])
    reg("stack_split", lambda x: jnp.sum(jnp.stack(jnp.split(x, 2)) * jnp.asarray([[1.0], [2.0]], dtype=x.dtype), axis=0), [(4,)])
    reg("squeeze_moveaxis", lambda x: jnp.squeeze(jnp.moveaxis(x[None, :, :], 0, 2), axis=2) * 2.0, [(3, 4)])
    reg("select3", lambda x: jnp.select([x > 1.0, x > 0.0], [x * 2.0, x * 3.0], default=-x), [(4,)])
    reg("max_reduce", lambda x: jnp.max(x, axis=-1), [(3, 4)])
    reg("lax_sin_cos", lambda x: lax.mul(lax.sin(x), lax.cos(x)), [(4,)])
    reg("matvec_const", lambda x: jnp.matmul(W, x), [(4,)])
    reg("clip_abs", lambda x: jnp.clip(jnp.abs(x), 0.2, 0.8) * x, [(4,)])
    reg("logsumexp", lambda x: jax.nn.logsumexp(x, axis=-1), [(3, 4)])
    reg("uses_inner_jit_twice", lambda x: inner_jit(x) + inner_jit(x * 0.5), [(4,)])
    reg("cumsum_prod", lambda x: jnp.cumsum(x) * jnp.prod(x), [(4,)])
    # reductions with keepdims over square extents (shared register_reduction_batch_rule): a wrong output batch dim is silent
    reg("sum_keep0", lambda x: jnp.sum(x, axis=0, keepdims=True), [(3, 3)])
    reg("max_keep0", lambda x: jnp.max(x, axis=0, keepdims=True), [(3, 3)])
    reg("min_keep01", lambda x: jnp.min(x, axis=(0, 1), keepdims=True) * x[0], [(3, 3, 3)])
    reg("any_keep0", lambda x: jnp.where(jnp.any(x > 0.5, axis=0, keepdims=True), x, -x), [(3, 3)])
    reg("all_keep1", lambda x: jnp.where(jnp.all(x > -1.0, axis=1, keepdims=True), x, -x), [(3, 3)])
    reg("amax_nokeep", lambda x: jnp.amax(x, axis=0) - jnp.amin(x, axis=1), [(3, 3)])
    # a primitive with an OUTPUT-axis parameter (one_hot inserts the class axis): every axis position x every mapped axis
    for _ax in (-2, -1, 0, 1):
        reg(f"one_hot_axis{_ax}", (lambda ax: (lambda x: jax.nn.one_hot(jnp.floor(jnp.abs(x) * 1.9).astype(jnp.int32), 3, axis=ax) * (1.0 + x[0])))(_ax), [(2,)])
    reg("one_hot_rank2_axis1", lambda x: jax.nn.one_hot(jnp.floor(jnp.abs(x) * 1.9).astype(jnp.int32), 3, axis=1), [(2, 2)])
    reg("one_hot_rank2_axis-3", lambda x: jax.nn.one_hot(jnp.floor(jnp.abs(x) * 1.9).astype(jnp.int32), 3, axis=-3), [(2, 2)])
    # ---- binary (mixed ranks: the second operand is the higher-rank / the weight)
    reg("add_mixed", lambda x, y: jnp.add(x, y), [(3,), (3, 3)])
    reg("mul_mixed", lambda x, y: jnp.multiply(x, y), [(3,), (2, 3)])
    reg("maximum_mixed", lambda x, y: jnp.maximum(x, y), [(3,), (2, 3)])
    reg("sub_div_mixed", lambda x, y: (y - x) / (1.0 + x * x), [(3,), (2, 3)])
    reg("where_mixed", lambda x, y: jnp.where(y > 0, x, y), [(3,), (2, 3)])
    reg("add_same", lambda x, y: jnp.add(x, y) * 0.5, [(2, 3), (2, 3)])
    # square operands: under vmap(in_axes=(0,1)) etc. both batched operands have the SAME shape but different batch dims
    reg("add_sq", lambda x, y: jnp.add(x, y), [(3, 3), (3, 3)])
    reg("sub_sq", lambda x, y: jnp.subtract(x, y), [(3, 3), (3, 3)])
    reg("where_sq", lambda x, y: jnp.where(x > 0.2, x, y), [(3, 3), (3, 3)])
    reg("maximum_sq", lambda x, y: jnp.maximum(x, y), [(3, 3), (3, 3)])
    reg("divide_sq", lambda x, y: jnp.divide(x, y * y + 1.0), [(3, 3), (3, 3)])
    reg("pow_sq", lambda x, y: jnp.power(jnp.abs(x) + 0.5, y), [(3, 3), (3, 3)])
    reg("greater_sq", lambda x, y: jnp.where(jnp.greater(x, y), 1.0, -1.0) + jnp.where(jnp.less_equal(x, y), x, 0.0), [(3, 3), (3, 3)])
    reg("dot_vec", lambda x, y: jnp.dot(x, y), [(3,), (3,)])
    reg("dot_mat", lambda x, y: jnp.dot(x, y), [(3, 3), (3, 3)])
    reg("matmul_mat", lambda x, y: jnp.matmul(x, y), [(2, 3), (3, 2)])
    reg("matmul_vec", lambda x, y: jnp.matmul(x, y), [(3,), (3, 2)])
    reg("linear_relu", lambda x, y: jax.nn.relu(jnp.matmul(x, y) + 0.5), [(3,), (3, 2)])
    reg("power_atan2", lambda x, y: jnp.arctan2(x, y) + jnp.power(jnp.abs(y) + 0.5, 2.0), [(3,), (2, 3)])
    try:
        from flax import nnx
        lin = nnx.Linear(4, 3, rngs=nnx.Rngs(0))
        reg("nnx_linear", lambda x: lin(x), [(2, 4)])
    except Exception:                                   # flax not importable: the function is simply not explored
        pass
    return F


def _tree_np(o):
    import jax
    return [np.asarray(v) for v in jax.tree_util.tree_leaves(o)]


def _transforms(name, spec):
    """-> list of (T name, transformed callable, input shapes).  Only shape-valid combinations are produced."""
    import jax
    import jax.numpy as jnp
    f, shapes = spec["fn"], spec["shapes"]
    n = len(shapes)
    B = 3
    T = []

    def sh_ins(s, ax):
        s = list(s)
        s.insert(ax, B)
        return tuple(s)
    # ---- vmap
    out_aval = jax.eval_shape(f, *[jax.ShapeDtypeStruct(s, jnp.float32) for s in shapes])
    out_shape = tuple(out_aval.shape)
    T.append(("vmap0", jax.vmap(f), [sh_ins(s, 0) for s in shapes]))
    if len(out_shape) >= 1:
        T.append(("vmap0_out1", jax.vmap(f, out_axes=1), [sh_ins(s, 0) for s in shapes]))
    if n == 1:
        if len(shapes[0]) >= 1:
            T.append(("vmap1", jax.vmap(f, in_axes=1), [sh_ins(shapes[0], 1)]))
            T.append(("vmap-1", jax.vmap(f, in_axes=-1), [sh_ins(shapes[0], len(shapes[0]))]))
        if len(shapes[0]) >= 2:
            T.append(("vmap2", jax.vmap(f, in_axes=2), [sh_ins(shapes[0], 2)]))
            T.append(("vmap1_out1", jax.vmap(f, in_axes=1, out_axes=1), [sh_ins(shapes[0], 1)]))
        T.append(("vmap_vmap", jax.vmap(jax.vmap(f)), [(2,) + sh_ins(shapes[0], 0)]))
    if n == 2:
        T.append(("vmap(0,None)", jax.vmap(f, in_axes=(0, None)), [sh_ins(shapes[0], 0), shapes[1]]))
        T.append(("vmap(None,0)", jax.vmap(f, in_axes=(None, 0)), [shapes[0], sh_ins(shapes[1], 0)]))
        if len(shapes[1]) >= 1:
            T.append(("vmap(0,1)", jax.vmap(f, in_axes=(0, 1)), [sh_ins(shapes[0], 0), sh_ins(shapes[1], 1)]))
            T.append(("vmap(0,-1)", jax.vmap(f, in_axes=(0, -1)), [sh_ins(shapes[0], 0), sh_ins(shapes[1], len(shapes[1]))]))
        if len(shapes[0]) >= 1 and len(shapes[1]) >= 1:
            T.append(("vmap(1,1)", jax.vmap(f, in_axes=(1, 1)), [sh_ins(shapes[0], 1), sh_ins(shapes[1], 1)]))
        if len(shapes[0]) >= 1:
            T.append(("vmap(1,0)", jax.vmap(f, in_axes=(1, 0)), [sh_ins(shapes[0], 1), sh_ins(shapes[1], 0)]))
            T.append(("vmap(1,None)", jax.vmap(f, in_axes=(1, None)), [sh_ins(shapes[0], 1), shapes[1]]))
    # ---- jit / nested jit / checkpoint
    jf = jax.jit(f)
    T.append(("jit", jf, shapes))
    T.append(("nested_jit", jax.jit(lambda *a: jax.jit(lambda *b: jf(*b) * 1.0)(*a) + jf(*a)), shapes))
    T.append(("checkpoint", jax.checkpoint(f), shapes))
    T.append(("vmap_of_jit", jax.vmap(jf), [sh_ins(s, 0) for s in shapes]))
    # ---- autodiff (scalarised by a weighted sum so that the cotangent is not uniform)
    def scal(*a):
        r = f(*a)
        w = jnp.arange(1.0, 1.0 + r.size, dtype=r.dtype).reshape(r.shape) / r.size
        return jnp.sum(r * w)
    T.append(("grad", jax.grad(scal), shapes))
    T.append(("value_and_grad", jax.value_and_grad(scal), shapes))
    if n == 2:
        T.append(("grad_argnums(0,1)", jax.grad(scal, argnums=(0, 1)), shapes))
    T.append(("jvp", lambda *pt: jax.jvp(f, tuple(pt[:n]), tuple(pt[n:])), list(shapes) + list(shapes)))
    T.append(("vjp", lambda *pc: jax.vjp(f, *pc[:n])[1](pc[n]), list(shapes) + [out_shape]))
    T.append(("grad_of_checkpoint", jax.grad(jax.checkpoint(scal)), shapes))
    T.append(("grad_of_jit", jax.grad(jax.jit(scal)), shapes))
    T.append(("vmap_of_grad", jax.vmap(jax.grad(scal)), [sh_ins(s, 0) for s in shapes]))
    # ---- custom_jvp / custom_vjp wrappers around f (rules derived from f itself, scaled to be recognisable)
    cj = jax.custom_jvp(f)

    @cj.defjvp
    def _cj_rule(primals, tangents):
        p, t = jax.jvp(f, primals, tangents)
        return p, t
    T.append(("custom_jvp", cj, shapes))
    T.append(("grad_of_custom_jvp", jax.grad(lambda *a: jnp.sum(cj(*a) * 1.5)), shapes))
    cv = jax.custom_vjp(f)
    cv.defvjp(lambda *a: (f(*a), a), lambda res, ct: tuple(jax.vjp(f, *res)[1](ct)))
    T.append(("custom_vjp", cv, shapes))
    T.append(("grad_of_custom_vjp", jax.grad(lambda *a: jnp.sum(cv(*a) * 1.5)), shapes))
    T.append(("vmap_of_custom_jvp", jax.vmap(cj), [sh_ins(s, 0) for s in shapes]))
    return T


# (transformation, function) pairs whose refusal is a finding of its own: differentiation through jnp.add with operands of different rank
# (bias + matrix) -- the forwarded lax.add_p rules need equal ranks
MUST_EXPORT = {("grad", "add_mixed"), ("jvp", "add_mixed"), ("vjp", "add_mixed"), ("value_and_grad", "add_mixed"),
               ("grad_argnums(0,1)", "add_mixed")}
T_PRIORITY = ["vmap0", "vmap(0,None)", "vmap(None,0)", "vmap(1,0)", "vmap(0,1)", "vmap1", "vmap-1", "vmap0_out1", "grad", "vjp", "jvp", "jit", "nested_jit",
              "custom_jvp", "custom_vjp", "checkpoint", "value_and_grad", "grad_of_custom_vjp"]
QUICK_T = {"vmap0", "vmap(0,None)", "vmap(None,0)", "vmap(1,0)", "vmap(0,1)", "vmap1", "vmap-1", "vmap0_out1", "jit", "nested_jit", "grad",
           "jvp", "vjp", "checkpoint", "custom_jvp", "custom_vjp", "grad_of_custom_vjp", "value_and_grad"}


def _run_one(fn, shapes, rng, rtol=RTOL, atol=ATOL, ins=None):
    """-> ("ok"|"mismatch"|"reject"|"ref_error", detail)"""
    import jax
    import onnxruntime as ort
    from jax2onnx import to_onnx
    if ins is None:
        ins = [rng.uniform(-1.5, 1.5, size=s).astype(np.float32) for s in shapes]
    else:
        ins = [np.asarray(a, dtype=np.float32) for a in ins]
        shapes = [a.shape for a in ins]
    try:
        ref = _tree_np(fn(*ins))            # eager JAX first (also: a jitted callable is traced outside the conversion)
    except Exception as e:
        return "ref_error", f"{type(e).__name__}: {str(e)[:120]}"
    try:
        model = to_onnx(fn, [jax.ShapeDtypeStruct(s, np.float32) for s in shapes])
    except Exception as e:
        return "reject", f"{type(e).__name__}: {str(e)[:160]}"
    try:
        so = ort.SessionOptions()
        so.log_severity_level = 4
        sess = ort.InferenceSession(model.SerializeToString(), so, providers=["CPUExecutionProvider"])
        names = [i.name for i in sess.get_inputs()]
        if len(names) != len(ins):
            return "mismatch", f"model has {len(names)} inputs, the function {len(ins)}"
        out = sess.run(None, dict(zip(names, ins)))
    except Exception as e:
        return "mismatch", f"onnxruntime cannot load/run the exported model: {type(e).__name__}: {str(e)[:160]}"
    if len(out) != len(ref):
        return "mismatch", f"{len(out)} outputs instead of {len(ref)}"
    for k, (r, o) in enumerate(zip(ref, out)):
        if tuple(r.shape) != tuple(o.shape):
            return "mismatch", f"output {k}: shape {tuple(o.shape)} instead of {tuple(r.shape)}"
        if not np.allclose(r.astype(np.float64), np.asarray(o, dtype=np.float64), rtol=rtol, atol=atol, equal_nan=True):
            d = float(np.max(np.abs(r.astype(np.float64) - np.asarray(o, dtype=np.float64))))
            return "mismatch", f"output {k}: values differ (max abs diff {d:.4g})"
    return "ok", ""


def explore(ctx, budget_s):
    F = _functions()
    seed = ctx.rng.randint(0, 2 ** 31 - 1)
    t0 = time.time()
    stats = {"ok": 0, "mismatch": 0, "reject": 0, "ref_error": 0}
    perT = {}
    rejects = {}
    done = 0
    skipped_budget = 0
    jobs = []
    unsupported = {}
    for name, spec in F.items():
        # "for every SUPPORTED f": the un-transformed f must itself export and agree with JAX (else it is property C01's business)
        res, detail = _run_one(spec["fn"], spec["shapes"], np.random.RandomState((seed + hash_str(name)) % (2 ** 31 - 1)))
        if res != "ok":
            unsupported[name] = f"{res}: {detail}"
            continue
        try:
            Ts = _transforms(name, spec)
        except Exception as e:
            ctx.oblige(f"harness:transforms-of-{name}", False, "tie", f"{type(e).__name__}: {e}")
            continue
        for (tn, fn, shapes) in Ts:
            if ctx.tier == "quick" and tn not in QUICK_T:
                continue
            jobs.append((name, tn, fn, shapes))
    # spread the budget over all functions: transformation-major order
    order = {}
    for j in jobs:
        order.setdefault(j[1], []).append(j)
    prio = {t: i for i, t in enumerate(T_PRIORITY)}
    jobs = [j for tn in sorted(order, key=lambda t: (prio.get(t, len(prio)), t)) for j in order[tn]]
    for (name, tn, fn, shapes) in jobs:
        if time.time() - t0 > budget_s:
            skipped_budget += 1
            continue
        rng = np.random.RandomState((seed + hash_str(name + "|" + tn)) % (2 ** 31 - 1))
        res, detail = _run_one(fn, shapes, rng)
        done += 1
        stats[res] += 1
        perT.setdefault(tn, {"ok": 0, "mismatch": 0, "reject": 0, "ref_error": 0})[res] += 1
        if res == "reject":
            rejects.setdefault(detail.split(":")[0], []).append(f"{tn}:{name}")
            if (tn, name) in MUST_EXPORT:
                ctx.violate(f"reject:{tn}:{name}",
                            f"export of {tn}({name}) (input shapes {shapes}) is refused although the un-transformed function exports and JAX "
                            f"evaluates the transformed one: {detail}",
                            {"kind": "transform", "T": tn, "f": name, "seed": int(seed)})
        if res == "mismatch":
            ctx.violate(f"transform:{tn}:{name}",
                        f"export of {tn}({name}) (input shapes {shapes}) does not compute what JAX computes: {detail}",
                        {"kind": "transform", "T": tn, "f": name, "seed": int(seed)})
        if len(ctx.samples) < 12 and res == "ok" and done % 17 == 0:
            ctx.samples.append({"T": tn, "f": name, "shapes": [list(s) for s in shapes], "result": "agrees with JAX"})
    ctx.coverage.update({"transform_exports": done, "transform_results": stats, "per_transformation": perT,
                         "functions": len(F), "functions_not_supported_untransformed": unsupported,
                         "transform_jobs_skipped_for_time_budget": skipped_budget,
                         "loud_rejections_by_exception": {k: len(v) for k, v in rejects.items()},
                         "loud_rejection_examples": {k: v[:6] for k, v in rejects.items()}})
    return stats


def hash_str(s):
    import hashlib
    return int(hashlib.sha1(s.encode()).hexdigest()[:8], 16)


# ===================================================================== hand-written differentiation rules on boundary inputs
BV = [-20.0, -2.0, -1.0, -1e-3, 0.0, 1e-3, 1.0, 2.0, 20.0]          # kinks at 0, saturation at +-20


def _rule_families():
    """plugin module (path under jax2onnx/plugins) whose JVP / transpose rule is HAND-WRITTEN -> [(case, f, [boundary inputs])].
    The inputs sit on the case splits of the rule (kinks, exact zeros, ties, repeated indices, size-1 axes)."""
    import jax
    import jax.numpy as jnp
    bv = np.asarray(BV, np.float32)
    P = np.asarray([[0, 5, 0], [2, 0, 3], [1, 2, 3], [0, 0, 0], [-1, 2, -3]], np.float32)     # 2 / 1 / 0 / 3 zeros, negatives
    P1 = np.asarray([[0.0], [2.0], [-3.0], [1.0]], np.float32)                                  # size-1 reduced axis
    C = np.asarray([[0, 0, 2], [0, 4, 0], [3, 0, 0]], np.float32)                               # every column has exactly 2 zeros
    T3 = np.asarray([[1, 3, 3, 2], [2, 2, 2, 2], [-1, -5, -1, 0]], np.float32)                  # ties
    Y3 = np.asarray([[1, 0, 3, 5], [2, 2, 0, 2], [0, -5, -1, 1]], np.float32)
    sel = np.asarray([-1.0, 0.0, 0.5, 1.0, 1.5, 0.0, 1.0], np.float32)
    F = {
        "jax/nn/relu": [("relu", lambda x: jax.nn.relu(x), [bv])],
        "jax/nn/leaky_relu": [("leaky_relu", lambda x: jax.nn.leaky_relu(x), [bv]),
                              ("leaky_relu_0.2", lambda x: jax.nn.leaky_relu(x, negative_slope=0.2), [bv])],
        "jax/nn/elu": [("elu", lambda x: jax.nn.elu(x), [bv]), ("elu_0.5", lambda x: jax.nn.elu(x, alpha=0.5), [bv])],
        "jax/nn/celu": [("celu", lambda x: jax.nn.celu(x), [bv]), ("celu_2", lambda x: jax.nn.celu(x, alpha=2.0), [bv])],
        "jax/nn/selu": [("selu", lambda x: jax.nn.selu(x), [bv])],
        "jax/nn/softsign": [("softsign", lambda x: jax.nn.soft_sign(x), [bv])],
        "jax/nn/sigmoid": [("sigmoid", lambda x: jax.nn.sigmoid(x), [bv])],
        "jax/nn/silu": [("silu", lambda x: jax.nn.silu(x), [bv])],
        "jax/nn/gelu": [("gelu_tanh", lambda x: jax.nn.gelu(x, approximate=True), [bv / 4]),
                        ("gelu_erf", lambda x: jax.nn.gelu(x, approximate=False), [bv / 4])],
        "jax/nn/mish": [("mish", lambda x: jax.nn.mish(x), [bv])],
        "jax/nn/softplus": [("softplus", lambda x: jax.nn.softplus(x), [bv])],
        "jax/numpy/prod": [("prod_rows", lambda x: jnp.prod(x, axis=1), [P]),
                           ("prod_cols", lambda x: jnp.prod(x, axis=0), [C]),
                           ("prod_all", lambda x: jnp.prod(x), [C]),
                           ("prod_all_onezero", lambda x: jnp.prod(x), [np.asarray([[2, 0], [3, -1]], np.float32)]),
                           ("prod_keepdims", lambda x: jnp.prod(x, axis=1, keepdims=True), [P]),
                           ("prod_size1_axis", lambda x: jnp.prod(x, axis=1), [P1]),
                           ("prod_tuple_axes", lambda x: jnp.prod(x, axis=(0, 2)), [np.stack([P, P[::-1]])])],
        "jax/numpy/where": [("where_ties", lambda x, y: jnp.where(x > y, x, y * 2.0), [T3, Y3]),
                            ("where_const_cond", lambda x, y: jnp.where(T3 >= 2.0, x * x, y), [T3, Y3])],
        "jax/numpy/select": [("select_boundaries", lambda x: jnp.select([x > 1.0, x > 0.0], [x * 2.0, x * x], default=-x), [sel])],
        "jax/numpy/take": [("take_repeated", lambda x: jnp.take(x, np.asarray([0, 2, 2, 0, 3])) * x[1], [np.asarray([1.5, -2.0, 0.0, 3.0], np.float32)]),
                           ("take_axis1", lambda x: jnp.take(x, np.asarray([3, 3, 0]), axis=1), [T3])],
        "jax/numpy/sum": [("sum_all", lambda x: jnp.sum(x * x), [T3]), ("sum_axis0", lambda x: jnp.sum(x * x, axis=0), [T3]),
                          ("sum_keepdims", lambda x: jnp.sum(jnp.sin(x), axis=1, keepdims=True), [T3]),
                          ("sum_tuple", lambda x: jnp.sum(x * x, axis=(0, 2)), [np.stack([P, P[::-1]])])],
        "jax/numpy/stack": [("stack0", lambda x: jnp.stack([x, 2.0 * x, x * x]), [bv[2:7]]),
                            ("stack1", lambda x: jnp.stack([x, jnp.sin(x)], axis=1), [T3])],
    }
    # rules DERIVED from the original implementation (safe by construction) sampled at their ties / kinks as well
    D = {
        "derived:max_ties": ("max_ties", lambda x: jnp.max(x, axis=1), [T3]),
        "derived:min_ties": ("min_ties", lambda x: jnp.min(x, axis=1), [T3]),
        "derived:maximum_ties": ("maximum_ties", lambda x, y: jnp.maximum(x, y), [T3, np.where(Y3 > 1, T3, Y3).astype(np.float32)]),
        "derived:abs_kink": ("abs_kink", lambda x: jnp.abs(x) * x, [bv]),
        "derived:clip_edges": ("clip_edges", lambda x: jnp.clip(x, -1.0, 1.0), [bv]),
        "derived:cumsum_prodlike": ("cumsum", lambda x: jnp.cumsum(x * x, axis=1), [T3]),
        "derived:sort_repeated": ("sort_repeated", lambda x: jnp.sort(x, axis=1) * jnp.asarray([1.0, 2.0, 3.0, 4.0], dtype=x.dtype), [T3]),
    }
    return F, D


def _rule_transforms(f, ins):
    """grad / jvp / vjp / vmap-of-grad of f at the boundary inputs (all deterministic)"""
    import jax
    import jax.numpy as jnp
    n = len(ins)
    out = jax.eval_shape(f, *[jax.ShapeDtypeStruct(a.shape, jnp.float32) for a in ins])

    def scal(*a):
        r = f(*a)
        w = (jnp.arange(1.0, 1.0 + r.size, dtype=r.dtype).reshape(r.shape)) / max(1, r.size)
        return jnp.sum(r * w)
    tang = [(np.cos(np.arange(a.size, dtype=np.float32)) + 0.5).reshape(a.shape).astype(np.float32) for a in ins]
    ct = (np.sin(np.arange(int(np.prod(out.shape)) if out.shape else 1, dtype=np.float32)) + 1.5).reshape(out.shape).astype(np.float32)
    argn = tuple(range(n))
    return [
        ("grad", jax.grad(scal, argnums=argn), list(ins)),
        ("jvp", lambda *pt: jax.jvp(f, tuple(pt[:n]), tuple(pt[n:])), list(ins) + tang),
        ("vjp", lambda *pc: jax.vjp(f, *pc[:n])[1](pc[n]), list(ins) + [ct]),
        ("vmap_grad", jax.vmap(jax.grad(scal, argnums=argn)), [np.stack([a, a[::-1]]) for a in ins]),
    ]


def explore_rules(ctx, budget_s, handwritten_modules):
    """every plugin with a hand-written JVP/transpose rule (inventory: gen/GenAutodiff.v) has a boundary family here"""
    F, D = _rule_families()
    missing = sorted(m for m in handwritten_modules if m not in F)
    ctx.oblige(f"tie:every-hand-written-differentiation-rule-has-a-boundary-family({len(handwritten_modules)} plugins)", not missing, "tie",
               "" if not missing else f"no boundary program family for {missing}")
    t0 = time.time()
    stats = {"ok": 0, "mismatch": 0, "reject": 0, "ref_error": 0}
    per = {}
    skipped = 0
    order = sorted(F, key=lambda m: (m != "jax/numpy/prod", m))
    jobs = [(m, c) for m in order for c in F[m]] + [(k, v) for k, v in D.items()]
    for mod, (case, f, ins) in jobs:
        try:
            Ts = _rule_transforms(f, ins)
        except Exception as e:
            ctx.oblige(f"harness:rule-family-{case}", False, "tie", f"{type(e).__name__}: {e}")
            continue
        for (tn, g, gin) in Ts:
            if time.time() - t0 > budget_s:
                skipped += 1
                continue
            res, detail = _run_one(g, None, None, ins=gin)
            stats[res] += 1
            per.setdefault(mod, {"ok": 0, "mismatch": 0, "reject": 0, "ref_error": 0})[res] += 1
            if res == "mismatch":
                ctx.violate(f"rule:{tn}:{mod}:{case}",
                            f"export of {tn}({case}) at the boundary input {[np.asarray(a).tolist() for a in gin][0]} does not compute what JAX computes: {detail}",
                            {"kind": "rule", "T": tn, "module": mod, "case": case})
    ctx.coverage.update({"rule_boundary_exports": sum(stats.values()), "rule_boundary_results": stats, "rule_boundary_per_plugin": per,
                         "rule_boundary_jobs_skipped_for_time_budget": skipped})
    return stats


def _handwritten_rule_modules():
    import importlib.util
    p = os.path.join(common.VERIF, "tools", "units", "c10_units.py")
    spec = importlib.util.spec_from_file_location("c10_units_for_harness", p)
    mod = importlib.util.module_from_spec(spec)
    spec.loader.exec_module(mod)
    inv = mod._rule_inventory()
    return sorted(set(inv["jvp_hand"]) | set(inv["transpose_hand"])), inv


def tie_prod_model(ctx):
    """Linear.ProdJvp (the three-case tangent and the product rule) against JAX's own jvp of jnp.prod on integer slices"""
    import jax
    import jax.numpy as jnp
    rng = ctx.rng
    rows = [([0, 5, 0], [1, 0, 0]), ([0, 5, 0], [3, 1, 3]), ([2, 0, 3], [1, 1, 1]), ([1, 2, 3], [1, -1, 2]), ([0, 0, 0], [1, 2, 3]), ([0], [4]), ([-3], [2]),
            ([], [])]
    while len(rows) < (40 if ctx.tier == "quick" else 200):
        n = rng.randint(1, 5)
        rows.append(([rng.choice([0, 0, 1, -1, 2, -2, 3, 5]) for _ in range(n)], [rng.randint(-3, 3) for _ in range(n)]))
    items = []
    for x, t in rows:
        if x:
            _, tv = jax.jvp(lambda v: jnp.prod(v), (jnp.asarray(x, jnp.float32),), (jnp.asarray(t, jnp.float32),))
            tv = int(round(float(tv)))
        else:
            tv = 0
        items.append((x, t, tv))
    q = lambda l: "[" + "; ".join(f"({int(v)}#1)" for v in l) + "]"
    txt = ("From Coq Require Import QArith List Bool.\nFrom J2O Require Import Linear.\nImport ListNotations.\n"
           "Set Printing Width 1000000.\n"
           "Fixpoint bad_idx_ {A} (f : A -> bool) (i : nat) (l : list A) : list nat :=\n"
           "  match l with [] => [] | x :: r => if f x then bad_idx_ f (S i) r else i :: bad_idx_ f (S i) r end.\n"
           "Definition cs : list (list Q * list Q * Q) := [" + ";\n ".join(f"({q(x)}, {q(t)}, ({tv}#1))" for x, t, tv in items) + "].\n"
           "Eval vm_compute in bad_idx_ (fun c => let '(x, t, v) := c in Qeq_bool (ProdJvp.prod_jvp_three x t) v && Qeq_bool (ProdJvp.dprod x t) v) 0%nat cs.\n")
    ok, out = common.coq_eval_file(ctx, "c10_prodjvp", txt)
    bad = common.coq_bad_indices(out) if ok else None
    ctx.oblige(f"tie:ProdJvp-model-equals-jax.jvp(jnp.prod)({len(items)} integer slices)", ok and bad == [], "tie",
               out[-800:] if (not ok or bad is None) else ("" if not bad else f"differ on {[items[i] for i in bad[:4]]}"))
    ctx.coverage["prod_model_slices"] = {"total": len(items), "with_two_or_more_zeros": sum(1 for x, _, _ in items if x.count(0) >= 2),
                                         "with_exactly_one_zero": sum(1 for x, _, _ in items if x.count(0) == 1)}


# ===================================================================== second-order programs through DERIVED jvp rules
def _second_order_programs():
    """nested differentiation through substitute primitives whose JVP is derived (register_jvp_via_jax_jvp): the outer derivative
    goes through values the inner one treats as constants (mixed partials, gradient penalty)"""
    import jax
    import jax.numpy as jnp
    x5 = np.asarray([-1.2, -0.4, 0.3, 0.9, 1.6], np.float32)
    y5 = np.asarray([1.5, 2.0, 0.7, 1.1, 3.0], np.float32)
    W = np.linspace(-0.8, 0.9, 15, dtype=np.float32).reshape(3, 5)
    w5 = jnp.asarray([1.0, -2.0, 0.5, 3.0, 1.5], dtype=jnp.float32)
    H = {
        "tanh": lambda x: jnp.sum(jnp.tanh(x) * x),
        "sin_exp": lambda x: jnp.sum(jnp.sin(x) * jnp.exp(0.5 * x)),
        "log_sqrt": lambda x: jnp.sum(jnp.log(x * x + 1.0) * jnp.sqrt(x * x + 0.5)),
        "power": lambda x: jnp.sum(jnp.power(jnp.abs(x) + 1.0, 2.5)),
        "logsumexp": lambda x: jax.nn.logsumexp(x * x),
        "square_cos": lambda x: jnp.sum(jnp.square(jnp.cos(x)) / (1.0 + jnp.square(x))),
    }
    P = []
    for nm, h in H.items():
        g = jax.grad(h)
        P.append((f"grad_grad:{nm}", jax.grad(lambda x, g=g: jnp.sum(g(x) * w5)), [x5]))
        P.append((f"jacfwd_grad:{nm}", jax.jacfwd(g), [x5]))
        P.append((f"jvp_jvp:{nm}", lambda x, t, h=h: jax.jvp(lambda u: jax.jvp(h, (u,), (t,))[1], (x,), (t * 0.5 + 1.0,)), [x5, y5]))
        P.append((f"vmap_grad_grad:{nm}", jax.vmap(jax.grad(lambda x, g=g: jnp.sum(g(x) * w5))), [np.stack([x5, x5[::-1], y5])]))
    # mixed partials: d/dy of (d/dx f(x, y)) . w
    F2 = {
        "xsq_over_y": lambda x, y: jnp.sum(jnp.divide(jnp.multiply(x, x), y)),
        "x_times_tanh_y": lambda x, y: jnp.sum(jnp.multiply(x, jnp.tanh(y)) + jnp.sin(x) * y),
        "matvec_tanh": lambda Wm, x: jnp.sum(jnp.tanh(jnp.matmul(Wm, x))),
        "maximum_mix": lambda x, y: jnp.sum(jnp.maximum(x * y, x + y) * x),
    }
    for nm, f in F2.items():
        a0, a1 = (W, x5) if nm == "matvec_tanh" else (x5, y5)
        inner = jax.grad(f, argnums=1 if nm == "matvec_tanh" else 0)            # d/dx (the second argument for matvec)
        outer_arg = 0 if nm == "matvec_tanh" else 1                            # then d/dW resp. d/dy
        P.append((f"mixed_partial:{nm}", jax.grad(lambda a, b, inner=inner: jnp.sum(inner(a, b) * w5), argnums=outer_arg), [a0, a1]))
        P.append((f"gradient_penalty:{nm}", jax.grad(lambda a, b, inner=inner: jnp.sum(inner(a, b) ** 2), argnums=outer_arg), [a0, a1]))
    return P


def explore_second_order(ctx):
    stats = {"ok": 0, "mismatch": 0, "reject": 0, "ref_error": 0}
    rej = []
    for (name, fn, ins) in _second_order_programs():
        res, detail = _run_one(fn, None, None, ins=ins)
        stats[res] += 1
        if res == "reject":
            rej.append(f"{name}: {detail[:80]}")
        if res == "mismatch":
            ctx.violate(f"second-order:{name}",
                        f"export of the nested derivative {name} at {[np.asarray(a).tolist() for a in ins][0]} does not compute what JAX computes: {detail}",
                        {"kind": "second", "name": name})
    ctx.coverage.update({"second_order_exports": sum(stats.values()), "second_order_results": stats, "second_order_rejections": rej[:6]})
    return stats


# ===================================================================== exploration: vmap over the testcase registry
def _registry_selection():
    """registry testcases of the substitute primitives with static float32 inputs (deterministic order)"""
    import exports
    sel = []
    for tp in exports.registry_items():
        if exports.tp_double(tp) or not str(tp.get("context", "")).startswith("primitives."):
            continue
        if tp.get("input_values") is not None or tp.get("input_dtypes") or tp.get("input_params"):
            continue
        if tp.get("inputs_as_nchw") or tp.get("outputs_as_nchw"):
            continue
        sh = tp.get("input_shapes")
        if not sh or not all(isinstance(x, (tuple, list)) and all(isinstance(d, (int, np.integer)) for d in x) for x in sh):
            continue
        sel.append(tp)
    return sel


def _registry_one(tp):
    """-> (status, detail) for vmap(f) of a registry testcase f; status in ok/mismatch/reject/ref_error/unsupported/nondet"""
    import jax
    import exports
    key = exports.tp_key(tp)
    try:
        f = exports.tp_callable(tp, False)
    except Exception as e:
        return "unsupported", f"cannot instantiate: {type(e).__name__}"
    shapes = [tuple(x) for x in tp["input_shapes"]]
    res, detail = _run_one(f, shapes, np.random.RandomState(hash_str(key) % (2 ** 31 - 1)))
    if res != "ok":
        return "unsupported", f"un-transformed: {res}: {detail}"
    ins = [np.random.RandomState(7).uniform(-1.5, 1.5, size=x).astype(np.float32) for x in shapes]
    try:
        a, b = _tree_np(f(*ins)), _tree_np(f(*ins))
        if len(a) != len(b) or any(not np.array_equal(u, v, equal_nan=True) for u, v in zip(a, b)):
            return "nondet", ""
    except Exception:
        return "nondet", ""
    # registry callables are arbitrary (ill-conditioned ones included): only differences far above float32 noise count
    return _run_one(jax.vmap(f), [(3,) + x for x in shapes], np.random.RandomState(hash_str(key + "|vmap0") % (2 ** 31 - 1)),
                    rtol=REG_RTOL, atol=REG_ATOL)


def _registry_worker(offset, stride, budget_s):
    """child process: prints one JSON line per testcase"""
    import logging
    import sys
    logging.disable(logging.CRITICAL)
    import exports
    t0 = time.time()
    sel = _registry_selection()
    for tp in sel[offset::stride]:
        if time.time() - t0 > budget_s:
            print(json.dumps({"key": exports.tp_key(tp), "status": "skipped_budget", "detail": ""}), flush=True)
            continue
        try:
            st, d = _registry_one(tp)
        except Exception as e:                           # harness-side problem with this testcase: not a verdict
            st, d = "unsupported", f"harness: {type(e).__name__}: {str(e)[:100]}"
        print(json.dumps({"key": exports.tp_key(tp), "status": st, "detail": d}), flush=True)
    sys.stdout.flush()


def explore_registry(ctx, budget_s, workers=3):
    import subprocess
    import sys
    env = dict(os.environ)
    procs = [subprocess.Popen([sys.executable, os.path.abspath(__file__), "registry", str(k), str(workers), str(int(budget_s))],
                              stdout=subprocess.PIPE, stderr=subprocess.DEVNULL, text=True, env=env) for k in range(workers)]
    stats = {}
    rejects = []
    n = 0
    for p in procs:
        try:
            out, _ = p.communicate(timeout=budget_s + 240)
        except subprocess.TimeoutExpired:
            p.kill()
            out, _ = p.communicate()
        for line in out.splitlines():
            try:
                r = json.loads(line)
            except Exception:
                continue
            n += 1
            stats[r["status"]] = stats.get(r["status"], 0) + 1
            if r["status"] == "mismatch":
                ctx.violate(f"registry:vmap0:{r['key']}",
                            f"export of vmap(f) for the registry testcase {r['key']} does not compute what JAX computes: {r['detail']}",
                            {"kind": "registry", "key": r["key"]})
            elif r["status"] == "reject" and len(rejects) < 8:
                rejects.append(f"{r['key']}: {r['detail'][:80]}")
    ctx.coverage.update({"registry_vmap_testcases": n, "registry_vmap_results": stats, "registry_vmap_rejection_examples": rejects})
    return stats


# ===================================================================== run / replay
def run(ctx):
    ctx.trusted_base = [
        "Coq 8.16.1 kernel; vm_compute (no native_compute); all 17 theorems closed under the global context (no axioms)",
        "theories/Tensor.v + Batch.v: tensors as shape + index function; numpy broadcasting (bcast_shape/balign); the DEFINITION of vmap "
        "(vmap_spec = stack of per-example results), cross-checked against numpy on this run",
        "Batch.batcher_with: hand-written Gallina image of broadcast_batcher_compat (statement list AST-checked by gen/GenAutodiff.v, behaviour "
        "compared with the real function on generated operands on this run); jax.interpreters.batching.bdim_at_front/moveaxis/broadcast and "
        "lax.expand_dims as called there",
        "Lowering.v dispatcher model (shared with C16) and Inline.v renaming; the hypotheses plugin_equivariant / reg_protects on plugins",
        "Linear.v: the assignment name -> denotation family (checked on the real jax.numpy functions with integer data on this run)",
        "tools/py2coq.translate_constants + tools/units/c10_units.py (lists read from the current source)",
        "onnxruntime CPU as the ONNX semantics, jax (eager) as the reference for T(f); float32, rtol 1e-4 / atol 1e-5",
    ]
    phases = {}
    t = time.time()
    common.build_props(ctx, "C10", GEN_UNITS)
    phases["coq_build_s"] = round(time.time() - t, 1)
    t = time.time()
    tie_batcher(ctx)
    tie_reduction_rules(ctx)
    tie_reduction_keepdims_rule(ctx)
    tie_inline(ctx)
    tie_linear(ctx)
    tie_prod_model(ctx)
    phases["ties_s"] = round(time.time() - t, 1)
    t = time.time()
    try:
        hand, inv = _handwritten_rule_modules()
        ctx.coverage["rule_inventory"] = {k: len(v) for k, v in inv.items()}
    except Exception as e:                         # the inventory failed closed (also reported by translate:GenAutodiff)
        hand = []
        ctx.oblige("tie:rule-inventory", False, "tie", f"{type(e).__name__}: {e}")
    rule_stats = explore_rules(ctx, 60.0 if ctx.tier == "quick" else 300.0, hand)
    so_stats = explore_second_order(ctx)
    phases["rules_s"] = round(time.time() - t, 1)
    t = time.time()
    # time budgets are per phase (a loaded machine skips jobs, it never changes a verdict)
    stats = explore(ctx, 95.0 if ctx.tier == "quick" else 420.0)
    phases["explore_s"] = round(time.time() - t, 1)
    rstats = {}
    if ctx.tier != "quick":
        t = time.time()
        rstats = explore_registry(ctx, max(120.0, min(600.0, 1380 - (time.time() - ctx.t0))))
        phases["registry_s"] = round(time.time() - t, 1)
    ctx.coverage["phase_seconds"] = phases
    ctx.level = "proof"
    ctx.coverage.update({
        "evaluations": ctx.coverage.get("batcher_cases", 0) + ctx.coverage.get("transform_exports", 0) + ctx.coverage.get("linear_evaluations", 0)
        + ctx.coverage.get("registry_vmap_testcases", 0) + ctx.coverage.get("rule_boundary_exports", 0)
        + ctx.coverage.get("second_order_exports", 0),
        "distinct_nontrivial": ctx.coverage.get("transform_exports", 0) - stats["reject"] - stats["ref_error"]
        + rstats.get("ok", 0) + rstats.get("mismatch", 0) + rule_stats["ok"] + rule_stats["mismatch"]
        + so_stats["ok"] + so_stats["mismatch"],
        "rule": "non-trivial = a (transformation, function) pair that exported and was compared numerically with JAX; batcher cases: generated "
                "(operand shapes, batch dims) with numpy-compatible per-example shapes, ranks 0..3, incl. rank-deficient batched operands",
        "level_detail": "proof (batch rule, inlining, allow-list linearity) + exploration of T(f) on the real exporter; per-plugin batching/"
                        "differentiation rules of the ~300 substitute primitives are explored, not proved",
    })
    ctx.assumptions += [
        "the batch-rule theorems cover the SHARED rule for binary primitives; n-ary users (where/select/clip) and per-plugin hand-written rules are covered by exploration only",
        "`elementwise prim op` is a hypothesis per registering plugin: classified by name in Linear.elementwise_batcher_users (dot/matmul are contractions: refuted), tested by exploration",
        "Inline theorems assume plugins use jaxpr variables only as keys of the binding table (plugin_equivariant) and rebind only their own outvars/body variables (reg_protects)",
        "JAX 0.11 traces no DropVar instances into jaxprs (probed); a DropVar would be freshened into an ordinary Var",
        "numeric comparison at float32 with rtol 1e-4/atol 1e-5 on one seeded input per (T, f)",
    ]
    return ctx


def replay(path):
    import jax  # noqa: F401
    r = json.load(open(path))["replay"]
    if r.get("kind") == "batcher":
        from jax2onnx.plugins.jax._batching_utils import broadcast_batcher_compat
        sx, sy = tuple(r["x_shape"]), tuple(r["y_shape"])
        xa = np.arange(int(np.prod(sx)) if sx else 1).reshape(sx)
        ya = (np.arange(int(np.prod(sy)) if sy else 1) * 7 % 10).reshape(sy)
        ref = _np_vmap_ref(xa, r["x_bdim"], ya, r["y_bdim"])
        try:
            out, od = broadcast_batcher_compat(_RecPrim(), (xa, ya), (r["x_bdim"], r["y_bdim"]))
            good = np.array_equal(np.moveaxis(np.asarray(out), od, 0), ref)
            print("real batcher:", np.asarray(out).shape, "bdim", od, "| vmap reference:", ref.shape, "->", "ok" if good else "still violated")
        except Exception as e:
            good = False
            print("real batcher raises", type(e).__name__, e, "-> still violated")
        return 0 if good else 1
    if r.get("kind") == "second":
        for (name, fn, ins) in _second_order_programs():
            if name == r["name"]:
                res, detail = _run_one(fn, None, None, ins=ins)
                print(f"{name}: {res} {detail}")
                return 1 if res == "mismatch" else 0
        print("program not found")
        return 2
    if r.get("kind") == "rule":
        F, D = _rule_families()
        cases = [c for c in F.get(r["module"], []) if c[0] == r["case"]] + [v for k, v in D.items() if k == r["module"] and v[0] == r["case"]]
        for (case, f, ins) in cases:
            for (tn, g, gin) in _rule_transforms(f, ins):
                if tn == r["T"]:
                    res, detail = _run_one(g, None, None, ins=gin)
                    print(f"{tn}({case}): {res} {detail}")
                    return 1 if res == "mismatch" else 0
        print("rule case not found")
        return 2
    if r.get("kind") == "reduction_keepdims":
        c = common.Ctx("C10", "quick", 0)
        tie_reduction_keepdims_rule(c)
        badl = [v for v in c.violations if v["key"].startswith("reduction-batch-rule:shared")]
        print("shared reduction batch rule ->", "still violated: " + badl[0]["what"] if badl else "ok")
        c.cleanup()
        return 1 if badl else 0
    if r.get("kind") == "reduction":
        c = common.Ctx("C10", "quick", 0)
        c.rng.seed(0)
        tie_reduction_rules(c)
        badl = [v for v in c.violations if v["key"] == f"reduction-batch-rule:{r['rule']}"]
        print("reduction batch rule", r["rule"], "->", "still violated: " + badl[0]["what"] if badl else "ok")
        c.cleanup()
        return 1 if badl else 0
    if r.get("kind") == "registry":
        import exports
        tp = [t for t in exports.registry_items() if exports.tp_key(t) == r["key"]]
        if not tp:
            print("registry testcase no longer exists")
            return 2
        st, d = _registry_one(tp[0])
        print(f"vmap({r['key']}): {st} {d}")
        return 1 if st == "mismatch" else 0
    F = _functions()
    spec = F[r["f"]]
    for (tn, fn, shapes) in _transforms(r["f"], spec):
        if tn == r["T"]:
            rng = np.random.RandomState((int(r["seed"]) + hash_str(r["f"] + "|" + tn)) % (2 ** 31 - 1))
            res, detail = _run_one(fn, shapes, rng)
            print(f"{tn}({r['f']}): {res} {detail}")
            return 1 if res == "mismatch" or (res == "reject" and (tn, r["f"]) in MUST_EXPORT) else 0
    print("transformation not found")
    return 2


if __name__ == "__main__":
    import sys
    if len(sys.argv) >= 5 and sys.argv[1] == "registry":
        _registry_worker(int(sys.argv[2]), int(sys.argv[3]), float(sys.argv[4]))
