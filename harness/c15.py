"""C15 — all return and file modes deliver the same model.
Proof: coq/props/C15.v over theories/FileModes.v (model of `_save_model_proto` on top of the ASSUMED
onnx.save_model / onnx.load behaviour; unbounded induction over the history of exports to one path).
Tie D: every history is run for real (to_onnx(return_mode="file", output_path=<same path>, export_mode=...))
and the Coq model is evaluated on the same history at the true byte sizes (run-length byte strings);
file set, sidecar size, recorded (offset, length) and the load result are compared inside Coq.
Property on the real code: proto == ir->proto == file reloaded with external data (protobuf bytes,
initializer bytes, onnxruntime outputs), web = one self-contained file, no stale data picked up."""
import inspect
import json
import os
import re
import shutil
import sys

import numpy as np

import common

MiB = 1 << 20
SIZES = {"0.5MiB": MiB // 2, "1MiB-36": MiB - 36, "1MiB-32": MiB - 32, "1MiB-4": MiB - 4, "1MiB": MiB,
         "1MiB+4": MiB + 4, "3MiB": 3 * MiB}
NAME = "m.onnx"
# (code removes an old sidecar before writing, onnx writer, onnx CWD-relative existence check); with the removal
# the two writers are indistinguishable (the writer never finds an old file), so only WAppend is listed there
VARIANTS = [(True, "WAppend", True), (True, "WAppend", False),
            (False, "WAppend", True), (False, "WAppend", False), (False, "WTruncate", True), (False, "WTruncate", False)]


# every accepted SPELLING of the mode arguments (the normalisers lower-case and strip): the export must behave
# exactly like the canonical spelling
SPELLINGS = {"canon": lambda s: s, "upper": lambda s: s.upper(), "cap": lambda s: s.capitalize(),
             "pad": lambda s: f"  {s} ", "padcap": lambda s: f" {s.capitalize()}\t\n"}


def spell(st, word, which):
    return SPELLINGS[st.get(which, "canon")](word)


def S(*labels, cwd="clean", sp="canon", rsp="canon"):
    return {"mode": "standard", "sizes": list(labels), "cwd": cwd, "sp": sp, "rsp": rsp}


def W(*labels, cwd="clean", sp="canon", rsp="canon"):
    return {"mode": "web", "sizes": list(labels), "cwd": cwd, "sp": sp, "rsp": rsp}


FIXED = [
    ("standard->web", [S("3MiB"), W("3MiB")]),
    ("web->standard", [W("3MiB"), S("3MiB")]),
    ("large->small", [S("3MiB"), S("0.5MiB")]),
    ("small->large", [S("0.5MiB"), S("1MiB")]),
    ("large->large", [S("3MiB"), S("1MiB+4")]),
    ("large->large->small->web", [S("3MiB"), S("1MiB"), S("0.5MiB"), W("1MiB")]),
    ("large->small->large", [S("1MiB"), S("0.5MiB"), S("1MiB+4")]),
    ("large->web-small", [S("3MiB"), W("0.5MiB")]),
    ("threshold-sweep", [S("1MiB-36"), S("1MiB-32"), S("1MiB-4"), S("1MiB"), S("1MiB+4")]),
    ("below-threshold-alone", [S("1MiB-36")]),
    ("at-getsizeof-threshold-alone", [S("1MiB-32")]),
    ("web-below", [W("0.5MiB")]),
    ("web-large-alone", [W("3MiB")]),
    ("two-params-mixed", [S("0.5MiB", "1MiB")]),
    ("two-params-large-then-mixed", [S("1MiB", "1MiB+4"), S("1MiB-36", "3MiB")]),
    ("dest:large->large", [S("1MiB", cwd="dest"), S("1MiB+4", cwd="dest")]),
    ("dest:large->small", [S("1MiB", cwd="dest"), S("0.5MiB", cwd="dest")]),
    ("dest:large->web->large", [S("1MiB", cwd="dest"), W("1MiB", cwd="dest"), S("1MiB+4", cwd="dest")]),
    ("dest:small->large", [S("0.5MiB", cwd="dest"), S("1MiB", cwd="dest")]),
    ("clash:first-export", [S("0.5MiB", cwd="clash"), S("1MiB")]),
    ("clash:after-large", [S("1MiB"), S("0.5MiB", cwd="clash"), S("1MiB+4")]),
    ("clash:after-small", [S("0.5MiB"), S("3MiB", cwd="clash")]),
    ("clash:web-unaffected", [S("1MiB"), W("1MiB", cwd="clash")]),
    ("clash:double-raise-then-recover", [S("1MiB"), S("0.5MiB", cwd="clash"), S("1MiB-36", cwd="clash"), S("1MiB+4", cwd="dest")]),
    ("dest:large->large->large", [S("3MiB", cwd="dest"), S("1MiB", cwd="dest"), S("1MiB+4", cwd="dest")]),
] + [
    # per non-canonical spelling of export_mode AND return_mode: large standard, large web over the stale sidecar,
    # small web; then a small standard export over it
    (f"spelling:{k}", [S("3MiB", sp=k, rsp=k), W("3MiB", sp=k, rsp=k), W("0.5MiB", sp=k, rsp=k), S("1MiB", sp=k, rsp=k),
                       S("0.5MiB", sp=k, rsp=k)])
    for k in SPELLINGS if k != "canon"
] + [
    ("spelling:web-only-export_mode", [S("1MiB"), W("1MiB", sp="upper")]),
    ("spelling:web-alone-large", [W("3MiB", sp="cap")]),
    ("spelling:return_mode-only", [S("1MiB", rsp="upper"), W("1MiB", rsp="pad")]),
]


def random_history(rng):
    labels = list(SIZES)
    h = []
    for _ in range(rng.randint(2, 5)):
        mode = "web" if rng.random() < 0.3 else "standard"
        n = 1 if rng.random() < 0.8 else 2
        r = rng.random()
        cwd = "clean" if r < 0.7 else ("dest" if r < 0.95 else "clash")
        sp = rng.choice(list(SPELLINGS)) if rng.random() < 0.35 else "canon"
        rsp = rng.choice(list(SPELLINGS)) if rng.random() < 0.2 else "canon"
        h.append({"mode": mode, "sizes": [rng.choice(labels) for _ in range(n)], "cwd": cwd, "sp": sp, "rsp": rsp})
    return h


def hist_key(h):
    def one(s):
        sp, rsp = s.get("sp", "canon"), s.get("rsp", "canon")
        tag = "" if sp == rsp == "canon" else f"[{sp}" + ("" if rsp == "canon" else f",return_mode={rsp}") + "]"
        return f"{s['mode'][0].upper()}{tag}:{'+'.join(s['sizes'])}" + ("" if s["cwd"] == "clean" else "@" + s["cwd"])
    return ">".join(one(s) for s in h)


def det(m):
    return m.SerializeToString(deterministic=True)


def normalise(m):
    """onnx.load sets data_location=DEFAULT explicitly on tensors it resolved (proto2 presence bit);
    clear it so that byte comparison is about content"""
    import onnx
    for t in m.graph.initializer:
        if t.HasField("data_location") and t.data_location == onnx.TensorProto.DEFAULT:
            t.ClearField("data_location")
    return m


def make_fn(sizes, seed):
    ws = [np.random.RandomState((seed * 7 + i) % (2 ** 31)).standard_normal(nb // 4).astype(np.float32)
          for i, nb in enumerate(sizes)]
    if len(ws) == 1:
        return (lambda x: x + ws[0]), ws
    return (lambda x: (x + ws[0], x * ws[1])), ws


def threshold_from_source():
    from jax2onnx import user_interface
    src = inspect.getsource(user_interface.to_onnx)
    m = re.search(r"external_threshold\s*:\s*int\s*=\s*([0-9_]+)", src)
    return int(m.group(1).replace("_", "")) if m else None


def mode_argument_uses(src=None):
    """AST tie: inside to_onnx the raw arguments `return_mode` / `export_mode` may only be (a) passed to their
    normaliser, (b) formatted into a log string; every other use (comparison, argument of another call such as
    `_save_model_proto(..., mode=...)`) must go through the variable assigned from the normaliser.
    Returns (list of offending source fragments, number of uses inspected, {raw: normalised variable})."""
    import ast
    import textwrap
    if src is None:
        from jax2onnx import user_interface
        src = inspect.getsource(user_interface.to_onnx)
    tree = ast.parse(textwrap.dedent(src))
    fn = next(n for n in ast.walk(tree) if isinstance(n, ast.FunctionDef) and n.name == "to_onnx"
              and not any(isinstance(d, ast.Name) and d.id == "overload" for d in n.decorator_list))
    raw = {"return_mode": "_normalize_return_mode", "export_mode": "_normalize_export_mode"}
    norm_var, bad, uses = {}, [], 0
    parents = {}
    for node in ast.walk(fn):
        for ch in ast.iter_child_nodes(node):
            parents[ch] = node
    for node in ast.walk(fn):
        if isinstance(node, ast.Name) and node.id in raw and isinstance(node.ctx, ast.Load):
            uses += 1
            par = parents.get(node)
            if isinstance(par, ast.FormattedValue):
                continue
            if (isinstance(par, ast.Call) and isinstance(par.func, ast.Name) and par.func.id == raw[node.id]
                    and par.args == [node] and not par.keywords):
                asg = parents.get(par)
                if isinstance(asg, ast.Assign) and len(asg.targets) == 1 and isinstance(asg.targets[0], ast.Name):
                    norm_var[node.id] = asg.targets[0].id
                    continue
            bad.append(f"line {node.lineno}: {ast.unparse(par)[:120]}")
    for r in raw:
        if r not in norm_var:
            bad.append(f"{r} is never normalised into a variable")
    # the save helper must receive the normalised export mode
    for node in ast.walk(fn):
        if isinstance(node, ast.Call) and isinstance(node.func, ast.Name) and node.func.id == "_save_model_proto":
            uses += 1
            kw = [k for k in node.keywords if k.arg == "mode"]
            if not (len(kw) == 1 and isinstance(kw[0].value, ast.Name) and kw[0].value.id == norm_var.get("export_mode")):
                bad.append(f"line {node.lineno}: {ast.unparse(node)[:160]}")
    return bad, uses, norm_var


class Env:
    """one output directory + the three kinds of CWD"""

    def __init__(self, root):
        self.root = root
        self.dest = os.path.join(root, "out")
        self.clean = os.path.join(root, "cwd_clean")
        self.clash = os.path.join(root, "cwd_clash")
        for d in (self.dest, self.clean, self.clash):
            os.makedirs(d)
        with open(os.path.join(self.clash, NAME + ".data"), "wb") as fh:
            fh.write(b"unrelated")
        self.path = os.path.join(self.dest, NAME)

    def listing(self):
        return {f: os.path.getsize(os.path.join(self.dest, f)) for f in sorted(os.listdir(self.dest))}

    def close(self):
        shutil.rmtree(self.root, ignore_errors=True)


def ort_run(model, x, input_name):
    import onnxruntime as ort
    so = ort.SessionOptions()
    so.log_severity_level = 3
    sess = ort.InferenceSession(model, so, providers=["CPUExecutionProvider"])
    return [o.tobytes() for o in sess.run(None, {input_name: x})]


def run_history(h, root, seed, fails, stats):
    """runs history h for real; returns per-step records; appends (step index, what, detail) to fails"""
    import onnx
    import onnx_ir as ir
    from jax2onnx import to_onnx
    env = Env(root)
    orig = os.getcwd()
    recs = []
    last_ok = None           # deterministic bytes of the last proto whose file export did not raise
    disk_ok = True           # the file on disk loads to last_ok (or nothing was exported yet)
    x = np.array([1.5], np.float32)
    try:
        for k, st in enumerate(h):
            sizes = [SIZES[s] for s in st["sizes"]]
            fn, ws = make_fn(sizes, seed * 131 + k + 1)
            mode_arg = spell(st, st["mode"], "sp")                 # the export_mode string actually passed
            try:
                proto = to_onnx(fn, [(1,)], return_mode=spell(st, "proto", "rsp"))
                irm = to_onnx(fn, [(1,)], return_mode=spell(st, "ir", "rsp"))
                if not isinstance(proto, onnx.ModelProto) or not isinstance(irm, ir.Model):
                    raise TypeError(f"return types {type(proto).__name__}, {type(irm).__name__}")
                ir_proto = ir.to_proto(irm)
            except Exception as e:  # noqa: BLE001
                fails.append((k, f"return-mode-fails:{type(e).__name__}",
                              f"return_mode spelled {spell(st, 'proto', 'rsp')!r}/{spell(st, 'ir', 'rsp')!r}: {type(e).__name__}: {e}"))
                break
            pb = det(proto)
            inits = [(t.name, len(t.raw_data) if t.HasField("raw_data") else 0) for t in proto.graph.initializer]
            if pb != det(ir_proto):
                fails.append((k, "ir-vs-proto", "return_mode='ir' converted with onnx_ir.to_proto differs from return_mode='proto'"))
            pre = env.listing()
            cwd_dir = {"clean": env.clean, "dest": env.dest, "clash": env.clash}[st["cwd"]]
            out_path = NAME if st["cwd"] == "dest" and (seed + k) % 2 == 0 else env.path
            raised = None
            os.chdir(cwd_dir)
            try:
                ret = to_onnx(fn, [(1,)], return_mode=spell(st, "file", "rsp"), output_path=out_path, export_mode=mode_arg)
            except Exception as e:  # noqa: BLE001 - every failure of the file mode is a finding
                raised = e
            finally:
                os.chdir(orig)
            stats["exports"] += 1
            listing = env.listing()
            rec = {"raised": None if raised is None else f"{type(raised).__name__}: {raised}", "inits": inits,
                   "listing": listing, "pre": pre, "refs": [], "locations": [], "main": NAME in listing}
            if raised is not None:
                stats["raised"] += 1
                fails.append((k, f"file-export-raises:{type(raised).__name__}",
                              f"return_mode={spell(st, 'file', 'rsp')!r} export_mode={mode_arg!r} raised {type(raised).__name__}: {raised} "
                              f"(cwd={st['cwd']}, directory before: {pre}) while proto/ir modes delivered the model"))
                if listing != pre:
                    damaged = ""
                    if last_ok is not None:
                        try:
                            damaged = ("" if det(normalise(onnx.load(env.path))) == last_ok
                                       else "; the previous export now loads to a DIFFERENT model")
                        except Exception as e2:  # noqa: BLE001
                            damaged = f"; the previous export no longer loads ({type(e2).__name__})"
                    fails.append((k, "raising-export-changed-files",
                                  f"the export raised {type(raised).__name__} but changed the output directory: "
                                  f"{pre} -> {listing}{damaged}"))
            else:
                last_ok = pb
                if ret != out_path:
                    fails.append((k, "return-value", f"returned {ret!r}, expected {out_path!r}"))
            if st["cwd"] == "clash":
                with open(os.path.join(env.clash, NAME + ".data"), "rb") as fh:
                    if fh.read() != b"unrelated":
                        fails.append((k, "unrelated-file-touched", "file in the CWD named like the sidecar was modified"))
            # ---- what is on disk now
            reload_equal = (last_ok is None)
            if rec["main"]:
                m0 = onnx.load(env.path, load_external_data=False)
                for t in m0.graph.initializer:
                    if t.data_location == onnx.TensorProto.EXTERNAL:
                        e = {kv.key: kv.value for kv in t.external_data}
                        rec["refs"].append((int(e.get("offset", -1)), int(e.get("length", -1))))
                        rec["locations"].append(e.get("location"))
                try:
                    m1 = normalise(onnx.load(env.path))
                    reload_equal = last_ok is not None and det(m1) == last_ok
                    if raised is None and not reload_equal:
                        a = {t.name: t.raw_data for t in proto.graph.initializer}
                        b = {t.name: t.raw_data for t in m1.graph.initializer}
                        bad = [n for n in a if a[n] != b.get(n)]
                        fails.append((k, "reload-differs",
                                      f"file reloaded with external data differs from return_mode='proto'"
                                      f" (initializers with different bytes: {bad}; refs {rec['refs']}, files {listing})"))
                except Exception as e:  # noqa: BLE001
                    reload_equal = False
                    if raised is None:
                        fails.append((k, "reload-fails", f"onnx.load: {type(e).__name__}: {e}"))
                if raised is not None and last_ok is not None and not reload_equal and listing == pre and disk_ok:
                    # (disk_ok: it did load before this step; damage done by an EARLIER raising export is reported there)
                    fails.append((k, "raising-export-damaged-previous", "file no longer loads to the previous export"))
            rec["reload_equal"] = bool(reload_equal)
            disk_ok = bool(reload_equal)
            if raised is None:
                # ---- same outputs: proto bytes, ir bytes, the file (onnxruntime resolves the sidecar itself)
                iname = proto.graph.input[0].name
                o_proto = ort_run(pb, x, iname)
                o_ir = ort_run(det(ir_proto), x, iname)
                try:
                    o_file = ort_run(env.path, x, iname)
                except Exception as e:  # noqa: BLE001
                    o_file = None
                    fails.append((k, "ort-load-fails", f"{type(e).__name__}: {e}"))
                stats["ort_runs"] += 3
                if o_ir != o_proto:
                    fails.append((k, "ort-ir-vs-proto", "onnxruntime outputs differ between ir and proto modes"))
                if o_file is not None and o_file != o_proto:
                    fails.append((k, "ort-file-vs-proto", f"onnxruntime outputs of the saved file differ from the proto "
                                                          f"(stale data picked up?) refs {rec['refs']} files {listing}"))
                expect = [x + ws[0]] if len(ws) == 1 else [x + ws[0], x * ws[1]]
                if [e.tobytes() for e in expect] != o_proto:
                    stats["ort_vs_numpy_diff"] += 1
                if st["mode"] == "web":
                    if list(listing) != [NAME]:
                        fails.append((k, "web-not-single-file", f"directory after export_mode={mode_arg!r} export: {listing} "
                                                              f"(external refs in the main file: {rec['refs']})"))
                    alone = os.path.join(env.root, f"alone{k}")
                    os.makedirs(alone)
                    shutil.copy(env.path, os.path.join(alone, NAME))
                    try:
                        m2 = normalise(onnx.load(os.path.join(alone, NAME)))
                        if det(m2) != pb:
                            fails.append((k, "web-alone-differs", "web file loaded alone differs from proto"))
                        if ort_run(os.path.join(alone, NAME), x, iname) != o_proto:
                            fails.append((k, "web-alone-ort", "web file alone gives different outputs"))
                        stats["ort_runs"] += 1
                    except Exception as e:  # noqa: BLE001
                        fails.append((k, "web-not-self-contained", f"{type(e).__name__}: {e}"))
                    shutil.rmtree(alone, ignore_errors=True)
                else:
                    extra = [f for f in listing if f not in (NAME, NAME + ".data")]
                    if extra:
                        fails.append((k, "unexpected-files", f"{extra}"))
                # observations (not violations): sidecar bytes nobody references
                sc = listing.get(NAME + ".data")
                if sc is not None:
                    referenced = sum(l for _, l in rec["refs"])
                    if not rec["refs"]:
                        stats["leftover_unreferenced_sidecar"] += 1
                    if sc > referenced:
                        stats["sidecar_garbage_bytes_max"] = max(stats["sidecar_garbage_bytes_max"], sc - referenced)
            recs.append(rec)
    finally:
        os.chdir(orig)
        env.close()
    return recs


# ------------------------------------------------------------------ Coq side
HEADER = """From Coq Require Import NArith String List Bool.
From J2O Require Import FileModes.
Import ListNotations.
Set Printing Width 1000000.
Set Printing Depth 1000000.
Fixpoint bad_idx_ {A} (f : A -> bool) (i : nat) (l : list A) : list nat :=
  match l with [] => [] | x :: r => if f x then bad_idx_ f (S i) r else i :: bad_idx_ f (S i) r end.
Definition P := "m.onnx"%string.
"""


def n_(v):
    return f"{int(v)}%N"


def coq_str(s):
    return '"' + s.replace('"', '""') + '"%string'


def coq_step(st, rec, tag):
    inits = "; ".join(f"({coq_str(n)}, rblob {n_(tag * 16 + i)} {n_(sz)})" for i, (n, sz) in enumerate(rec["inits"]))
    mode = "Standard" if st["mode"] == "standard" else "Web"
    cwd = {"clean": "CwdClean", "dest": "CwdDest", "clash": "CwdClash"}[st["cwd"]]
    return f"Build_step RleOps {mode} {cwd} (Build_model RleOps {n_(tag)} [{inits}])"


def coq_obs(rec):
    sc = rec["listing"].get(NAME + ".data")
    refs = "; ".join(f"({n_(o)}, {n_(l)})" for o, l in rec["refs"])
    return (f"({common.blit(rec['raised'] is not None)}, {common.blit(rec['main'])}, "
            f"{'None' if sc is None else '(Some ' + n_(sc) + ')'}, [{refs}], {common.blit(rec['reload_equal'])})")


def coq_cases(hists, recs_all, thr):
    txt = HEADER
    for i, (h, recs) in enumerate(zip(hists, recs_all)):
        txt += f"Definition h{i} : list (step RleOps) := [" + ";\n  ".join(
            coq_step(st, rec, k + 1) for k, (st, rec) in enumerate(zip(h, recs))) + "].\n"
        txt += f"Definition e{i} : list obs := [" + "; ".join(coq_obs(r) for r in recs) + "].\n"
    txt += "Definition cases : list (list (step RleOps) * list obs) := [" + "; ".join(
        f"(h{i}, e{i})" for i in range(len(hists))) + "].\n"
    for rb, w, chk in VARIANTS:
        txt += (f"Eval vm_compute in bad_idx_ (fun c => obs_list_eqb (run_obs (Build_variant {w} {common.blit(chk)} {common.blit(rb)}) "
                f"{n_(thr)} P (init RleOps []) (fst c)) (snd c)) 0 cases.\n")
    return txt


def run(ctx):
    rng = ctx.rng
    ctx.level = "proof (modelled save/load logic), partial: third-party writer assumed and validated by correspondence"
    ctx.trusted_base = [
        "Coq 8.16.1 kernel; vm_compute (no native_compute); no axioms (all theorems closed under the global context)",
        "ASSUMED onnx.save_model(save_as_external_data=True, all_tensors_to_one_file=True, location=L, size_threshold=T): "
        "initializers with sys.getsizeof(raw_data) >= T are written in order at the END of the file L if it exists (append; "
        "variant WTruncate also covered; unobservable since the code removes L first) and (location, offset, length) recorded; "
        "raises FileExistsError before writing anything when a file named L exists relative to the process CWD (variant "
        "without the check also covered)",
        "model variant of the jax2onnx code (removal of the old sidecar before writing: yes/no) is selected by the tie; "
        "the strong theorems need `yes`, which is a named obligation",
        "ASSUMED onnx.load: resolves external references by (location, offset, length) against the current directory with bounds checks",
        "ASSUMED protobuf: parse(serialize(model)) = model (the main file is an opaque container `FMain`)",
        "these three are validated on this run by Tie D (file set, sidecar size, offsets, lengths, reload result per step of every history)",
        "onnxruntime (independent reader of the sidecar) for output equality",
    ]
    ctx.assumptions = [
        "one output directory, flat names; sidecar name = <basename>.data (checked per step: recorded location)",
        "a directory in which <p>.data already holds a serialized model is outside the faithful domain (the model treats it as empty data)",
        "byte strings are abstract with 4 laws, proved for list N and for the run-length strings the harness evaluates",
        "protobuf comparison is modulo the presence bit of data_location=DEFAULT that onnx.load sets on resolved tensors",
        "models in the correspondence have 1 or 2 captured float32 parameters (sizes 0.5 MiB .. 3 MiB) plus whatever constants the converter emits",
    ]
    common.build_props(ctx, "C15", [])

    thr_src = threshold_from_source()
    ctx.oblige("tie:external_threshold-found-in-to_onnx-source", thr_src is not None, "tie",
               "" if thr_src is not None else "could not find `external_threshold: int = ...` in to_onnx")
    try:
        bad_uses, n_uses, norm_var = mode_argument_uses()
        ctx.oblige(f"tie:raw-return_mode/export_mode-only-reach-their-normaliser({n_uses} uses in to_onnx; normalised into "
                   f"{norm_var})", not bad_uses, "tie", "; ".join(bad_uses))
    except Exception as e:  # noqa: BLE001 - fail closed
        ctx.oblige("tie:raw-return_mode/export_mode-only-reach-their-normaliser", False, "tie", f"{type(e).__name__}: {e}")
    overhead = sys.getsizeof(b"")
    thr = max(0, (thr_src or MiB) - overhead)      # onnx compares sys.getsizeof(raw_data), not len(raw_data)

    hists = [(name, h) for name, h in FIXED]
    n_rand = 10 if ctx.tier == "quick" else 150
    for i in range(n_rand):
        hists.append((f"rand{i}", random_history(rng)))

    stats = {"exports": 0, "raised": 0, "ort_runs": 0, "ort_vs_numpy_diff": 0, "leftover_unreferenced_sidecar": 0,
             "sidecar_garbage_bytes_max": 0}
    recs_all, reported = [], set()
    histo_mode, histo_size, histo_cwd, histo_spelling, nontrivial = {}, {}, {}, {}, set()
    raises_by_cwd, fail_counts, bad_locations, n_refs = {}, {}, [], 0
    for hi, (name, h) in enumerate(hists):
        fails = []
        root = os.path.join(ctx.work, f"h{hi}")
        recs = run_history(h, root, ctx.seed * 1000 + hi, fails, stats)
        recs_all.append(recs)
        for st, rec in zip(h, recs):
            histo_mode[st["mode"]] = histo_mode.get(st["mode"], 0) + 1
            sk = f"export_mode={st.get('sp', 'canon')},return_mode={st.get('rsp', 'canon')}"
            histo_spelling[sk] = histo_spelling.get(sk, 0) + 1
            histo_cwd[st["cwd"]] = histo_cwd.get(st["cwd"], 0) + 1
            for s in st["sizes"]:
                histo_size[s] = histo_size.get(s, 0) + 1
            pre_sc = rec["pre"].get(NAME + ".data")
            spills = any(sz >= thr for _, sz in rec["inits"])
            if pre_sc is not None or spills:
                nontrivial.add((pre_sc, st["mode"], tuple(st["sizes"]), st["cwd"], st.get("sp", "canon"), st.get("rsp", "canon")))
            if rec["raised"]:
                raises_by_cwd[st["cwd"]] = raises_by_cwd.get(st["cwd"], 0) + 1
        for (k, what, detail) in fails:
            st = h[k]
            if what == "file-export-raises:FileExistsError" and st["cwd"] in ("dest", "clash"):
                key = f"file-export-raises:FileExistsError@cwd={st['cwd']}"     # one defect, stable key
            elif what == "raising-export-changed-files" and st["cwd"] == "clash":
                key = "raising-export-changed-files@cwd=clash"
            else:
                key = f"{hist_key(h[:k + 1])}:{what}"
            fail_counts[what] = fail_counts.get(what, 0) + 1
            if key in reported or sum(1 for r in reported if r.endswith(":" + what)) >= 3:
                continue            # at most 3 witnesses per kind of failure; totals go to coverage
            reported.add(key)
            ctx.violate(key, f"history {hist_key(h[:k + 1])} step {k}: {detail}",
                        {"history": h[:k + 1], "step": k, "what": what, "seed": ctx.seed * 1000 + hi})
        for rec in recs:
            n_refs += len(rec["locations"])
            bad_locations += [(name, l) for l in rec["locations"] if l != NAME + ".data"]
    ctx.oblige(f"tie:recorded-location-is-<basename>.data({n_refs} external references)", not bad_locations, "tie",
               "" if not bad_locations else f"{bad_locations[:5]}")

    # ---- Tie D: model == reality on every history, evaluated inside Coq
    chunks = [list(range(i, min(i + 60, len(hists)))) for i in range(0, len(hists), 60)]
    bad_per_variant = {v: [] for v in VARIANTS}
    coq_ok = True
    outs = []
    for ci, idxs in enumerate(chunks):
        txt = coq_cases([hists[i][1] for i in idxs], [recs_all[i] for i in idxs], thr)
        ok, out = common.coq_eval_file(ctx, f"c15_cases{ci}", txt)
        lists = re.findall(r"=\s*(\[[^\]]*\]|nil)\s*:\s*list nat", out.replace("\n", " "))
        if not ok or len(lists) != len(VARIANTS):
            coq_ok = False
            outs.append(out[-1500:])
            continue
        for v, l in zip(VARIANTS, lists):
            idx = [] if l in ("nil", "[]") else [int(t.replace("%nat", "")) for t in l.strip("[]").split(";") if t.strip()]
            bad_per_variant[v] += [idxs[j] for j in idx]
    n_steps = sum(len(h) for _, h in hists)
    if not coq_ok:
        ctx.oblige("tie:model-vs-real-file-system", False, "tie", "\n".join(outs))
        variant = None
    else:
        fitting = [v for v in VARIANTS if not bad_per_variant[v]]
        variant = fitting[0] if fitting else None
        detail = ""
        if variant is None:
            v0 = VARIANTS[0]
            b = bad_per_variant[v0][:3]
            detail = f"no assumed-writer variant reproduces the observations; with {v0} the model differs on: " + "; ".join(
                f"{hists[i][0]} {hist_key(hists[i][1])} observed {[coq_obs(r) for r in recs_all[i]]}" for i in b)
        ctx.oblige(f"tie:model-equals-real-files-refs-load({len(hists)} histories, {n_steps} exports, variant (remove-before, writer, cwd-check) = "
                   f"{variant})", variant is not None, "tie", detail)
        ctx.coverage["variant"] = ({"code_removes_old_sidecar_before_writing": variant[0], "writer": variant[1],
                                    "cwd_existence_check": variant[2]} if variant else None)
        if variant is not None:
            # the strong theorems (C15_load_after_save, C15_history_independent, C15_sidecar_exact) are about this variant
            ctx.oblige("tie:current-code-removes-old-sidecar-before-writing(v_remove_before = true)", variant[0], "tie",
                       "" if variant[0] else f"the code behaves like the variant without the removal {variant}: re-exports "
                                             f"append to / trip over the old sidecar")
            # since /repo e203da0 the unconditional theorem C15_load_after_save_no_cwd_check is the one that applies
            ctx.oblige("tie:current-code-is-not-subject-to-the-CWD-relative-existence-check(v_cwd_check = false)", not variant[2], "tie",
                       "" if not variant[2] else f"the code behaves like variant {variant}: a standard export raises FileExistsError "
                                                 f"when the CWD holds an unrelated <basename>.data")

    ctx.coverage.update({
        "evaluations": stats["exports"] * 3 + stats["ort_runs"] + n_steps * len(VARIANTS),
        "real_file_exports": stats["exports"], "histories": len(hists), "random_histories": n_rand,
        "distinct_nontrivial": len(nontrivial),
        "rule": "every step = 3 real conversions (proto, ir, file) + reload with/without external data + 3-4 onnxruntime runs; "
                "the Coq model is evaluated on every history under 6 code/writer variants; non-trivial = distinct (sidecar size before, "
                "mode, parameter sizes, cwd) where a sidecar pre-exists or the export spills",
        "threshold": {"external_threshold_in_source": thr_src, "sys.getsizeof(b'')": overhead, "effective_byte_threshold": thr},
        "histogram": {"mode": histo_mode, "size": histo_size, "cwd": histo_cwd, "spelling": histo_spelling},
        "spellings": {k: f("web") for k, f in SPELLINGS.items()},
        "observations": {
            "exports_that_raised": stats["raised"], "raised_by_cwd": raises_by_cwd,
            "steps_leaving_an_unreferenced_sidecar_behind": stats["leftover_unreferenced_sidecar"],
            "max_unreferenced_bytes_in_sidecar": stats["sidecar_garbage_bytes_max"],
            "note": "unreferenced sidecar bytes would be an observation, not a violation (never picked up); for the repaired code "
                    "C15_sidecar_exact / C15_history_independent prove there are none, so both counters are expected to be 0",
            "ort_output_differs_from_numpy": stats["ort_vs_numpy_diff"]},
        "real_code_failures_by_kind": fail_counts,
        "exhaustive": False,
    })
    ctx.samples = [{"history": hist_key(h), "after_last_step": {"files": recs[-1]["listing"], "refs": recs[-1]["refs"],
                                                                "raised": recs[-1]["raised"], "reload_equal": recs[-1]["reload_equal"]}}
                   for (_, h), recs in list(zip(hists, recs_all))[:8] if recs]
    return ctx


def replay(path):
    import tempfile
    r = json.load(open(path))["replay"]
    fails = []
    stats = {"exports": 0, "raised": 0, "ort_runs": 0, "ort_vs_numpy_diff": 0, "leftover_unreferenced_sidecar": 0,
             "sidecar_garbage_bytes_max": 0}
    root = tempfile.mkdtemp(prefix="c15-replay-")
    recs = run_history(r["history"], os.path.join(root, "h"), r.get("seed", 0), fails, stats)
    shutil.rmtree(root, ignore_errors=True)
    for k, rec in enumerate(recs):
        print(k, r["history"][k], "->", {"files": rec["listing"], "refs": rec["refs"], "raised": rec["raised"],
                                          "reload_equal": rec["reload_equal"]})
    hit = [f for f in fails if f[0] == r["step"] and f[1] == r["what"]]
    for f in fails:
        print("FAIL", f)
    return 1 if hit else 0
