"""C02 — differential ties for the verified models of remove_redundant_reshape_pairs_ir (ReshapePairPass.v) and
remove_redundant_transpose_pairs_ir (TransposePairPass.v): the REAL pass is run on random onnx_ir graphs that exercise
both sides of every guard, and the node list / graph outputs / refreshed shapes it leaves are compared, inside Coq,
with what the Gallina model computes from the dumped input graph."""
import numpy as np

import common


def coq_eval_batches(ctx, name, header, items, render, per_file=50, jobs=4, timeout=600):
    """as common.coq_eval_batches, with -noglob (writing the .glob of a big literal costs more than checking it)"""
    import os
    from concurrent.futures import ThreadPoolExecutor
    chunks = [(i, items[i:i + per_file]) for i in range(0, len(items), per_file)]
    args = [os.path.join(common.COQ, a) if a in ("theories", "gen", "props") else a for a in common.QARGS]

    def one(ch):
        off, chunk = ch
        path = os.path.join(ctx.work, f"{name}_{off}.v")
        with open(path, "w") as fh:
            fh.write(header + render(chunk, off))
        rc, out = common.run(["coqc", "-noglob"] + args + [path], timeout, cwd=ctx.work)
        return rc == 0, out
    with ThreadPoolExecutor(max_workers=jobs) as ex:
        return list(ex.map(one, chunks)), [off for off, _ in chunks]


def collect_bad(results, offsets):
    bad, err = [], None
    for (ok, out), off in zip(results, offsets):
        idx = common.coq_bad_indices(out) if ok else None
        if idx is None:
            err = out[-1500:]
        else:
            bad += [off + i for i in idx]
    return bad, err


def _model_bytes(ir, g):
    return ir.to_proto(ir.Model(g, ir_version=10)).SerializeToString()


def _ort_outputs(model_bytes, seed):
    """outputs of a (crafted, runnable) model in onnxruntime on a deterministic random feed; None when it does not run"""
    import onnx
    import onnxruntime as ort
    ort.set_default_logger_severity(3)
    m = onnx.load_from_string(model_bytes)
    r = np.random.RandomState(seed)
    feed = {}
    for i in m.graph.input:
        if i.name in {t.name for t in m.graph.initializer}:
            continue
        shp = [d.dim_value for d in i.type.tensor_type.shape.dim]
        feed[i.name] = np.asarray(r.rand(*shp) - 0.5, np.float32)
    try:
        return ort.InferenceSession(model_bytes, providers=["CPUExecutionProvider"]).run(None, feed)
    except Exception as e:
        return repr(e)[:200]


def _same_outputs(a, b):
    return (isinstance(a, list) and isinstance(b, list) and len(a) == len(b)
            and all(x.shape == y.shape and np.allclose(x, y, equal_nan=True) for x, y in zip(a, b)))


# ------------------------------------------------------------------ dump (encoding documented in ReshapePairPass.v)
def _op(n):
    dom = getattr(n, "domain", "") or ""
    return n.op_type if dom == "" else f"{dom}::{n.op_type}"


def _nested_names(ir, n):
    """every name a nested graph of n reads or returns (what _nested_graph_references_value matches)"""
    out = []

    def graph_names(g):
        for o in g.outputs:
            if o is not None and o.name:
                out.append(o.name)
        for m in g:
            for iv in m.inputs:
                if iv is not None and iv.name:
                    out.append(iv.name)
            node_names(m)

    def node_names(m):
        for a in m.attributes.values():
            if a.type == ir.AttributeType.GRAPH:
                graph_names(a.as_graph())
            elif a.type == ir.AttributeType.GRAPHS:
                for sg in a.as_graphs():
                    graph_names(sg)
    node_names(n)
    return out


def dump(ir, g, intern, known, keep_none=False):
    ns = []
    for n in g:
        ins = list(n.inputs)
        if keep_none:      # an absent input is the reserved name 0 (interned names start at 1)
            caps = []
            for nm in _nested_names(ir, n):
                if nm in known and intern(nm) not in caps:
                    caps.append(intern(nm))
            ns.append((_op(n), n, [0 if iv is None else intern(iv.name) for iv in ins], caps, [intern(o.name) for o in n.outputs]))
            continue
        while ins and ins[-1] is None:
            ins.pop()
        assert all(iv is not None for iv in ins), "absent optional input in the middle: outside the encoding"
        caps = []
        for nm in _nested_names(ir, n):
            if nm in known and intern(nm) not in caps:
                caps.append(intern(nm))
        perm = n.attributes.get("perm")
        attrs = [int(x) for x in perm.as_ints()] if (perm is not None and perm.type == ir.AttributeType.INTS) else None
        ns.append((_op(n), attrs, [intern(iv.name) for iv in ins], caps, [intern(o.name) for o in n.outputs]))
    return ns, [intern(o.name) for o in g.outputs]


def nl(l):
    return "[" + "; ".join(str(x) for x in l) + "]"


def coq_nodes(ns, with_perm=False):
    def one(op, attrs, i, c, o):
        a = nl([1] + list(attrs)) if (with_perm and attrs is not None) else "[]"
        return f'mkNode "{op}"%string {a} {nl(i)} {nl(c)} {nl(o)}'
    return "[" + "; ".join(one(*n) for n in ns) + "]"


def coq_fn(d, ty, lit, default=None):
    """finite map as an association list (a big `match` on unary numerals is slow to compile)"""
    items = "; ".join(f"({k}, {lit(v)})" for k, v in sorted(d.items()))
    dflt = default if default is not None else f"@None {ty}"
    return f"(fun n : nat => match find (fun p => Nat.eqb (fst p) n) [{items}] with Some p => snd p | None => {dflt} end)"


def dims_of(ir, v):
    if v.shape is None:
        return None
    out = []
    for d in v.shape.dims:
        if isinstance(d, (int, np.integer)):
            out.append(("i", int(d)))
        else:
            val = getattr(d, "value", None)
            out.append(("s", val) if isinstance(val, str) else ("u", None))
    return out


def dims_lit(ds):
    def one(d):
        return f"DInt {d[1]}" if d[0] == "i" else (f'DSym "{d[1]}"%string' if d[0] == "s" else "DUnk")
    return "[" + "; ".join(one(d) for d in ds) + "]"


NODE_EQB = """Definition leqb (a b : list nat) := list_eqb Nat.eqb a b.
Definition node_eqb (a b : node) := String.eqb (n_op a) (n_op b) && leqb (n_attrs a) (n_attrs b) && leqb (n_ins a) (n_ins b) && leqb (n_caps a) (n_caps b) && leqb (n_outs a) (n_outs b).
"""


# ------------------------------------------------------------------ random graphs for the reshape-pair pass
_SHAPES6 = [(2, 3), (6,), (3, 2), (1, 6), (1, 2, 3), (6, 1), ("B", 3), ("B", 3), ("C", 3), (None, 3), ("B",), (2, "B")]
_UNARY = ["Relu", "Tanh", "Sigmoid", "Identity", "Elu", "Gelu", "LeakyRelu", "Swish", "Not", "Cast"]
_SIDE = ["Max", "Min", "Clip"]


class _Builder:
    def __init__(self, ir, rng):
        self.ir, self.rng = ir, rng
        self.inputs, self.consts, self.nodes, self.vals = [], [], [], []
        self.k = 0

    def fresh(self, prefix="v"):
        self.k += 1
        return f"{prefix}{self.k}"

    def val(self, name, shp):
        ir = self.ir
        if shp is None:
            return ir.Value(name=name, type=ir.TensorType(ir.DataType.FLOAT))
        return ir.val(name, ir.DataType.FLOAT, shp)

    def inp(self, shp):
        v = self.val(self.fresh("in_"), shp)
        self.inputs.append(v)
        self.vals.append(v)
        return v

    def const(self, arr, name=None):
        ir = self.ir
        arr = np.asarray(arr)
        v = ir.val(name or self.fresh("c_"), ir.DataType.from_numpy(arr.dtype), arr.shape, const_value=ir.tensor(arr))
        self.consts.append(v)
        return v

    def scalar_const(self, max_rank=3):
        r = self.rng.choice([0, 0, 1, 1, 2, 3][: max_rank + 3])
        arr = np.full((1,) * r, 0.5, np.float32)
        if self.rng.random() < 0.15:      # a constant WITHOUT a declared shape: its rank is that of the payload
            ir = self.ir
            v = ir.Value(name=self.fresh("c_"), type=ir.TensorType(ir.DataType.FLOAT), const_value=ir.tensor(arr))
            self.consts.append(v)
            return v
        return self.const(arr)

    def bare_initializer(self, shp):
        """an initializer WITHOUT a constant payload: _is_scalar_const_value falls back to its declared dims"""
        v = self.val(self.fresh("w_"), shp)
        self.consts.append(v)
        return v

    def node(self, op, ins, out_shape, domain="", attrs=(), n_out=1):
        ir = self.ir
        outs = [self.val(self.fresh(), out_shape) for _ in range(n_out)]
        n = ir.Node(domain, op, ins, outputs=outs, name=self.fresh("n"), attributes=list(attrs))
        self.nodes.append(n)
        self.vals.extend(outs)
        return outs[0]

    def if_capturing(self, caps):
        ir = self.ir
        k = self.fresh("if")
        inner = []
        cur = None
        for j, c in enumerate(caps):
            bo = ir.val(f"{k}_b{j}", ir.DataType.FLOAT, (2, 3))
            inner.append(ir.Node("", "Neg", [c], outputs=[bo], name=f"{k}_bn{j}"))
            cur = bo
        deep = self.rng.random() < 0.3 and cur is not None
        if deep:      # a second nesting level reading the outer value again
            bo2 = ir.val(f"{k}_d", ir.DataType.FLOAT, (2, 3))
            sub = ir.Graph([], [bo2], nodes=[ir.Node("", "Abs", [caps[0]], outputs=[bo2], name=f"{k}_dn")], name=f"{k}_dg")
            cnd = ir.val(f"{k}_dc", ir.DataType.BOOL, (), const_value=ir.tensor(np.asarray(True)))
            io = ir.val(f"{k}_do", ir.DataType.FLOAT, (2, 3))
            inner = [ir.Node("", "If", [cnd], outputs=[io], name=f"{k}_dif",
                             attributes=[ir.Attr("then_branch", ir.AttributeType.GRAPH, sub)])]
            cur = io
        body = ir.Graph([], [cur], nodes=inner, name=f"{k}_g")
        cond = self.const(np.asarray(True))
        return self.node("If", [cond], None, attrs=[ir.Attr("then_branch", ir.AttributeType.GRAPH, body)])

    def graph(self, outs):
        ir = self.ir
        return ir.Graph(self.inputs, outs, nodes=self.nodes, initializers=self.consts, name="g", opset_imports={"": 23})


def _shape_of(v):
    return None if v.shape is None else tuple(d if isinstance(d, int) else getattr(d, "value", None) for d in v.shape.dims)


def _rand_reshape_graph(ir, rng, stats):
    b = _Builder(ir, rng)
    for _ in range(rng.randint(1, 2)):
        b.inp(rng.choice(_SHAPES6 + [None]))
    must_out = []
    for _ in range(rng.randint(1, 3)):
        r = rng.random()
        if r < 0.75:
            # a Reshape -> chain -> Reshape pattern with random perturbations of every guard
            src = rng.choice(b.vals)
            sshape = _shape_of(src)
            mid = rng.choice(_SHAPES6 + [None])
            dom1 = rng.choice(["", "", "", "", "", "custom", "ai.onnx"]) if rng.random() < 0.25 else ""
            shp1 = b.const(np.asarray([d if isinstance(d, int) else -1 for d in (mid or (6,))], np.int64)) if rng.random() < 0.8 else b.inp((len(mid or (6,)),))
            cur = b.node("Reshape", [src, shp1], mid, domain=dom1)
            t1_out = cur
            chain_vals = [cur]
            klen = rng.choice([0, 0, 1, 1, 1, 2, 2, 3, 4, 6, 7, 8, 9] if rng.random() < 0.3 else [0, 1, 1, 2, 3])
            for j in range(klen):
                q = rng.random()
                oshape = _shape_of(cur) if rng.random() < 0.8 else rng.choice(_SHAPES6 + [None])
                dom = rng.choice(["custom", "ai.onnx"]) if rng.random() < 0.06 else ""
                if q < 0.45:
                    op = rng.choice(_UNARY)
                    attrs = [ir.Attr("to", ir.AttributeType.INT, 1)] if op == "Cast" else []
                    cur = b.node(op, [cur], oshape, domain=dom, attrs=attrs)
                elif q < 0.8:
                    op = rng.choice(_SIDE)
                    sides = []
                    for _s in range(2 if op == "Clip" and rng.random() < 0.6 else 1):
                        s = rng.random()
                        if s < 0.55:
                            sides.append(b.scalar_const())
                        elif s < 0.65:
                            sides.append(b.bare_initializer(rng.choice([(1,), (1, 1), (), (3,), ("B",), None])))
                        elif s < 0.75:
                            sides.append(cur)                       # the data value twice
                        elif s < 0.85:
                            sides.append(b.const(np.zeros(rng.choice([(3,), (2, 3), (2,)]), np.float32)))
                        else:
                            sides.append(rng.choice(b.vals))
                    ins = [cur] + sides
                    if op != "Clip" and rng.random() < 0.2:
                        ins = sides[:1] + [cur]                     # data not in first position: the walk follows the constant
                    cur = b.node(op, ins, oshape, domain=dom)
                elif q < 0.92:
                    like = rng.choice([b.scalar_const(), rng.choice(b.vals), t1_out, b.const(np.zeros((2, 3), np.float64))])
                    ins = [cur, like] if rng.random() < 0.85 else [like, cur]
                    cur = b.node("CastLike", ins, oshape, domain=dom)
                else:
                    cur = b.node(rng.choice(["Add", "Neg", "Abs", "Softmax"]), [cur] + ([b.scalar_const()] if rng.random() < 0.5 else []), oshape)
                chain_vals.append(cur)
            # destination shape: mostly compatible with src
            d = rng.random()
            if d < 0.7 and sshape is not None:
                dshape = sshape
            elif d < 0.8 and sshape is not None and len(sshape) == 2:
                dshape = (sshape[1], sshape[0])
            else:
                dshape = rng.choice(_SHAPES6 + [None])
            dom2 = rng.choice(["custom", "ai.onnx"]) if rng.random() < 0.08 else ""
            tgt = [x if isinstance(x, int) else -1 for x in (dshape or (6,))]
            shp2 = b.const(np.asarray(tgt, np.int64)) if rng.random() < 0.85 else rng.choice(chain_vals)
            t2_out = b.node("Reshape", [cur, shp2], dshape, domain=dom2)
            must_out.append(t2_out)
            # perturbations: observers and extra consumers of intermediates
            for v in chain_vals:
                p = rng.random()
                if p < 0.07:
                    must_out.append(v)
                    stats["intermediate_is_output"] += 1
                elif p < 0.14:
                    b.if_capturing([v] + ([rng.choice(b.vals)] if rng.random() < 0.3 else []))
                    stats["intermediate_captured"] += 1
                elif p < 0.22:
                    must_out.append(b.node(rng.choice(["Relu", "Shape", "Neg"]), [v], None))
                    stats["extra_consumer"] += 1
            if rng.random() < 0.5:
                must_out.append(b.node(rng.choice(["Relu", "Neg", "Tanh"]), [t2_out], dshape))
        elif r < 0.9:
            must_out.append(b.node(rng.choice(["Relu", "Neg", "Add"]), [rng.choice(b.vals)] * 1, _shape_of(b.vals[-1])))
        else:
            must_out.append(b.if_capturing([rng.choice(b.vals)]))
    outs = []
    for v in must_out:
        if v not in outs and rng.random() < 0.8:
            outs.append(v)
    if not outs:
        outs = [b.vals[-1]]
    return b, b.graph(outs)


def _annotations(ir, opt, b, intern):
    shapes, scalars, cranks = {}, {}, {}
    for v in b.inputs + b.consts + b.vals:
        ds = dims_of(ir, v)
        if ds is not None:
            shapes[intern(v.name)] = ds
        if opt._is_scalar_const_value(v):
            scalars[intern(v.name)] = True
        arr = opt._to_numpy_from_any(v)
        if arr is not None:
            cranks[intern(v.name)] = int(np.asarray(arr).ndim)
    return shapes, scalars, cranks


def _rank_defect_graph(ir, rng, i):
    """x -Reshape-> Max/Min(., c) -Reshape-> y with a one-element constant c of rank 0..3: both sides of the rank guard
    (the fold of a constant that outranks src changed the output shape: .scratch/c02p/defect_reshape_pair_rank.py)"""
    b = _Builder(ir, rng)
    src_shape, mid = [((6,), (2, 3)), ((2, 3), (6,)), ((1, 2, 3), (6,)), ((), (1, 1))][(i // 8) % 4]
    x = b.inp(src_shape)
    c = b.const(np.full((1,) * (i % 4), 0.5, np.float32))
    a = b.node("Reshape", [x, b.const(np.asarray(mid, np.int64))], mid)
    m = b.node(["Max", "Min"][(i // 4) % 2], [a, c] if i % 3 else [c, a][::-1], mid)
    y = b.node("Reshape", [m, b.const(np.asarray(src_shape, np.int64))], src_shape)
    return b, b.graph([y])


def tie_reshape_pair_pass(ctx, n_cases):
    import onnx_ir as ir
    from jax2onnx.converter import ir_optimizations as opt
    rng = ctx.rng
    import collections
    stats = collections.Counter()
    rows = []
    ort_bad = []
    for c in range(n_cases):
        b, g = _rank_defect_graph(ir, rng, c) if c < 32 else _rand_reshape_graph(ir, rng, stats)
        table = {}

        def intern(name):
            return table.setdefault(name, len(table) + 1)
        known = {v.name for v in b.inputs + b.consts + b.vals}
        before = dump(ir, g, intern, known)
        shapes, scalars, cranks = _annotations(ir, opt, b, intern)
        ort_before = _ort_outputs(_model_bytes(ir, g), c) if c < 32 else None
        opt.remove_redundant_reshape_pairs_ir(g)
        after = dump(ir, g, intern, known)
        if c < 32:
            ort_after = _ort_outputs(_model_bytes(ir, g), c)
            if not _same_outputs(ort_before, ort_after):
                ort_bad.append((c, str([getattr(x, "shape", x) for x in (ort_before if isinstance(ort_before, list) else [ort_before])]),
                                str([getattr(x, "shape", x) for x in (ort_after if isinstance(ort_after, list) else [ort_after])])))
        shapes_after, _, _ = _annotations(ir, opt, b, intern)
        removed = len(before[0]) - len(after[0])
        stats["graphs_rewritten"] += int(removed > 0)
        stats["nodes_removed"] += removed
        stats["shapes_refreshed"] += sum(1 for k, v in shapes_after.items() if shapes.get(k) != v)
        if c < 32:
            stats["rank_guard_folded" if removed else "rank_guard_kept"] += 1
        rows.append((before, after, shapes, scalars, shapes_after, cranks))
    header = common.CASES_HEADER + "From J2O Require Import Graph Redirect ReshapePairPass.\nClose Scope Z_scope.\n" + NODE_EQB + """
Definition dims_eqb (a b : option (list dim)) : bool :=
  match a, b with Some x, Some y => list_eqb dim_eqb x y | None, None => true | _, _ => false end.
Definition chk (c : pgraph * (list node * list nat) * list (nat * option (list dim))) : bool :=
  let '(g, (ns, outs), shp) := c in
  let g' := reshape_pair_pass 40 g in
  list_eqb node_eqb (pg_nodes g') ns && leqb (pg_outputs g') outs
  && forallb (fun p => dims_eqb (pg_shape g' (fst p)) (snd p)) shp.
"""

    def render(chunk, off):
        items = []
        for before, after, shapes, scalars, shapes_after, cranks in chunk:
            pg = (f"(mkPG {coq_nodes(before[0])} {nl(before[1])} {coq_fn(shapes, '(list dim)', lambda v: '(Some ' + dims_lit(v) + ')')} "
                  f"{coq_fn(scalars, 'bool', lambda v: 'true', default='false')} {coq_fn(cranks, 'nat', lambda v: f'(Some {v})')})")
            sh = "[" + "; ".join(f"({k}, {'Some ' + dims_lit(shapes_after[k]) if k in shapes_after else 'None'})" for k in sorted(set(shapes_after) | set(shapes))) + "]"
            items.append(f"({pg}, ({coq_nodes(after[0])}, {nl(after[1])}), {sh})")
        return "Definition cs := [\n" + ";\n".join(items) + "].\nEval vm_compute in bad_idx_ chk 0 cs.\n"
    bad, err = collect_bad(*coq_eval_batches(ctx, "c02_reshape_pair", header, rows, render))
    ctx.oblige(f"tie:ReshapePairPass.v reshape_pair_pass == remove_redundant_reshape_pairs_ir ({n_cases} random graphs, "
               f"{stats['graphs_rewritten']} rewritten, {stats['nodes_removed']} nodes removed, {stats['shapes_refreshed']} shapes refreshed)",
               err is None and bad == [], "tie",
               err if err is not None else f"model and implementation differ on cases {bad[:6]}: {[rows[i][:2] for i in bad[:2]]}")
    ctx.oblige("tie:remove_redundant_reshape_pairs_ir on the 32 rank-guard graphs (Max/Min with a one-element constant of rank 0..3): "
               "onnxruntime outputs (shapes and values) are the same before and after the real pass", not ort_bad, "tie",
               f"outputs differ: {ort_bad[:3]}")
    for c, sb, sa in ort_bad:
        ctx.violate("remove_redundant_reshape_pairs_ir:rank-guard", f"the real pass changes the model's outputs on rank-guard graph {c}: before {sb} after {sa}",
                    {"tie": "reshape_pair", "case": c, "seed": ctx.seed})
    ctx.coverage["reshape_pair_tie"] = dict(stats)
    return rows, bad


def _declare_shapes(ir, rng, b, g, p_none=0.25):
    """give the node outputs of a transpose-tie graph declared shapes that are mostly TRUE (so that the rewired refresh has
    something to compute), sometimes absent, sometimes symbolic"""
    known = {}
    for v in b.inputs + b.consts:
        ds = v.shape
        if ds is not None:
            known[v.name] = [d if isinstance(d, int) else getattr(d, "value", None) for d in ds.dims]
    for n in g:
        ins = [known.get(iv.name) if iv is not None else None for iv in n.inputs]
        out = None
        if n.op_type == "Transpose" and ins and ins[0] is not None:
            perm = n.attributes.get("perm")
            if perm is not None and len(perm.as_ints()) == len(ins[0]):
                out = [ins[0][k] for k in perm.as_ints()]
            elif perm is None:
                out = list(reversed(ins[0]))
        elif ins and any(i is not None for i in ins):
            cands = [i for i in ins if i is not None]
            out = list(max(cands, key=len))
        for o in n.outputs:
            if out is not None:
                known[o.name] = out
            if out is None or rng.random() < p_none:
                o.shape = None
            else:
                o.shape = ir.Shape(tuple(("B" if (rng.random() < 0.1 and d is not None) else d) for d in out))


def _all_shapes(ir, b, g, intern):
    vals = {}
    for v in list(b.inputs) + list(b.consts) + list(b.vals):
        vals.setdefault(v.name, v)
    for n in g:
        for o in n.outputs:
            vals.setdefault(o.name, o)
    return {intern(nm): dims_of(ir, v) for nm, v in vals.items() if dims_of(ir, v) is not None}


# whether the phase-D chain fold of the real pass refreshes its members (false until the stale-shape defect is repaired)
_CHAIN_RF = "true"

_SHAPE_CHK = """
Definition dims_eqb (a b : option (list dim)) : bool :=
  match a, b with Some x, Some y => list_eqb dim_eqb x y | None, None => true | _, _ => false end.
Definition chk (c : ograph * (list node * list nat) * list (nat * option (list dim))) : bool :=
  let '(g, (ns, outs), sha) := c in
  let g' := o_loop STEP 60 g in
  list_eqb node_eqb (o_nodes g') ns && leqb (o_outputs g') outs && forallb (fun p => dims_eqb (o_shape g' (fst p)) (snd p)) sha.
"""


def _shape_tie(ctx, tag, rows, step_expr, what):
    """rows: (before, after, scalars, shapes_before, shapes_after, names)"""
    header = (common.CASES_HEADER + "From J2O Require Import Graph Redirect ReshapePairPass TransposePairPass OptGraph TransposeRefresh.\nClose Scope Z_scope.\n"
              + _SHAPE_CHK.replace("STEP", step_expr))

    def render(chunk, off):
        items = []
        for before, after, scalars, sh_b, sh_a, names in chunk:
            og = (f"(mkOG {coq_nodes(before[0], True)} {nl(before[1])} (fun _ => None) {coq_fn(sh_b, '(list dim)', lambda v: '(Some ' + dims_lit(v) + ')')} "
                  f"{coq_fn(scalars, 'bool', lambda v: 'true', default='false')} (fun _ => None) (fun _ => None) (fun _ => None) None)")
            shl = "[" + "; ".join(f"({k}, {'Some ' + dims_lit(sh_a[k]) if k in sh_a else 'None'})" for k in names) + "]"
            items.append(f"({og}, ({coq_nodes(after[0], True)}, {nl(after[1])}), {shl})")
        return "Definition cs := [\n" + ";\n".join(items) + "].\nEval vm_compute in bad_idx_ chk 0 cs.\n"
    bad, err = collect_bad(*coq_eval_batches(ctx, tag, header, rows, render))
    changed = sum(1 for r in rows for k in r[5] if r[3].get(k) != r[4].get(k))
    ctx.oblige(f"tie:TransposeRefresh.v {what} ({len(rows)} graphs with declared shapes; {changed} declared shapes refreshed or cleared; nodes, graph "
               "outputs and the declared shape of every value compared)", err is None and bad == [], "tie",
               err if err is not None else f"model and implementation differ on cases {bad[:6]}: {[rows[i] for i in bad[:1]]}")
    return bad


# ------------------------------------------------------------------ random graphs for the transpose-pair pass
_PERMS = {2: [[1, 0], [0, 1]], 3: [[0, 2, 1], [2, 0, 1], [1, 2, 0], [1, 0, 2], [0, 1, 2]], 4: [[0, 2, 3, 1], [0, 3, 1, 2], [0, 1, 3, 2]]}


def _inv(p):
    q = [0] * len(p)
    for i, k in enumerate(p):
        q[k] = i
    return q


def _tnode(b, ir, x, perm, domain=""):
    attrs = [] if perm is None else [ir.Attr("perm", ir.AttributeType.INTS, list(perm))]
    return b.node("Transpose", [x], None, domain=domain, attrs=attrs)


def _rand_transpose_graph(ir, rng, stats):
    b = _Builder(ir, rng)
    rank = rng.choice([2, 3, 3, 4])
    shp = (2, 3, 4, 5)[:rank]
    for _ in range(rng.randint(1, 3)):
        b.inp(shp)
    must_out = []

    def dom(pr=0.05):
        return rng.choice(["custom", "ai.onnx", "ai.onnx"]) if rng.random() < pr else ""

    def pick_perm():
        return list(rng.choice(_PERMS[rank]))

    def out_perm(p):
        r = rng.random()
        if r < 0.8:
            return _inv(p)
        if r < 0.9:
            return pick_perm()
        return None if r < 0.95 else list(p)

    def side(cur):
        s = rng.random()
        if s < 0.55:
            return b.scalar_const()
        if s < 0.65:
            return b.bare_initializer(rng.choice([(1,), (1, 1), (), (3,), None]))
        if s < 0.75:
            return cur
        if s < 0.85:
            return b.const(np.zeros((2, 3)[: rng.randint(1, 2)], np.float32))
        return rng.choice(b.vals)

    def perturb(vals, p_out=0.06, p_cap=0.06, p_cons=0.08):
        for v in vals:
            r = rng.random()
            if r < p_out:
                must_out.append(v)
                stats["intermediate_is_output"] += 1
            elif r < p_out + p_cap:
                b.if_capturing([v])
                stats["intermediate_captured"] += 1
            elif r < p_out + p_cap + p_cons:
                must_out.append(b.node(rng.choice(["Relu", "Shape", "Neg", "Softmax"]), [v], None))
                stats["extra_consumer"] += 1

    for _ in range(rng.randint(1, 3)):
        kind = rng.random()
        if kind < 0.35:
            # T1 -> chain of ALLOWED_ELEMWISE / other elementwise -> T2
            p = pick_perm()
            src = rng.choice(b.vals)
            cur = _tnode(b, ir, src, p if rng.random() < 0.95 else None, dom())
            vals = [cur]
            t1_out = cur
            for j in range(rng.choice([0, 0, 1, 1, 2, 3, 5, 7, 8])):
                q = rng.random()
                if q < 0.4:
                    op = rng.choice(_UNARY + ["Abs", "Neg", "Exp", "Sqrt"])
                    cur = b.node(op, [cur], None, domain=dom(), attrs=[ir.Attr("to", ir.AttributeType.INT, 1)] if op == "Cast" else [])
                elif q < 0.75:
                    op = rng.choice(_SIDE + ["Add", "Mul", "Sub"])
                    sides = [side(cur) for _s in range(2 if op == "Clip" and rng.random() < 0.5 else 1)]
                    ins = [cur] + sides if (op == "Clip" or rng.random() < 0.7) else sides + [cur]
                    cur = b.node(op, ins, None, domain=dom())
                elif q < 0.9:
                    like = rng.choice([b.scalar_const(), rng.choice(b.vals), t1_out, b.const(np.zeros((2, 3), np.float64))])
                    cur = b.node("CastLike", [cur, like] if rng.random() < 0.85 else [like, cur], None, domain=dom())
                else:
                    cur = b.node(rng.choice(["Softmax", "ReduceSum", "Dropout"]), [cur], None)
                vals.append(cur)
            t2 = _tnode(b, ir, cur, out_perm(p), dom())
            must_out.append(t2)
            if rng.random() < 0.4:
                must_out.append(b.node("Relu", [t2], None))
            perturb(vals)
        elif kind < 0.6:
            # forest: several transposed inputs -> elementwise DAG -> one or more inverse transposes
            p = pick_perm()
            leaves = []
            for _i in range(rng.randint(1, 3)):
                pp = p if rng.random() < 0.9 else pick_perm()
                leaves.append(_tnode(b, ir, rng.choice(b.vals), pp, dom(0.03)))
            pool = list(leaves)
            inner = []
            for j in range(rng.randint(1, 4)):
                q = rng.random()
                if q < 0.55 and len(pool) >= 1:
                    x, y = rng.choice(pool), rng.choice(pool + [b.scalar_const()] + ([rng.choice(b.vals)] if rng.random() < 0.1 else []))
                    v = b.node(rng.choice(["Add", "Mul", "Sub", "Div", "Max"]), [x, y] if rng.random() < 0.7 else [y, x], None, domain=dom(0.03))
                else:
                    v = b.node(rng.choice(["Relu", "Neg", "Sigmoid", "Exp", "Identity"]), [rng.choice(pool)], None, domain=dom(0.03))
                pool.append(v)
                inner.append(v)
            for v in inner[-rng.randint(1, 2):]:
                t2 = _tnode(b, ir, v, out_perm(p), dom(0.03))
                must_out.append(t2)
            for v in inner[:-1]:
                if not v.consumers() and rng.random() < 0.6:
                    must_out.append(_tnode(b, ir, v, _inv(p), ""))
            perturb(inner + leaves, 0.05, 0.05, 0.06)
        elif kind < 0.8:
            # Add chain between transposes
            p = pick_perm()
            n_first = rng.randint(1, 2)
            cur = b.node("Add", [_tnode(b, ir, rng.choice(b.vals), p, "") for _i in range(2)] if n_first == 2 or rng.random() < 0.7
                         else [_tnode(b, ir, rng.choice(b.vals), p, ""), rng.choice(b.vals)], None, domain=dom(0.03))
            adds = [cur]
            for j in range(rng.randint(0, 3)):
                if rng.random() < 0.5:
                    must_out.append(_tnode(b, ir, cur, out_perm(p), dom(0.03)))
                t = _tnode(b, ir, rng.choice(b.vals), p if rng.random() < 0.9 else pick_perm(), "")
                cur = b.node("Add", [cur, t] if rng.random() < 0.6 else [t, cur], None, domain=dom(0.03))
                adds.append(cur)
            for _i in range(rng.randint(1, 2)):
                must_out.append(_tnode(b, ir, cur, out_perm(p), dom(0.03)))
            perturb(adds, 0.05, 0.05, 0.08)
        elif kind < 0.93:
            # one transpose with several consumers, some of them inverse transposes
            p = pick_perm()
            t1 = _tnode(b, ir, rng.choice(b.vals), p, dom())
            for _i in range(rng.randint(2, 4)):
                if rng.random() < 0.6:
                    must_out.append(_tnode(b, ir, t1, out_perm(p), dom()))
                else:
                    must_out.append(b.node(rng.choice(["Relu", "Neg", "Softmax"]), [t1], None))
            perturb([t1], 0.1, 0.1, 0.0)
        else:
            must_out.append(b.node(rng.choice(["Relu", "Neg", "Add"]), [rng.choice(b.vals)], None))
    outs = []
    for v in must_out:
        if v not in outs and (rng.random() < 0.85 or not v.consumers()):
            outs.append(v)
    if not outs:
        outs = [b.vals[-1]]
    return b, b.graph(outs)


def _self_inverse_forest_graph(ir, rng, i):
    """a = T[p](x); s = Relu(a); u = T[p](s); m = Add(s, u); y = T[p](m) with a self-inverse p: u is both an input and an
    output transpose of the forest (the real pass removed it twice: .scratch/c02p/defect_transpose_forest_double_remove.py)"""
    b = _Builder(ir, rng)
    p = [[1, 0], [0, 1], [0, 2, 1]][i % 3]
    x = b.inp((2, 2, 2)[: len(p)])
    a = _tnode(b, ir, x, p)
    s = b.node("Relu", [a], None)
    u = _tnode(b, ir, s, p)
    m = b.node(["Add", "Mul"][(i // 3) % 2], [s, u] if i % 2 else [u, s], None)
    y = _tnode(b, ir, m, p)
    return b, b.graph([y])


def _self_inverse_addchain_graph(ir, rng, i):
    """a1 = Add(T[p](x1), T[p](x2)); u = T[p](a1); a2 = Add(a1, u); y = T[p](a2) with a self-inverse p: u is an input Transpose of
    chain member a2 AND a consumer Transpose of chain value a1 (the Add-chain phase silently computed s+s instead of T(s)+s:
    .scratch/c02p/defect_transpose_addchain_self_inverse.py)"""
    b = _Builder(ir, rng)
    p = [[1, 0], [0, 1], [0, 2, 1]][i % 3]
    shp = (2, 2, 2)[: len(p)]
    x1, x2 = b.inp(shp), b.inp(shp)
    a1 = b.node("Add", [_tnode(b, ir, x1, p), _tnode(b, ir, x2, p)], None)
    u = _tnode(b, ir, a1, p)
    a2 = b.node("Add", [a1, u] if i % 2 else [u, a1], None)
    y = _tnode(b, ir, a2, p)
    return b, b.graph([y] if i < 3 else [y, u])


_KINDS = ["add_chain", "forest", "dag_direct_pair", "dag_with_elementwise", "chain_direct_pair", "chain_with_elementwise", "multi_consumer"]


def tie_transpose_pair_pass(ctx, n_cases):
    import collections
    import re
    import onnx_ir as ir
    from jax2onnx.converter import ir_optimizations as opt
    rng = ctx.rng
    stats = collections.Counter()
    rows = []
    crashes = []
    ort_bad = []
    for c in range(n_cases):
        b, g = (_self_inverse_forest_graph(ir, rng, c) if c < 6 else
                _self_inverse_addchain_graph(ir, rng, c - 6) if c < 12 else _rand_transpose_graph(ir, rng, stats))
        table = {}

        def intern(name):
            return table.setdefault(name, len(table) + 1)
        known = {v.name for v in b.inputs + b.consts + b.vals}
        if c >= 12:
            _declare_shapes(ir, rng, b, g)
        before = dump(ir, g, intern, known)
        scalars = {intern(v.name): True for v in b.inputs + b.consts + b.vals if opt._is_scalar_const_value(v)}
        shapes_b = _all_shapes(ir, b, g, intern)
        ort_before = _ort_outputs(_model_bytes(ir, g), c) if c < 12 else None
        try:
            opt.remove_redundant_transpose_pairs_ir(g)
        except Exception as e:      # an exception of the real pass is a finding of its own, not a disagreement with the model
            crashes.append((c, repr(e)[:200], before))
            msg = str(e)
            tag = "does not belong to this graph" if "does not belong to this graph" in msg else type(e).__name__
            ctx.violate(f"remove_redundant_transpose_pairs_ir:raises:{tag}",
                        f"the real pass raised {type(e).__name__} on a graph of the transpose-pair tie (case {c}): {msg[:160]}",
                        {"tie": "transpose_pair", "case": c, "seed": ctx.seed, "nodes": [list(map(str, n)) for n in before[0]], "outputs": before[1]})
            continue
        after = dump(ir, g, intern, known)
        if c < 12:
            ort_after = _ort_outputs(_model_bytes(ir, g), c)
            if not _same_outputs(ort_before, ort_after):
                ort_bad.append((c, str(ort_before)[:120], str(ort_after)[:120]))
        removed = len(before[0]) - len(after[0])
        stats["graphs_rewritten"] += int(before != after)
        stats["nodes_removed"] += removed
        shapes_a = _all_shapes(ir, b, g, intern)
        rows.append((before, after, scalars, shapes_b, shapes_a, sorted(set(shapes_b) | set(shapes_a))))
    shape_bad = _shape_tie(ctx, "c02_transpose_pair_shapes", rows, "(o_step_T CHAIN_RF)".replace("CHAIN_RF", _CHAIN_RF),
                           "o_step_T (fold + rewired refresh of the moved members) == remove_redundant_transpose_pairs_ir")
    header = common.CASES_HEADER + "From J2O Require Import Graph Redirect ReshapePairPass TransposePairPass TransposeRegion.\nClose Scope Z_scope.\n" + """
Definition chk (c : tgraph * (list node * list nat)) : bool :=
  let '(g, (ns, outs)) := c in
  let g' := transpose_pair_pass 60 g in
  list_eqb node_eqb (tg_nodes g') ns && leqb (tg_outputs g') outs.
Definition kinds (l : list (tgraph * (list node * list nat))) : list nat :=
  let tr := map (fun c => pass_trace 60 (fst c)) l in
  map (fun k => length (filter (Nat.eqb k) (concat tr))) (seq 1 7)
  ++ [length (filter (fun t => negb (match t with [] => true | _ => false end)) tr);
      length (filter (fun c => negb (match pass_trace 60 (fst c) with [] => true | _ => false end) && kinds_along 60 (fst c)) l)].
"""

    def render(chunk, off):
        items = []
        for before, after, scalars, _sb, _sa, _nm in chunk:
            tg = f"(mkTG {coq_nodes(before[0], True)} {nl(before[1])} {coq_fn(scalars, 'bool', lambda v: 'true', default='false')})"
            items.append(f"({tg}, ({coq_nodes(after[0], True)}, {nl(after[1])}))")
        return ("Definition cs := [\n" + ";\n".join(items) + "].\nEval vm_compute in bad_idx_ chk 0 cs.\n"
                "Definition kinds_result := kinds cs.\nEval vm_compute in kinds_result.\n")
    results, offsets = coq_eval_batches(ctx, "c02_transpose_pair", header, rows, render)
    bad, err = collect_bad(results, offsets)
    kinds = [0] * 9
    for ok, out in results:
        m = re.findall(r"=\s*(\[[^\]]*\])\s*:\s*list nat", out.replace("\n", " "))
        if ok and len(m) >= 2:
            for i, x in enumerate(m[1].strip("[]").split(";")):
                kinds[i] += int(x.replace("%nat", "").strip())
    for k, name in enumerate(_KINDS):
        stats["actions_" + name] = kinds[k]
    stats["graphs_with_actions"] = kinds[7]
    stats["graphs_all_actions_of_proved_kinds"] = kinds[8]
    stats["real_pass_raised"] = len(crashes)
    ctx.oblige(f"tie:TransposePairPass.v transpose_pair_pass == remove_redundant_transpose_pairs_ir ({len(rows)} random graphs, "
               f"{stats['graphs_rewritten']} rewritten, {stats['nodes_removed']} nodes removed; actions by kind "
               f"{ {n: kinds[k] for k, n in enumerate(_KINDS)} })",
               err is None and bad == [], "tie",
               err if err is not None else f"model and implementation differ on cases {bad[:6]}: {[rows[i][:2] for i in bad[:2]]}")
    ctx.oblige("tie:remove_redundant_transpose_pairs_ir on the 12 self-inverse forest / Add-chain graphs (a Transpose that is both an "
               "input and a consumer of the moved region): onnxruntime outputs are the same before and after the real pass", not ort_bad, "tie",
               f"outputs differ: {ort_bad[:3]}")
    for c, sb, sa in ort_bad:
        ctx.violate("remove_redundant_transpose_pairs_ir:region-self-inverse", f"the real pass changes the model's outputs on crafted graph {c}: before {sb} after {sa}",
                    {"tie": "transpose_pair", "case": c, "seed": ctx.seed})
    ctx.coverage["transpose_pair_tie"] = dict(stats)
    if crashes:
        ctx.coverage["transpose_pair_tie"]["raised_examples"] = [c[1] for c in crashes[:3]]
    return rows, bad


# ------------------------------------------------------------------ remove_redundant_transpose_reduce_ir
def _enc_z(z):
    return 2 * (-z) - 1 if z < 0 else 2 * z


def _reduce_attrs(ir, n):
    """attribute payload of a node for TransposeReducePass.v"""
    if n.op_type == "Transpose":
        perm = n.attributes.get("perm")
        return [1] + [int(x) for x in perm.as_ints()] if (perm is not None and perm.type == ir.AttributeType.INTS) else []
    if n.op_type == "ReduceMean":
        kd = n.attributes.get("keepdims")
        kdv = None
        if kd is not None:
            if kd.type == ir.AttributeType.INT:
                kdv = int(kd.as_int())
            elif kd.type == ir.AttributeType.INTS and tuple(kd.as_ints()):
                kdv = int(tuple(kd.as_ints())[0])
        ax = n.attributes.get("axes")
        if ax is not None and ax.type == ir.AttributeType.INTS:
            return [0 if kdv is None or kdv < 0 else kdv + 1, 1] + [_enc_z(int(a)) for a in ax.as_ints()]
        return [0 if kdv is None or kdv < 0 else kdv + 1, 0]
    if n.op_type == "Constant" and n.domain == "":
        val = n.attributes.get("value")
        if val is not None and val.type == ir.AttributeType.TENSOR:
            arr = np.asarray(val.as_tensor().numpy())
            if arr.dtype == np.int64 and arr.ndim == 1 and all(int(x) >= 0 for x in arr):
                return [5] + [2 * int(x) for x in arr]
    return []


def _function_body_reduce_case(ir, opt, i):
    """the pass on the BODY of a function (function graphs cannot carry initializers: the re-mapped axes must be a Constant node):
    x[2,3,4] -T(0,2,1)-> ReduceMean(axes input, keepdims=1) -T(0,2,1)-> y inside custom::F, called once from the main graph;
    returns (outputs before, outputs after) of the whole model in onnxruntime"""
    import onnx
    from onnx import helper as H, TensorProto as TP
    ax = [[1], [-1], [0, 2]][i % 3]
    body = [H.make_node("Constant", [], ["ax"], value=H.make_tensor("axv", TP.INT64, [len(ax)], ax)),
            H.make_node("Transpose", ["x"], ["t"], perm=[0, 2, 1]),
            H.make_node("ReduceMean", ["t", "ax"], ["r"], keepdims=1),
            H.make_node("Transpose", ["r"], ["y"], perm=[0, 2, 1])]
    fn = H.make_function("custom", "F", ["x"], ["y"], body, opset_imports=[H.make_opsetid("", 18)])
    g = H.make_graph([H.make_node("F", ["a"], ["b"], domain="custom")], "g", [H.make_tensor_value_info("a", TP.FLOAT, [2, 3, 4])],
                     [H.make_tensor_value_info("b", TP.FLOAT, None)])
    m = H.make_model(g, opset_imports=[H.make_opsetid("", 18), H.make_opsetid("custom", 1)], functions=[fn])
    m.ir_version = 10
    import onnxruntime as ort
    ort.set_default_logger_severity(3)
    x = np.arange(24, dtype=np.float32).reshape(2, 3, 4)

    def run(mm):
        try:
            return [np.asarray(v) for v in ort.InferenceSession(mm.SerializeToString()).run(None, {"a": x})]
        except Exception as e:      # noqa: BLE001
            return [f"{type(e).__name__}: {str(e)[:160]}"]
    before = run(m)
    irm = ir.from_proto(m)
    n_before = 0
    for f in irm.functions.values():
        n_before += sum(1 for nd in f if nd.op_type == "Transpose")
        for nd in f:      # the converter keeps the payload of a constant on the value
            if nd.op_type == "Constant" and "value" in nd.attributes:
                nd.outputs[0].const_value = nd.attributes["value"].as_tensor()
        opt.remove_redundant_transpose_reduce_ir(f.graph if hasattr(f, "graph") else f)
    n_after = sum(1 for f in irm.functions.values() for nd in f if nd.op_type == "Transpose")
    return before, run(ir.to_proto(irm)), n_before, n_after


def _rand_reduce_graph(ir, rng, stats):
    b = _Builder(ir, rng)
    rank = rng.choice([2, 3, 3, 4])
    for _ in range(rng.randint(1, 2)):
        b.inp((2, 3, 4, 5)[:rank])
    must_out = []
    for _ in range(rng.randint(1, 3)):
        p = list(rng.choice(_PERMS[rank]))
        src = rng.choice(b.vals)
        dom = lambda pr=0.06: rng.choice(["custom", "ai.onnx"]) if rng.random() < pr else ""      # noqa: E731
        t1 = _tnode(b, ir, src, p if rng.random() < 0.95 else None, dom())
        k = rng.random()
        axes = sorted(rng.sample(range(-rank, rank + (1 if rng.random() < 0.08 else 0)), rng.randint(0, min(3, rank))))
        attrs = []
        kd = rng.random()
        if kd < 0.8:
            attrs.append(ir.Attr("keepdims", ir.AttributeType.INT, 1))
        elif kd < 0.9:
            attrs.append(ir.Attr("keepdims", ir.AttributeType.INT, 0))
        ins = [t1]
        if k < 0.45:
            dt = np.int64 if rng.random() < 0.85 else (np.int32 if rng.random() < 0.5 else np.uint8)
            ins.append(b.const(np.asarray([a % rank if dt is np.uint8 else a for a in axes], dt)))
        elif k < 0.55:
            ins.append(b.inp((len(axes),)))                       # dynamic axes
        elif k < 0.6:
            ins.append(None)                                      # explicitly absent
        elif k < 0.9:
            attrs.append(ir.Attr("axes", ir.AttributeType.INTS, axes))
        red_op = "ReduceMean" if rng.random() < 0.9 else rng.choice(["ReduceSum", "ReduceMax"])
        outs = [b.val(b.fresh(), None)]
        rn = ir.Node(dom(), red_op, ins, outputs=outs, name=b.fresh("n") if rng.random() < 0.7 else "", attributes=attrs)
        b.nodes.append(rn)
        b.vals.extend(outs)
        r = outs[0]
        mid = r
        if rng.random() < 0.08:
            mid = b.node("Relu", [r], None)                        # something between the reducer and T2
        q = _inv(p) if rng.random() < 0.85 else list(rng.choice(_PERMS[rank]))
        t2 = _tnode(b, ir, mid, q if rng.random() < 0.95 else None, dom())
        must_out.append(t2)
        pr = rng.random()
        if pr < 0.08:
            must_out.append(r)
            stats["reducer_out_is_output"] += 1
        elif pr < 0.16:
            b.if_capturing([r])
            stats["reducer_out_captured"] += 1
        elif pr < 0.26:
            must_out.append(b.node(rng.choice(["Relu", "Neg"]), [r], None))
            stats["reducer_extra_consumer"] += 1
        if rng.random() < 0.3:
            must_out.append(b.node("Relu", [t1], None))
        if rng.random() < 0.4:
            must_out.append(b.node("Relu", [t2], None))
    outs = []
    for v in must_out:
        if v not in outs and (rng.random() < 0.85 or not v.consumers()):
            outs.append(v)
    return b, b.graph(outs or [b.vals[-1]])


def _stale_shape_reduce_graph(ir, rng, i):
    """x[2,3,4] -T(0,2,1)-> ReduceMean(axes=[1], keepdims=1) (declared [2,1,3]) -T(0,2,1)-> u -Reshape([2,1,3])-> y, with u's declared
    shape absent / true / true: when it is absent the reducer's old declared shape must be CLEARED by the fold, else
    remove_identity_reshapes_ir takes the real Reshape for an identity (.scratch/c02p/defect_transpose_reduce_stale_shape.py)"""
    b = _Builder(ir, rng)
    x = b.inp((2, 3, 4))
    t = _tnode(b, ir, x, [0, 2, 1])
    attrs = [ir.Attr("keepdims", ir.AttributeType.INT, 1)]
    ins = [t, b.const(np.asarray([1 if i % 2 else -2], np.int64))]      # (the attribute form of the axes is not valid at the opset of the builder)
    r = b.val(b.fresh(), (2, 1, 3))
    b.nodes.append(ir.Node("", "ReduceMean", ins, outputs=[r], name=b.fresh("n"), attributes=attrs))
    b.vals.append(r)
    u = _tnode(b, ir, r, [0, 2, 1])
    u.shape = None if i < 2 else ir.Shape((2, 3, 1))
    y = b.node("Reshape", [u, b.const(np.asarray([2, 1, 3], np.int64))], (2, 1, 3))
    return b, b.graph([y])


_N_STALE = 4


def tie_transpose_reduce_pass(ctx, n_cases):
    import collections
    import onnx_ir as ir
    from jax2onnx.converter import ir_optimizations as opt
    rng = ctx.rng
    stats = collections.Counter()
    rows = []
    ort_bad = []
    for c in range(n_cases):
        if c < _N_STALE:
            b, g = _stale_shape_reduce_graph(ir, rng, c)
            ort_before = _ort_outputs(_model_bytes(ir, g), c)
        else:
            b, g = _rand_reduce_graph(ir, rng, stats)
            # declared shapes: arbitrary (the decision of the pass does not read them), present or absent on every node output
            for n in g:
                for o in n.outputs:
                    o.shape = None if rng.random() < 0.4 else ir.Shape(tuple(rng.choice([1, 2, 3, 5, "B"]) for _ in range(rng.randint(1, 3))))
        table = {}

        def intern(name):
            return table.setdefault(name, len(table) + 1)
        known = {v.name for v in b.inputs + b.consts + b.vals}

        def snapshot():
            ns, outs = dump(ir, g, intern, known, keep_none=True)
            nodes = [(op, _reduce_attrs(ir, n) if "::" not in op or op.startswith("ai.onnx::") else _reduce_attrs(ir, n), i, cc, o) for op, n, i, cc, o in ns]
            consts = {}
            for v in list(g.initializers.values()) + [iv for n in g for iv in n.inputs if iv is not None]:
                cv = opt._value_const_ints(v)
                if cv is not None:
                    consts[intern(v.name)] = [int(x) for x in cv]
            return (nodes, outs), consts

        def shapes_now():
            return {intern(o.name): dims_of(ir, o) for n in g for o in n.outputs if dims_of(ir, o) is not None}
        before, consts_b = snapshot()
        shapes_b = shapes_now()
        k0 = len(table)        # every name interned so far: the created names come after
        opt.remove_redundant_transpose_reduce_ir(g)
        # two distinct Value objects under one name: the created axes initializers collide (a finding of its own)
        by_name = {}
        for v in [iv for n in g for iv in n.inputs if iv is not None]:
            by_name.setdefault(v.name, set()).add(id(v))
        clash = sorted(nm for nm, ids in by_name.items() if len(ids) > 1)
        if clash:
            stats["axes_initializer_name_collisions"] += 1
            ctx.violate("remove_redundant_transpose_reduce_ir:axes-initializer-name-collision",
                        f"after the real pass two different values are called {clash[0]!r} (case {c}): the re-mapped axes initializers of two "
                        "folded ReduceMean nodes with the same node name share one name",
                        {"tie": "transpose_reduce", "case": c, "seed": ctx.seed, "nodes": [list(map(str, n)) for n in before[0][0]]})
            continue
        after, consts_a = snapshot()
        shapes_a = shapes_now()
        out_names = sorted(k for k in {intern(o.name) for n in g for o in n.outputs} if k <= k0)
        stats["graphs_rewritten"] += int(len(before[0]) != len(after[0]))
        stats["nodes_removed"] += len(before[0]) - len(after[0])
        stats["declared_shapes_changed"] += sum(1 for k in out_names if shapes_b.get(k) != shapes_a.get(k))
        rows.append((before, consts_b, after, consts_a, shapes_b, shapes_a, out_names, k0))
        if c < _N_STALE:
            opt.remove_identity_reshapes_ir(g)
            ort_after = _ort_outputs(_model_bytes(ir, g), c)
            if not _same_outputs(ort_before, ort_after):
                ort_bad.append((c, str([getattr(x, "shape", x) for x in (ort_before if isinstance(ort_before, list) else [ort_before])]),
                                str([getattr(x, "shape", x) for x in (ort_after if isinstance(ort_after, list) else [ort_after])])))
    header = common.CASES_HEADER + "From J2O Require Import Graph Redirect ReshapePairPass TransposePairPass TransposeReducePass.\nClose Scope Z_scope.\n" + """
Definition dims_eqb (a b : option (list dim)) : bool :=
  match a, b with Some x, Some y => list_eqb dim_eqb x y | None, None => true | _, _ => false end.
(* the created Constant nodes are compared up to the name of their output (after norm_rm nobody mentions it) *)
Definition norm_c (k0 : nat) (n : node) : node :=
  if String.eqb (n_op n) "Constant" && forallb (fun y => Nat.ltb k0 y) (n_outs n) then mkNode (n_op n) (n_attrs n) [] [] [0] else n.
Definition chk (c : rgraphT * rgraphT * (nat -> option (list dim)) * list (nat * option (list dim)) * nat) : bool :=
  let '(g, h, sh, sha, k0) := c in
  let r := tr_pass_sh 40 g sh in
  let g' := fst r in
  list_eqb node_eqb (map (fun n => norm_c k0 (norm_rm g' n)) (rt_nodes g')) (map (fun n => norm_c k0 (norm_rm h n)) (rt_nodes h))
  && leqb (rt_outputs g') (rt_outputs h)
  && forallb (fun p => dims_eqb (snd r (fst p)) (snd p)) sha.
"""

    def lit_nodes(ns):
        return "[" + "; ".join(f'mkNode "{op}"%string {nl(a)} {nl(i)} {nl(cc)} {nl(o)}' for op, a, i, cc, o in ns) + "]"

    def rt(gr, consts, nxt):
        return f"(mkRT {lit_nodes(gr[0])} {nl(gr[1])} {coq_fn(consts, '(list Z)', lambda v: '(Some [' + '; '.join(f'({x})%Z' for x in v) + '])')} {nxt})"

    def render(chunk, off):
        items = []
        for bf, cb, af, ca, shb, sha, names, k0 in chunk:
            shf = coq_fn(shb, '(list dim)', lambda v: '(Some ' + dims_lit(v) + ')')
            shl = "[" + "; ".join(f"({k}, {'Some ' + dims_lit(sha[k]) if k in sha else 'None'})" for k in names) + "]"
            items.append(f"({rt(bf, cb, k0 + 1)}, {rt(af, ca, 0)}, {shf}, {shl}, {k0})")
        return "Definition cs := [\n" + ";\n".join(items) + "].\nEval vm_compute in bad_idx_ chk 0 cs.\n"
    bad, err = collect_bad(*coq_eval_batches(ctx, "c02_transpose_reduce", header, rows, render))
    ctx.oblige(f"tie:TransposeReducePass.v tr_pass_sh == remove_redundant_transpose_reduce_ir ({len(rows)} graphs, "
               f"{stats['graphs_rewritten']} rewritten, {stats['nodes_removed']} nodes removed, {stats['declared_shapes_changed']} declared shapes "
               "copied or cleared; graphs compared up to the names of the created axes initializers, declared shapes of every node output compared)",
               err is None and bad == [], "tie",
               err if err is not None else f"model and implementation differ on cases {bad[:6]}: {[(rows[i][0], rows[i][2], rows[i][4], rows[i][5]) for i in bad[:2]]}")
    ctx.oblige(f"tie:remove_redundant_transpose_reduce_ir + remove_identity_reshapes_ir on the {_N_STALE} stale-shape graphs (T2's output with / "
               "without a declared shape): onnxruntime outputs (shapes and values) are the same before and after", not ort_bad, "tie",
               f"outputs differ: {ort_bad[:3]}")
    fb_bad = []
    fb_folded = 0
    for i in range(3):
        bf, af, nb, na = _function_body_reduce_case(ir, opt, i)
        fb_folded += int(na < nb)
        if not _same_outputs(bf, af) or (bf and isinstance(bf[0], str)):
            fb_bad.append((i, str(bf)[:160], str(af)[:160]))
    ctx.oblige(f"tie:remove_redundant_transpose_reduce_ir on the BODY of a function (3 graphs, axes as a constant input; {fb_folded} folded): the model "
               "still loads and computes the same in onnxruntime (the re-mapped axes are a Constant node, not an initializer)", not fb_bad and fb_folded == 3, "tie",
               f"function-body cases: {fb_bad[:2]} folded {fb_folded}")
    for i, sb, sa in fb_bad:
        ctx.violate("remove_redundant_transpose_reduce_ir:function-body-initializer",
                    f"the pass run on a function body breaks the model (case {i}): before {sb} after {sa}", {"tie": "transpose_reduce", "case": i})
    for c, sb, sa in ort_bad:
        ctx.violate("remove_redundant_transpose_reduce_ir:stale-declared-shape",
                    f"transpose_reduce + identity_reshapes change the model's outputs on stale-shape graph {c}: before {sb} after {sa}",
                    {"tie": "transpose_reduce", "case": c, "seed": ctx.seed})
    ctx.coverage["transpose_reduce_tie"] = dict(stats)
    return rows, bad


# ------------------------------------------------------------------ remove_redundant_transpose_add_forests_ir
def _rand_addforest_graph(ir, rng, stats):
    if rng.random() < 0.25:
        return _rand_transpose_graph(ir, rng, stats)
    b = _Builder(ir, rng)
    rank = rng.choice([2, 3, 3, 4])
    for _ in range(rng.randint(1, 3)):
        b.inp((2, 3, 4, 5)[:rank])
    must_out = []
    for _ in range(rng.randint(1, 2)):
        p = list(rng.choice(_PERMS[rank]))
        selfinv = rng.random() < 0.15
        if selfinv and rank >= 2:
            p = [[1, 0], [0, 2, 1], [0, 1, 3, 2]][rank - 2]
        leaves = [_tnode(b, ir, rng.choice(b.vals), p if rng.random() < 0.93 else list(rng.choice(_PERMS[rank])),
                         rng.choice(["custom", "ai.onnx"]) if rng.random() < 0.04 else "") for _i in range(rng.randint(1, 4))]
        adds = []
        root = b.node("Add", [rng.choice(leaves), rng.choice(leaves)] if rng.random() < 0.9 else [rng.choice(leaves), rng.choice(b.vals)], None)
        adds.append(root)
        for j in range(rng.randint(0, 4)):
            x = rng.choice(adds)
            r = rng.random()
            if r < 0.55:
                y = rng.choice(leaves)
            elif r < 0.8:
                y = rng.choice(adds)
            elif r < 0.9:
                y = _tnode(b, ir, rng.choice(adds), p, "")        # a Transpose of a forest value feeding the forest again
            else:
                y = rng.choice([b.scalar_const(), rng.choice(b.vals)])
            op = "Add" if rng.random() < 0.92 else rng.choice(["Mul", "Sub"])
            v = b.node(op, [x, y] if rng.random() < 0.6 else [y, x], None, domain=rng.choice(["custom", "ai.onnx"]) if rng.random() < 0.04 else "")
            adds.append(v)
        for v in adds:
            r = rng.random()
            if not v.consumers() or r < 0.35:
                q = _inv(p) if rng.random() < 0.88 else list(rng.choice(_PERMS[rank]))
                must_out.append(_tnode(b, ir, v, q if rng.random() < 0.96 else None, ""))
            if r > 0.93:
                must_out.append(b.node(rng.choice(["Relu", "Neg"]), [v], None))
                stats["extra_consumer"] += 1
            elif r > 0.88:
                must_out.append(v)
                stats["intermediate_is_output"] += 1
            elif r > 0.83:
                b.if_capturing([v])
                stats["intermediate_captured"] += 1
        for t in leaves:
            if rng.random() < 0.15:
                must_out.append(b.node("Relu", [t], None) if rng.random() < 0.6 else t)
    outs = []
    for v in must_out:
        if v not in outs and (rng.random() < 0.85 or not v.consumers()):
            outs.append(v)
    return b, b.graph(outs or [b.vals[-1]])


def tie_transpose_add_forest_pass(ctx, n_cases):
    import collections
    import onnx_ir as ir
    from jax2onnx.converter import ir_optimizations as opt
    rng = ctx.rng
    stats = collections.Counter()
    rows = []
    for c in range(n_cases):
        b, g = _self_inverse_addchain_graph(ir, rng, c) if c < 6 else _rand_addforest_graph(ir, rng, stats)
        table = {}

        def intern(name):
            return table.setdefault(name, len(table) + 1)
        known = {v.name for v in b.inputs + b.consts + b.vals}
        if c >= 6:
            _declare_shapes(ir, rng, b, g)
        before = dump(ir, g, intern, known)
        scalars = {intern(v.name): True for v in b.inputs + b.consts + b.vals if opt._is_scalar_const_value(v)}
        shapes_b = _all_shapes(ir, b, g, intern)
        ort_before = _ort_outputs(_model_bytes(ir, g), c) if c < 6 else None
        try:
            opt.remove_redundant_transpose_add_forests_ir(g)
        except Exception as e:
            msg = str(e)
            tag = "does not belong to this graph" if "does not belong to this graph" in msg else type(e).__name__
            stats["real_pass_raised"] += 1
            ctx.violate(f"remove_redundant_transpose_add_forests_ir:raises:{tag}",
                        f"the real pass raised {type(e).__name__} on a graph of the add-forest tie (case {c}): {msg[:160]}",
                        {"tie": "transpose_add_forest", "case": c, "seed": ctx.seed, "nodes": [list(map(str, n)) for n in before[0]]})
            continue
        after = dump(ir, g, intern, known)
        if c < 6:
            ort_after = _ort_outputs(_model_bytes(ir, g), c)
            if not _same_outputs(ort_before, ort_after):
                ctx.violate("remove_redundant_transpose_add_forests_ir:region-self-inverse",
                            f"the real pass changes the model's outputs on crafted graph {c}", {"tie": "transpose_add_forest", "case": c})
        stats["graphs_rewritten"] += int(before != after)
        stats["nodes_removed"] += len(before[0]) - len(after[0])
        shapes_a = _all_shapes(ir, b, g, intern)
        rows.append((before, after, scalars, shapes_b, shapes_a, sorted(set(shapes_b) | set(shapes_a))))
    _shape_tie(ctx, "c02_transpose_addforest_shapes", rows, "o_step_F",
               "o_step_F (fold + rewired refresh of the moved Adds) == remove_redundant_transpose_add_forests_ir")
    header = common.CASES_HEADER + "From J2O Require Import Graph Redirect ReshapePairPass TransposePairPass TransposeAddForestPass.\nClose Scope Z_scope.\n" + """
Definition chk (c : tgraph * (list node * list nat)) : bool :=
  let '(g, (ns, outs)) := c in
  let g' := addforest_pass 60 g in
  list_eqb node_eqb (tg_nodes g') ns && leqb (tg_outputs g') outs.
"""

    def render(chunk, off):
        items = []
        for before, after, scalars, _sb, _sa, _nm in chunk:
            tg = f"(mkTG {coq_nodes(before[0], True)} {nl(before[1])} {coq_fn(scalars, 'bool', lambda v: 'true', default='false')})"
            items.append(f"({tg}, ({coq_nodes(after[0], True)}, {nl(after[1])}))")
        return "Definition cs := [\n" + ";\n".join(items) + "].\nEval vm_compute in bad_idx_ chk 0 cs.\n"
    bad, err = collect_bad(*coq_eval_batches(ctx, "c02_transpose_add_forest", header, rows, render))
    ctx.oblige(f"tie:TransposeAddForestPass.v addforest_pass == remove_redundant_transpose_add_forests_ir ({len(rows)} random graphs, "
               f"{stats['graphs_rewritten']} rewritten, {stats['nodes_removed']} nodes removed)",
               err is None and bad == [], "tie",
               err if err is not None else f"model and implementation differ on cases {bad[:6]}: {[rows[i][:2] for i in bad[:2]]}")
    ctx.coverage["transpose_add_forest_tie"] = dict(stats)
    return rows, bad


# ------------------------------------------------------------------ propagate_unary_shapes_ir (annotation-only)
def _rand_unary_graph(ir, rng, stats):
    b = _Builder(ir, rng)
    for _ in range(rng.randint(1, 2)):
        b.inp(rng.choice([(2, 3), ("B", 3), (None, 3), (4,)]) if rng.random() < 0.8 else None)
    ops = ["Relu", "Gelu", "Identity", "Tanh", "Sigmoid", "Swish", "LeakyRelu", "Cast", "CastLike", "Dropout", "Neg", "Exp", "Add", "Transpose"]
    dts = [ir.DataType.FLOAT, ir.DataType.FLOAT16, ir.DataType.INT64, ir.DataType.BOOL]
    for _ in range(rng.randint(2, 7)):
        op = rng.choice(ops)
        dom = rng.choice(["custom", "ai.onnx"]) if rng.random() < 0.1 else ""
        x = rng.choice(b.vals)
        ins = [x]
        if op in ("CastLike", "Add") or (op == "Dropout" and rng.random() < 0.5):
            ins.append(rng.choice(b.vals))
        n_out = 2 if (op == "Dropout" and rng.random() < 0.4) else 1
        attrs = [ir.Attr("to", ir.AttributeType.INT, int(ir.DataType.INT64))] if op == "Cast" else []
        outs = []
        for _k in range(n_out):
            shp = rng.choice([None, None, (2, 3), ("B", 3), (7,), (None, 3)])
            v = b.val(b.fresh(), shp)
            if rng.random() < 0.25:
                v.type = None
            elif rng.random() < 0.5:
                v.type = ir.TensorType(rng.choice(dts))
            outs.append(v)
        b.nodes.append(ir.Node(dom, op, ins, outputs=outs, name=b.fresh("n"), attributes=attrs))
        b.vals.extend(outs)
        stats["unary_table_nodes"] += int(dom == "" and op in ("Relu", "Gelu", "Identity", "Tanh", "Sigmoid", "Swish", "LeakyRelu", "Cast", "CastLike", "Dropout"))
    return b, b.graph([b.vals[-1]])


def _dtype_code(ir, v):
    t = getattr(v, "type", None)
    dt = getattr(t, "dtype", None)
    return None if dt is None else int(dt)


def tie_propagate_unary_shapes(ctx, n_cases):
    import collections
    import onnx_ir as ir
    from jax2onnx.converter import ir_optimizations as opt
    rng = ctx.rng
    stats = collections.Counter()
    rows = []
    for c in range(n_cases):
        b, g = _rand_unary_graph(ir, rng, stats)
        table = {}

        def intern(name):
            return table.setdefault(name, len(table) + 1)
        known = {v.name for v in b.inputs + b.consts + b.vals}
        before = dump(ir, g, intern, known)

        def ann():
            sh, dt = {}, {}
            for v in b.inputs + b.consts + b.vals:
                ds = dims_of(ir, v)
                if ds is not None:
                    sh[intern(v.name)] = ds
                code = _dtype_code(ir, v)
                if code is not None:
                    dt[intern(v.name)] = code
            return sh, dt
        sh_b, dt_b = ann()
        opt.propagate_unary_shapes_ir(g)
        after = dump(ir, g, intern, known)
        assert after == before, "propagate_unary_shapes_ir changed the nodes"
        sh_a, dt_a = ann()
        names = sorted(intern(v.name) for v in b.inputs + b.consts + b.vals)
        stats["shapes_set"] += sum(1 for k in names if sh_b.get(k) != sh_a.get(k))
        stats["dtypes_set"] += sum(1 for k in names if dt_b.get(k) != dt_a.get(k))
        rows.append((before, sh_b, dt_b, sh_a, dt_a, names))
    header = common.CASES_HEADER + "From J2O Require Import Graph Redirect ReshapePairPass OptGraph PropagateShapes.\nClose Scope Z_scope.\n" + """
Definition dims_eqb (a b : option (list dim)) : bool :=
  match a, b with Some x, Some y => list_eqb dim_eqb x y | None, None => true | _, _ => false end.
Definition oz_eqb (a b : option Z) : bool := match a, b with Some x, Some y => Z.eqb x y | None, None => true | _, _ => false end.
Definition chk (c : ograph * list (nat * option (list dim)) * list (nat * option Z)) : bool :=
  let '(g, sha, dta) := c in
  let g' := o_pass_unary g in
  forallb (fun p => dims_eqb (o_shape g' (fst p)) (snd p)) sha && forallb (fun p => oz_eqb (o_dtype g' (fst p)) (snd p)) dta.
"""

    def render(chunk, off):
        items = []
        for before, sh_b, dt_b, sh_a, dt_a, names in chunk:
            og = (f"(mkOG {coq_nodes(before[0])} {nl(before[1])} {coq_fn(dt_b, 'Z', lambda v: f'(Some ({v})%Z)')} "
                  f"{coq_fn(sh_b, '(list dim)', lambda v: '(Some ' + dims_lit(v) + ')')} (fun _ => false) (fun _ => None) (fun _ => None) (fun _ => None) None)")
            shl = "[" + "; ".join(f"({k}, {'Some ' + dims_lit(sh_a[k]) if k in sh_a else 'None'})" for k in names) + "]"
            dtl = "[" + "; ".join(f"({k}, {f'Some ({dt_a[k]})%Z' if k in dt_a else 'None'})" for k in names) + "]"
            items.append(f"({og}, {shl}, {dtl})")
        return "Definition cs := [\n" + ";\n".join(items) + "].\nEval vm_compute in bad_idx_ chk 0 cs.\n"
    bad, err = collect_bad(*coq_eval_batches(ctx, "c02_propagate_unary", header, rows, render))
    ctx.oblige(f"tie:PropagateShapes.v o_pass_unary == propagate_unary_shapes_ir ({len(rows)} random graphs, {stats['unary_table_nodes']} nodes of the "
               f"table, {stats['shapes_set']} declared shapes and {stats['dtypes_set']} declared dtypes set; nodes untouched, every value's annotation compared)",
               err is None and bad == [], "tie",
               err if err is not None else f"model and implementation differ on cases {bad[:6]}: {[rows[i] for i in bad[:2]]}")
    ctx.coverage["propagate_unary_tie"] = dict(stats)
    return rows, bad


def tie_prune_touches_inputs_only(ctx, n_cases):
    """the pipeline model treats prune_unused_graph_inputs_ir as the identity on (nodes, graph outputs, initializers, annotations):
    check that on random graphs (the interface side is property C05)"""
    import collections
    import onnx_ir as ir
    from jax2onnx.converter import ir_optimizations as opt
    rng = ctx.rng
    stats = collections.Counter()
    bad = []
    for c in range(n_cases):
        b, g = _rand_unary_graph(ir, rng, stats)
        table = {}

        def intern(name):
            return table.setdefault(name, len(table) + 1)
        known = {v.name for v in b.inputs + b.consts + b.vals}

        def snap():
            return (dump(ir, g, intern, known), sorted(g.initializers.keys()),
                    [(v.name, str(v.shape), str(v.type)) for v in b.inputs + b.consts + b.vals])
        for k in range(rng.randint(0, 2)):      # inputs nobody reads
            g.inputs.append(b.val(f"spare{c}_{k}", (2,)))
        before = snap()
        n_in = len(g.inputs)
        opt.prune_unused_graph_inputs_ir(g)
        stats["inputs_dropped"] += n_in - len(g.inputs)
        if snap() != before:
            bad.append(c)
    ctx.oblige(f"tie:prune_unused_graph_inputs_ir touches graph.inputs only ({n_cases} random graphs, {stats['inputs_dropped']} inputs dropped; nodes, graph "
               "outputs, initializers and every value's declared shape/type unchanged) — the pipeline model's identity", not bad, "tie", f"changed on cases {bad[:5]}")
    return [], bad


# ------------------------------------------------------------------ rewrite_mul_sigmoid_as_swish_ir
def _rand_swish_graph(ir, rng, stats):
    b = _Builder(ir, rng)
    for _ in range(rng.randint(1, 2)):
        b.inp((2, 3))
    outs = []

    def dom():
        return rng.choice(["custom", "ai.onnx"]) if rng.random() < 0.08 else ""
    for _ in range(rng.randint(1, 3)):
        x = rng.choice(b.vals)
        s_in = x if rng.random() < 0.9 else rng.choice(b.vals)
        s = b.node("Sigmoid" if rng.random() < 0.9 else "Tanh", [s_in], (2, 3), domain=dom())
        other = x if rng.random() < 0.85 else rng.choice(b.vals)
        ins = [s, other] if rng.random() < 0.5 else [other, s]
        if rng.random() < 0.05:
            ins = [s, s]
        m = b.node("Mul" if rng.random() < 0.9 else "Add", ins, (2, 3), domain=dom())
        outs.append(m)
        r = rng.random()
        if r < 0.15:
            outs.append(s)
            stats["sigmoid_is_output"] += 1
        elif r < 0.3:
            outs.append(b.node("Relu", [s], (2, 3)))
            stats["sigmoid_extra_consumer"] += 1
        elif r < 0.4:
            outs.append(b.if_capturing([s]))
            stats["sigmoid_captured"] += 1
        if rng.random() < 0.3:
            outs.append(b.node("Relu", [m], (2, 3)))
    opset = 24 if rng.random() < 0.85 else 23
    uniq = []
    for v in outs:
        if v not in uniq:
            uniq.append(v)
    g = ir.Graph(b.inputs, uniq, nodes=b.nodes, initializers=b.consts, name="g", opset_imports={"": opset})
    return b, g, opset


def tie_swish_pass(ctx, n_cases):
    import collections
    import onnx_ir as ir
    from jax2onnx.converter import ir_optimizations as opt
    rng = ctx.rng
    stats = collections.Counter()
    rows = []
    for c in range(n_cases):
        b, g, opset = _rand_swish_graph(ir, rng, stats)
        table = {}

        def intern(name):
            return table.setdefault(name, len(table) + 1)
        known = {v.name for v in b.inputs + b.consts + b.vals}
        before = dump(ir, g, intern, known)
        opt.rewrite_mul_sigmoid_as_swish_ir(g)
        known |= {o.name for n in g for o in n.outputs}
        after = dump(ir, g, intern, known)
        stats["graphs_rewritten"] += int(before != after)
        stats["swish_nodes"] += sum(1 for n in after[0] if n[0] == "Swish")
        stats["sigmoids_removed"] += len(before[0]) - len(after[0])
        stats["below_opset_24"] += int(opset < 24)
        rows.append((before, after, opset))
    header = common.CASES_HEADER + "From J2O Require Import Graph Redirect ReshapePairPass TransposePairPass SwishPass.\nClose Scope Z_scope.\n" + """
Definition chk (c : graph * (list node * list nat) * nat) : bool :=
  let '(g, (ns, outs), opset) := c in
  let g' := swish_pass opset 40 g in
  list_eqb node_eqb (g_nodes g') ns && leqb (g_outputs g') outs.
"""

    def render(chunk, off):
        items = [f"(mkGraph {coq_nodes(bf[0])} {nl(bf[1])}, ({coq_nodes(af[0])}, {nl(af[1])}), {op})" for bf, af, op in chunk]
        return "Definition cs := [\n" + ";\n".join(items) + "].\nEval vm_compute in bad_idx_ chk 0 cs.\n"
    bad, err = collect_bad(*coq_eval_batches(ctx, "c02_swish", header, rows, render))
    ctx.oblige(f"tie:SwishPass.v swish_pass == rewrite_mul_sigmoid_as_swish_ir ({len(rows)} random graphs, {stats['graphs_rewritten']} rewritten, "
               f"{stats['swish_nodes']} Swish nodes, {stats['sigmoids_removed']} Sigmoid nodes removed, {stats['below_opset_24']} graphs below opset 24)",
               err is None and bad == [], "tie",
               err if err is not None else f"model and implementation differ on cases {bad[:6]}: {[rows[i] for i in bad[:2]]}")
    ctx.coverage["swish_tie"] = dict(stats)
    return rows, bad


# ------------------------------------------------------------------ inline_dropout_training_mode_constants_ir
def _rand_dropout_graph(ir, rng, stats):
    b = _Builder(ir, rng)
    x0 = b.inp((2, 3))
    ratio = b.const(np.asarray(0.5, np.float32))
    outs = []

    def dom():
        return "ai.onnx" if rng.random() < 0.06 else ("custom" if rng.random() < 0.04 else "")

    def bool_src():
        r = rng.random()
        if r < 0.55:
            return b.const(np.asarray(True))
        if r < 0.65:
            return b.const(np.asarray(False))
        if r < 0.72:
            return b.const(np.asarray([True]))                 # one element, rank 1: still "scalar True" for _as_scalar_bool
        if r < 0.8:                                             # a Constant node
            v = b.val(b.fresh(), ())
            v.type = ir.TensorType(ir.DataType.BOOL)
            b.nodes.append(ir.Node("", "Constant", [], outputs=[v], name=b.fresh("n"),
                                   attributes=[ir.Attr("value", ir.AttributeType.TENSOR, ir.tensor(np.asarray(True)))]))
            v.const_value = ir.tensor(np.asarray(True)) if rng.random() < 0.5 else None
            b.vals.append(v)
            return v
        if r < 0.9:                                             # a dynamic graph input
            v = ir.val(b.fresh("tm_"), ir.DataType.BOOL, ())
            b.inputs.append(v)
            return v
        v = ir.val(b.fresh("tmc_"), ir.DataType.BOOL, (), const_value=ir.tensor(np.asarray(True)))    # a graph input WITH a constant value
        b.inputs.append(v)
        b.consts.append(v)
        return v
    if rng.random() < 0.25:
        fc = ir.val("false_const", ir.DataType.BOOL, (), const_value=ir.tensor(np.asarray(False)))
        b.consts.append(fc)
        stats["false_const_preexists"] += 1
        if rng.random() < 0.4:
            outs.append(b.node("Identity", [fc], ()))
    cur = x0
    nts = []
    for _ in range(rng.randint(1, 3)):
        if nts and rng.random() < 0.35:
            nt = rng.choice(nts)
        elif rng.random() < 0.12:
            nt = bool_src()                                     # training_mode without a Not
        else:
            src = bool_src()
            v = b.val(b.fresh(), ())
            v.type = ir.TensorType(ir.DataType.BOOL)
            b.nodes.append(ir.Node(dom(), "Not" if rng.random() < 0.93 else "Identity", [src], outputs=[v], name=b.fresh("n")))
            b.vals.append(v)
            nt = v
            nts.append(nt)
        ins = [cur, ratio if rng.random() < 0.9 else None, nt]
        if rng.random() < 0.08:
            ins = ins[:2]
        n_out = 2 if rng.random() < 0.2 else 1
        o = [b.val(b.fresh(), (2, 3)) for _ in range(n_out)]
        b.nodes.append(ir.Node(dom(), "Dropout", ins, outputs=o, name=b.fresh("n")))
        b.vals.extend(o)
        cur = o[0]
        r = rng.random()
        if r < 0.12 and hasattr(nt, "name") and nt in nts:
            outs.append(nt)
            stats["not_is_output"] += 1
        elif r < 0.22 and nt in nts:
            outs.append(b.node("Cast", [nt], (), attrs=[ir.Attr("to", ir.AttributeType.INT, 1)]))
            stats["not_extra_consumer"] += 1
        elif r < 0.3 and nt in nts:
            outs.append(b.if_capturing([nt]))
            stats["not_captured"] += 1
    outs.append(cur)
    uniq = []
    for v in outs:
        if v not in uniq:
            uniq.append(v)
    return b, b.graph(uniq)


def tie_dropout_pass(ctx, n_cases):
    import collections
    import onnx_ir as ir
    from jax2onnx.converter import ir_optimizations as opt
    rng = ctx.rng
    stats = collections.Counter()
    rows = []
    for c in range(n_cases):
        b, g = _rand_dropout_graph(ir, rng, stats)
        table = {}

        def intern(name):
            return table.setdefault(name, len(table) + 1)
        known = {v.name for v in b.inputs + b.consts + b.vals}

        def snap():
            ns, outs = dump(ir, g, intern, known, keep_none=True)
            return [(op, [], i, cc, o) for op, _n, i, cc, o in ns], outs
        before = snap()
        values = {}
        for v in list(g.inputs) + list(g.initializers.values()) + [iv for n in g for iv in n.inputs if iv is not None] + [o for n in g for o in n.outputs]:
            values.setdefault(v.name, v)
        nodes_now = list(g)
        bools = {}
        for nm, v in values.items():
            if nm in table and not v.is_graph_input():
                r = opt._read_scalar_bool_from_value_or_constant(nodes_now, v)
                if r is not None:
                    bools[table[nm]] = bool(r)
        fc0 = intern("false_const") if "false_const" in g.initializers else None
        opt.inline_dropout_training_mode_constants_ir(g)
        known |= {"false_const"}
        after = snap()
        stats["graphs_rewritten"] += int(before != after)
        stats["not_nodes_removed"] += len(before[0]) - len(after[0])
        stats["false_const_created"] += int(fc0 is None and "false_const" in g.initializers)
        rows.append((before, after, bools, fc0))
    header = common.CASES_HEADER + "From J2O Require Import Graph Redirect ReshapePairPass TransposePairPass OptGraph DropoutPass.\nClose Scope Z_scope.\n" + """
Definition chk (c : ograph * (list node * list nat)) : bool :=
  let '(g, (ns, outs)) := c in
  let g' := o_pass_dropout g in
  list_eqb node_eqb (o_nodes g') ns && leqb (o_outputs g') outs.
"""

    def lit_nodes(ns):
        return "[" + "; ".join(f'mkNode "{op}"%string {nl(a)} {nl(i)} {nl(cc)} {nl(o)}' for op, a, i, cc, o in ns) + "]"

    def render(chunk, off):
        items = []
        for bf, af, bools, fc0 in chunk:
            og = (f"(mkOG {lit_nodes(bf[0])} {nl(bf[1])} (fun _ => None) (fun _ => None) (fun _ => false) (fun _ => None) (fun _ => None) "
                  f"{coq_fn(bools, 'bool', lambda v: '(Some true)' if v else '(Some false)')} {'None' if fc0 is None else f'(Some {fc0})'})")
            items.append(f"({og}, ({lit_nodes(af[0])}, {nl(af[1])}))")
        return "Definition cs := [\n" + ";\n".join(items) + "].\nEval vm_compute in bad_idx_ chk 0 cs.\n"
    bad, err = collect_bad(*coq_eval_batches(ctx, "c02_dropout", header, rows, render))
    ctx.oblige(f"tie:DropoutPass.v o_pass_dropout == inline_dropout_training_mode_constants_ir ({len(rows)} random graphs, {stats['graphs_rewritten']} rewritten, "
               f"{stats['not_nodes_removed']} Not nodes removed, false_const created {stats['false_const_created']} times / pre-existing {stats['false_const_preexists']} times)",
               err is None and bad == [], "tie",
               err if err is not None else f"model and implementation differ on cases {bad[:6]}: {[rows[i] for i in bad[:2]]}")
    ctx.coverage["dropout_tie"] = dict(stats)
    return rows, bad


# ------------------------------------------------------------------ propagate_elementwise_shapes_ir (annotation-only)
def _rand_elem_graph(ir, rng, stats):
    b = _Builder(ir, rng)
    shapes = [(2, 3), ("B", 3), (None, 3), (3,), (1, 3), (2, 1), ("B", 1), ("C", 3), (1,), (), (4, 2, 3), None]
    for _ in range(rng.randint(1, 3)):
        b.inp(rng.choice(shapes))
    pool = list(b.vals)
    for _ in range(rng.randint(0, 2)):
        pool.append(b.scalar_const())
    if rng.random() < 0.3:
        pool.append(b.bare_initializer(rng.choice([(1, 1), (1,), (2, 3)])))
    dts = [ir.DataType.FLOAT, ir.DataType.FLOAT16, ir.DataType.INT64]
    for _ in range(rng.randint(2, 6)):
        op = rng.choice(["Add", "Sub", "Mul", "Div", "Max", "Min", "Clip", "Pow", "Relu"])
        dom = rng.choice(["custom", "ai.onnx"]) if rng.random() < 0.08 else ""
        k = {"Clip": rng.choice([1, 2, 3]), "Relu": 1, "Max": rng.choice([1, 2, 3]), "Min": rng.choice([2, 3])}.get(op, 2)
        ins = [rng.choice(pool) for _ in range(k)]
        shp = rng.choice([None, None, (2, 3), ("B", 3), (7,), (None, 3)])
        v = b.val(b.fresh(), shp)
        if rng.random() < 0.3:
            v.type = None
        elif rng.random() < 0.5:
            v.type = ir.TensorType(rng.choice(dts))
        b.nodes.append(ir.Node(dom, op, ins, outputs=[v], name=b.fresh("n")))
        b.vals.append(v)
        pool.append(v)
        stats["binary_table_nodes"] += int(dom == "" and op in ("Add", "Sub", "Mul", "Div", "Max", "Min", "Clip"))
    return b, b.graph([b.vals[-1]])


def tie_propagate_elementwise_shapes(ctx, n_cases):
    import collections
    import onnx_ir as ir
    from jax2onnx.converter import ir_optimizations as opt
    rng = ctx.rng
    stats = collections.Counter()
    rows = []
    for c in range(n_cases):
        b, g = _rand_elem_graph(ir, rng, stats)
        table = {}

        def intern(name):
            return table.setdefault(name, len(table) + 1)
        known = {v.name for v in b.inputs + b.consts + b.vals}
        before = dump(ir, g, intern, known)

        def ann():
            sh, dt = {}, {}
            for v in b.inputs + b.consts + b.vals:
                ds = dims_of(ir, v)
                if ds is not None:
                    sh[intern(v.name)] = ds
                code = _dtype_code(ir, v)
                if code is not None:
                    dt[intern(v.name)] = code
            return sh, dt
        sh_b, dt_b = ann()
        scalars = {intern(v.name): True for v in b.inputs + b.consts + b.vals if opt._is_scalar_const_value(v)}
        opt.propagate_elementwise_shapes_ir(g)
        assert dump(ir, g, intern, known) == before, "propagate_elementwise_shapes_ir changed the nodes"
        sh_a, dt_a = ann()
        names = sorted(intern(v.name) for v in b.inputs + b.consts + b.vals)
        stats["shapes_set"] += sum(1 for k in names if sh_b.get(k) != sh_a.get(k))
        stats["dtypes_set"] += sum(1 for k in names if dt_b.get(k) != dt_a.get(k))
        rows.append((before, sh_b, dt_b, scalars, sh_a, dt_a, names))
    header = common.CASES_HEADER + "From J2O Require Import Graph Redirect ReshapePairPass OptGraph PropagateShapes.\nClose Scope Z_scope.\n" + """
Definition dims_eqb (a b : option (list dim)) : bool :=
  match a, b with Some x, Some y => list_eqb dim_eqb x y | None, None => true | _, _ => false end.
Definition oz_eqb (a b : option Z) : bool := match a, b with Some x, Some y => Z.eqb x y | None, None => true | _, _ => false end.
Definition chk (c : ograph * list (nat * option (list dim)) * list (nat * option Z)) : bool :=
  let '(g, sha, dta) := c in
  let g' := o_pass_elem g in
  forallb (fun p => dims_eqb (o_shape g' (fst p)) (snd p)) sha && forallb (fun p => oz_eqb (o_dtype g' (fst p)) (snd p)) dta.
"""

    def render(chunk, off):
        items = []
        for before, sh_b, dt_b, scalars, sh_a, dt_a, names in chunk:
            og = (f"(mkOG {coq_nodes(before[0])} {nl(before[1])} {coq_fn(dt_b, 'Z', lambda v: f'(Some ({v})%Z)')} "
                  f"{coq_fn(sh_b, '(list dim)', lambda v: '(Some ' + dims_lit(v) + ')')} {coq_fn(scalars, 'bool', lambda v: 'true', default='false')} "
                  "(fun _ => None) (fun _ => None) (fun _ => None) None)")
            shl = "[" + "; ".join(f"({k}, {'Some ' + dims_lit(sh_a[k]) if k in sh_a else 'None'})" for k in names) + "]"
            dtl = "[" + "; ".join(f"({k}, {f'Some ({dt_a[k]})%Z' if k in dt_a else 'None'})" for k in names) + "]"
            items.append(f"({og}, {shl}, {dtl})")
        return "Definition cs := [\n" + ";\n".join(items) + "].\nEval vm_compute in bad_idx_ chk 0 cs.\n"
    bad, err = collect_bad(*coq_eval_batches(ctx, "c02_propagate_elem", header, rows, render))
    ctx.oblige(f"tie:PropagateShapes.v o_pass_elem == propagate_elementwise_shapes_ir ({len(rows)} random graphs, {stats['binary_table_nodes']} nodes of the "
               f"table, {stats['shapes_set']} declared shapes and {stats['dtypes_set']} declared dtypes set; nodes untouched, every value's annotation compared)",
               err is None and bad == [], "tie",
               err if err is not None else f"model and implementation differ on cases {bad[:6]}: {[rows[i] for i in bad[:2]]}")
    ctx.coverage["propagate_elem_tie"] = dict(stats)
    return rows, bad


# ------------------------------------------------------------------ remove_dead_nodes_ir (library RemoveUnusedNodesPass), restricted
def _rand_dce_graph(ir, rng, stats):
    """single-output nodes only (the model is fail-closed otherwise), dead chains, values kept alive by graph outputs / nested captures"""
    b = _Builder(ir, rng)
    for _ in range(rng.randint(1, 2)):
        b.inp((2, 3))
    if rng.random() < 0.5:
        b.vals.append(b.const(np.ones((2, 3), np.float32)))
    outs = []
    for _ in range(rng.randint(2, 9)):
        op = rng.choice(["Relu", "Neg", "Abs", "Add", "Mul", "Identity", "Transpose"])
        ins = [rng.choice(b.vals) for _ in range(2 if op in ("Add", "Mul") else 1)]
        v = b.node(op, ins, (2, 3), domain=("custom" if rng.random() < 0.05 else ""))
        r = rng.random()
        if r < 0.2:
            outs.append(v)
        elif r < 0.28:
            outs.append(b.if_capturing([v]))
            stats["captured"] += 1
    if not outs:
        outs.append(rng.choice([v for v in b.vals if v.producer() is not None] or b.vals))
    uniq = []
    for v in outs:
        if v not in uniq:
            uniq.append(v)
    return b, b.graph(uniq)


def tie_dce_pass(ctx, n_cases):
    import collections
    import onnx_ir as ir
    from jax2onnx.converter import ir_optimizations as opt
    rng = ctx.rng
    stats = collections.Counter()
    rows = []
    for c in range(n_cases):
        b, g = _rand_dce_graph(ir, rng, stats)
        table = {}

        def intern(name):
            return table.setdefault(name, len(table) + 1)
        known = {v.name for v in b.inputs + b.consts + b.vals}
        before = dump(ir, g, intern, known)
        model = ir.Model(g, ir_version=10)
        opt.remove_dead_nodes_ir(model)
        after = dump(ir, g, intern, known)
        stats["graphs_changed"] += int(before != after)
        stats["nodes_removed"] += len(before[0]) - len(after[0])
        rows.append((before, after))
    header = common.CASES_HEADER + "From J2O Require Import Graph Redirect ReshapePairPass TransposePairPass DcePass.\nClose Scope Z_scope.\n" + """
Definition chk (c : graph * (list node * list nat)) : bool :=
  let '(g, (ns, outs)) := c in
  let g' := dce_pass g in
  dce_guard g && list_eqb node_eqb (g_nodes g') ns && leqb (g_outputs g') outs.
"""

    def render(chunk, off):
        items = [f"(mkGraph {coq_nodes(bf[0])} {nl(bf[1])}, ({coq_nodes(af[0])}, {nl(af[1])}))" for bf, af in chunk]
        return "Definition cs := [\n" + ";\n".join(items) + "].\nEval vm_compute in bad_idx_ chk 0 cs.\n"
    bad, err = collect_bad(*coq_eval_batches(ctx, "c02_dce", header, rows, render))
    ctx.oblige(f"tie:DcePass.v dce_pass == remove_dead_nodes_ir (onnx_ir RemoveUnusedNodesPass) on single-output graphs ({len(rows)} random graphs, "
               f"{stats['graphs_changed']} changed, {stats['nodes_removed']} nodes removed, {stats['captured']} values kept alive by a nested capture)",
               err is None and bad == [], "tie",
               err if err is not None else f"model and implementation differ on cases {bad[:6]}: {[rows[i] for i in bad[:2]]}")
    ctx.coverage["dce_tie"] = dict(stats)
    return rows, bad
