"""C02 — differential ties for the verified models of remove_redundant_reshape_pairs_ir (ReshapePairPass.v) and
remove_redundant_transpose_pairs_ir (TransposePairPass.v): the REAL pass is run on random onnx_ir graphs that exercise
both sides of every guard, and the node list / graph outputs / refreshed shapes it leaves are compared, inside Coq,
with what the Gallina model computes from the dumped input graph."""
import numpy as np

import common


def coq_eval_batches(ctx, name, header, items, render, per_file=100, jobs=4, timeout=600):
    """as common.coq_eval_batches, with -noglob (writing the .glob of a big literal costs more than checking it)"""
    import os
    from concurrent.futures import ThreadPoolExecutor
    chunks = [(i, items[i:i + per_file]) for i in range(0, len(items), per_file)]
    args = [os.path.join(common.COQ, a) if a in ("theories", "gen", "props") else a for a in common.QARGS]

    def one(ch):
        off, chunk = ch
        path = os.path.join(ctx.work, f"{name}_{off}.v")
        with open(path, "w") as fh:
            fh.write(header + render(chunk, off))
        rc, out = common.run(["coqc", "-noglob"] + args + [path], timeout, cwd=ctx.work)
        return rc == 0, out
    with ThreadPoolExecutor(max_workers=jobs) as ex:
        return list(ex.map(one, chunks)), [off for off, _ in chunks]


def collect_bad(results, offsets):
    bad, err = [], None
    for (ok, out), off in zip(results, offsets):
        idx = common.coq_bad_indices(out) if ok else None
        if idx is None:
            err = out[-1500:]
        else:
            bad += [off + i for i in idx]
    return bad, err


# ------------------------------------------------------------------ dump (encoding documented in ReshapePairPass.v)
def _op(n):
    dom = getattr(n, "domain", "") or ""
    return n.op_type if dom == "" else f"{dom}::{n.op_type}"


def _nested_names(ir, n):
    """every name a nested graph of n reads or returns (what _nested_graph_references_value matches)"""
    out = []

    def graph_names(g):
        for o in g.outputs:
            if o is not None and o.name:
                out.append(o.name)
        for m in g:
            for iv in m.inputs:
                if iv is not None and iv.name:
                    out.append(iv.name)
            node_names(m)

    def node_names(m):
        for a in m.attributes.values():
            if a.type == ir.AttributeType.GRAPH:
                graph_names(a.as_graph())
            elif a.type == ir.AttributeType.GRAPHS:
                for sg in a.as_graphs():
                    graph_names(sg)
    node_names(n)
    return out


def dump(ir, g, intern, known):
    ns = []
    for n in g:
        ins = list(n.inputs)
        while ins and ins[-1] is None:
            ins.pop()
        assert all(iv is not None for iv in ins), "absent optional input in the middle: outside the encoding"
        caps = []
        for nm in _nested_names(ir, n):
            if nm in known and intern(nm) not in caps:
                caps.append(intern(nm))
        perm = n.attributes.get("perm")
        attrs = [int(x) for x in perm.as_ints()] if (perm is not None and perm.type == ir.AttributeType.INTS) else None
        ns.append((_op(n), attrs, [intern(iv.name) for iv in ins], caps, [intern(o.name) for o in n.outputs]))
    return ns, [intern(o.name) for o in g.outputs]


def nl(l):
    return "[" + "; ".join(str(x) for x in l) + "]"


def coq_nodes(ns, with_perm=False):
    def one(op, attrs, i, c, o):
        a = nl(attrs) if (with_perm and attrs is not None) else "[]"
        return f'mkNode "{op}"%string {a} {nl(i)} {nl(c)} {nl(o)}'
    return "[" + "; ".join(one(*n) for n in ns) + "]"


def coq_fn(d, ty, lit, default=None):
    """finite map as an association list (a big `match` on unary numerals is slow to compile)"""
    items = "; ".join(f"({k}, {lit(v)})" for k, v in sorted(d.items()))
    dflt = default if default is not None else f"@None {ty}"
    return f"(fun n : nat => match find (fun p => Nat.eqb (fst p) n) [{items}] with Some p => snd p | None => {dflt} end)"


def dims_of(ir, v):
    if v.shape is None:
        return None
    out = []
    for d in v.shape.dims:
        if isinstance(d, (int, np.integer)):
            out.append(("i", int(d)))
        else:
            val = getattr(d, "value", None)
            out.append(("s", val) if isinstance(val, str) else ("u", None))
    return out


def dims_lit(ds):
    def one(d):
        return f"DInt {d[1]}" if d[0] == "i" else (f'DSym "{d[1]}"%string' if d[0] == "s" else "DUnk")
    return "[" + "; ".join(one(d) for d in ds) + "]"


NODE_EQB = """Definition leqb (a b : list nat) := list_eqb Nat.eqb a b.
Definition node_eqb (a b : node) := String.eqb (n_op a) (n_op b) && leqb (n_attrs a) (n_attrs b) && leqb (n_ins a) (n_ins b) && leqb (n_caps a) (n_caps b) && leqb (n_outs a) (n_outs b).
"""


# ------------------------------------------------------------------ random graphs for the reshape-pair pass
_SHAPES6 = [(2, 3), (6,), (3, 2), (1, 6), (1, 2, 3), (6, 1), ("B", 3), ("B", 3), ("C", 3), (None, 3), ("B",), (2, "B")]
_UNARY = ["Relu", "Tanh", "Sigmoid", "Identity", "Elu", "Gelu", "LeakyRelu", "Swish", "Not", "Cast"]
_SIDE = ["Max", "Min", "Clip"]


class _Builder:
    def __init__(self, ir, rng):
        self.ir, self.rng = ir, rng
        self.inputs, self.consts, self.nodes, self.vals = [], [], [], []
        self.k = 0

    def fresh(self, prefix="v"):
        self.k += 1
        return f"{prefix}{self.k}"

    def val(self, name, shp):
        ir = self.ir
        if shp is None:
            return ir.Value(name=name, type=ir.TensorType(ir.DataType.FLOAT))
        return ir.val(name, ir.DataType.FLOAT, shp)

    def inp(self, shp):
        v = self.val(self.fresh("in_"), shp)
        self.inputs.append(v)
        self.vals.append(v)
        return v

    def const(self, arr, name=None):
        ir = self.ir
        arr = np.asarray(arr)
        v = ir.val(name or self.fresh("c_"), ir.DataType.from_numpy(arr.dtype), arr.shape, const_value=ir.tensor(arr))
        self.consts.append(v)
        return v

    def scalar_const(self, max_rank=3):
        r = self.rng.choice([0, 0, 1, 1, 2, 3][: max_rank + 3])
        return self.const(np.full((1,) * r, 0.5, np.float32))

    def bare_initializer(self, shp):
        """an initializer WITHOUT a constant payload: _is_scalar_const_value falls back to its declared dims"""
        v = self.val(self.fresh("w_"), shp)
        self.consts.append(v)
        return v

    def node(self, op, ins, out_shape, domain="", attrs=(), n_out=1):
        ir = self.ir
        outs = [self.val(self.fresh(), out_shape) for _ in range(n_out)]
        n = ir.Node(domain, op, ins, outputs=outs, name=self.fresh("n"), attributes=list(attrs))
        self.nodes.append(n)
        self.vals.extend(outs)
        return outs[0]

    def if_capturing(self, caps):
        ir = self.ir
        k = self.fresh("if")
        inner = []
        cur = None
        for j, c in enumerate(caps):
            bo = ir.val(f"{k}_b{j}", ir.DataType.FLOAT, (2, 3))
            inner.append(ir.Node("", "Neg", [c], outputs=[bo], name=f"{k}_bn{j}"))
            cur = bo
        deep = self.rng.random() < 0.3 and cur is not None
        if deep:      # a second nesting level reading the outer value again
            bo2 = ir.val(f"{k}_d", ir.DataType.FLOAT, (2, 3))
            sub = ir.Graph([], [bo2], nodes=[ir.Node("", "Abs", [caps[0]], outputs=[bo2], name=f"{k}_dn")], name=f"{k}_dg")
            cnd = ir.val(f"{k}_dc", ir.DataType.BOOL, (), const_value=ir.tensor(np.asarray(True)))
            io = ir.val(f"{k}_do", ir.DataType.FLOAT, (2, 3))
            inner = [ir.Node("", "If", [cnd], outputs=[io], name=f"{k}_dif",
                             attributes=[ir.Attr("then_branch", ir.AttributeType.GRAPH, sub)])]
            cur = io
        body = ir.Graph([], [cur], nodes=inner, name=f"{k}_g")
        cond = self.const(np.asarray(True))
        return self.node("If", [cond], None, attrs=[ir.Attr("then_branch", ir.AttributeType.GRAPH, body)])

    def graph(self, outs):
        ir = self.ir
        return ir.Graph(self.inputs, outs, nodes=self.nodes, initializers=self.consts, name="g", opset_imports={"": 23})


def _shape_of(v):
    return None if v.shape is None else tuple(d if isinstance(d, int) else getattr(d, "value", None) for d in v.shape.dims)


def _rand_reshape_graph(ir, rng, stats):
    b = _Builder(ir, rng)
    for _ in range(rng.randint(1, 2)):
        b.inp(rng.choice(_SHAPES6 + [None]))
    must_out = []
    for _ in range(rng.randint(1, 3)):
        r = rng.random()
        if r < 0.75:
            # a Reshape -> chain -> Reshape pattern with random perturbations of every guard
            src = rng.choice(b.vals)
            sshape = _shape_of(src)
            mid = rng.choice(_SHAPES6 + [None])
            dom1 = rng.choice(["", "", "", "", "", "custom", "ai.onnx"]) if rng.random() < 0.25 else ""
            shp1 = b.const(np.asarray([d if isinstance(d, int) else -1 for d in (mid or (6,))], np.int64)) if rng.random() < 0.8 else b.inp((len(mid or (6,)),))
            cur = b.node("Reshape", [src, shp1], mid, domain=dom1)
            t1_out = cur
            chain_vals = [cur]
            klen = rng.choice([0, 0, 1, 1, 1, 2, 2, 3, 4, 6, 7, 8, 9] if rng.random() < 0.3 else [0, 1, 1, 2, 3])
            for j in range(klen):
                q = rng.random()
                oshape = _shape_of(cur) if rng.random() < 0.8 else rng.choice(_SHAPES6 + [None])
                dom = rng.choice(["custom", "ai.onnx"]) if rng.random() < 0.06 else ""
                if q < 0.45:
                    op = rng.choice(_UNARY)
                    attrs = [ir.Attr("to", ir.AttributeType.INT, 1)] if op == "Cast" else []
                    cur = b.node(op, [cur], oshape, domain=dom, attrs=attrs)
                elif q < 0.8:
                    op = rng.choice(_SIDE)
                    sides = []
                    for _s in range(2 if op == "Clip" and rng.random() < 0.6 else 1):
                        s = rng.random()
                        if s < 0.55:
                            sides.append(b.scalar_const())
                        elif s < 0.65:
                            sides.append(b.bare_initializer(rng.choice([(1,), (1, 1), (), (3,), ("B",), None])))
                        elif s < 0.75:
                            sides.append(cur)                       # the data value twice
                        elif s < 0.85:
                            sides.append(b.const(np.zeros(rng.choice([(3,), (2, 3), (2,)]), np.float32)))
                        else:
                            sides.append(rng.choice(b.vals))
                    ins = [cur] + sides
                    if op != "Clip" and rng.random() < 0.2:
                        ins = sides[:1] + [cur]                     # data not in first position: the walk follows the constant
                    cur = b.node(op, ins, oshape, domain=dom)
                elif q < 0.92:
                    like = rng.choice([b.scalar_const(), rng.choice(b.vals), t1_out, b.const(np.zeros((2, 3), np.float64))])
                    ins = [cur, like] if rng.random() < 0.85 else [like, cur]
                    cur = b.node("CastLike", ins, oshape, domain=dom)
                else:
                    cur = b.node(rng.choice(["Add", "Neg", "Abs", "Softmax"]), [cur] + ([b.scalar_const()] if rng.random() < 0.5 else []), oshape)
                chain_vals.append(cur)
            # destination shape: mostly compatible with src
            d = rng.random()
            if d < 0.7 and sshape is not None:
                dshape = sshape
            elif d < 0.8 and sshape is not None and len(sshape) == 2:
                dshape = (sshape[1], sshape[0])
            else:
                dshape = rng.choice(_SHAPES6 + [None])
            dom2 = rng.choice(["custom", "ai.onnx"]) if rng.random() < 0.08 else ""
            tgt = [x if isinstance(x, int) else -1 for x in (dshape or (6,))]
            shp2 = b.const(np.asarray(tgt, np.int64)) if rng.random() < 0.85 else rng.choice(chain_vals)
            t2_out = b.node("Reshape", [cur, shp2], dshape, domain=dom2)
            must_out.append(t2_out)
            # perturbations: observers and extra consumers of intermediates
            for v in chain_vals:
                p = rng.random()
                if p < 0.07:
                    must_out.append(v)
                    stats["intermediate_is_output"] += 1
                elif p < 0.14:
                    b.if_capturing([v] + ([rng.choice(b.vals)] if rng.random() < 0.3 else []))
                    stats["intermediate_captured"] += 1
                elif p < 0.22:
                    must_out.append(b.node(rng.choice(["Relu", "Shape", "Neg"]), [v], None))
                    stats["extra_consumer"] += 1
            if rng.random() < 0.5:
                must_out.append(b.node(rng.choice(["Relu", "Neg", "Tanh"]), [t2_out], dshape))
        elif r < 0.9:
            must_out.append(b.node(rng.choice(["Relu", "Neg", "Add"]), [rng.choice(b.vals)] * 1, _shape_of(b.vals[-1])))
        else:
            must_out.append(b.if_capturing([rng.choice(b.vals)]))
    outs = []
    for v in must_out:
        if v not in outs and rng.random() < 0.8:
            outs.append(v)
    if not outs:
        outs = [b.vals[-1]]
    return b, b.graph(outs)


def _annotations(ir, opt, b, intern):
    shapes, scalars = {}, {}
    for v in b.inputs + b.consts + b.vals:
        ds = dims_of(ir, v)
        if ds is not None:
            shapes[intern(v.name)] = ds
        if opt._is_scalar_const_value(v):
            scalars[intern(v.name)] = True
    return shapes, scalars


def tie_reshape_pair_pass(ctx, n_cases):
    import onnx_ir as ir
    from jax2onnx.converter import ir_optimizations as opt
    rng = ctx.rng
    import collections
    stats = collections.Counter()
    rows = []
    for c in range(n_cases):
        b, g = _rand_reshape_graph(ir, rng, stats)
        table = {}

        def intern(name):
            return table.setdefault(name, len(table) + 1)
        known = {v.name for v in b.inputs + b.consts + b.vals}
        before = dump(ir, g, intern, known)
        shapes, scalars = _annotations(ir, opt, b, intern)
        opt.remove_redundant_reshape_pairs_ir(g)
        after = dump(ir, g, intern, known)
        shapes_after, _ = _annotations(ir, opt, b, intern)
        removed = len(before[0]) - len(after[0])
        stats["graphs_rewritten"] += int(removed > 0)
        stats["nodes_removed"] += removed
        stats["shapes_refreshed"] += sum(1 for k, v in shapes_after.items() if shapes.get(k) != v)
        rows.append((before, after, shapes, scalars, shapes_after))
    header = common.CASES_HEADER + "From J2O Require Import Graph Redirect ReshapePairPass.\nClose Scope Z_scope.\n" + NODE_EQB + """
Definition dims_eqb (a b : option (list dim)) : bool :=
  match a, b with Some x, Some y => list_eqb dim_eqb x y | None, None => true | _, _ => false end.
Definition chk (c : pgraph * (list node * list nat) * list (nat * list dim)) : bool :=
  let '(g, (ns, outs), shp) := c in
  let g' := reshape_pair_pass 40 g in
  list_eqb node_eqb (pg_nodes g') ns && leqb (pg_outputs g') outs
  && forallb (fun p => dims_eqb (pg_shape g' (fst p)) (Some (snd p))) shp.
"""

    def render(chunk, off):
        items = []
        for before, after, shapes, scalars, shapes_after in chunk:
            pg = (f"(mkPG {coq_nodes(before[0])} {nl(before[1])} {coq_fn(shapes, '(list dim)', lambda v: '(Some ' + dims_lit(v) + ')')} "
                  f"{coq_fn(scalars, 'bool', lambda v: 'true', default='false')})")
            sh = "[" + "; ".join(f"({k}, {dims_lit(v)})" for k, v in sorted(shapes_after.items())) + "]"
            items.append(f"({pg}, ({coq_nodes(after[0])}, {nl(after[1])}), {sh})")
        return "Definition cs := [\n" + ";\n".join(items) + "].\nEval vm_compute in bad_idx_ chk 0 cs.\n"
    bad, err = collect_bad(*coq_eval_batches(ctx, "c02_reshape_pair", header, rows, render))
    ctx.oblige(f"tie:ReshapePairPass.v reshape_pair_pass == remove_redundant_reshape_pairs_ir ({n_cases} random graphs, "
               f"{stats['graphs_rewritten']} rewritten, {stats['nodes_removed']} nodes removed, {stats['shapes_refreshed']} shapes refreshed)",
               err is None and bad == [], "tie",
               err if err is not None else f"model and implementation differ on cases {bad[:6]}: {[rows[i][:2] for i in bad[:2]]}")
    ctx.coverage["reshape_pair_tie"] = dict(stats)
    return rows, bad
