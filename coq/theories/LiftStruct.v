(* LiftStruct (C01): the program-level theorem of LiftProg extended from table primitives to what real jaxprs of integer
   programs contain — literals, broadcast_in_dim, reshape, squeeze, transpose, integer reductions over axes, concatenate,
   slice — next to every elementwise exact kernel.
     gkern          an abstract kernel: how many operands, the nodes it emits on fresh names, its tensor-level JAX
                    semantics; gkern_ok = the emitted nodes evaluate (tensor-level ONNX semantics) to exactly that value;
     greg_contract  every registry of ok kernels meets LoweringSem.eqn_contract  (generalises LiftProg.kreg_contract);
     ssem           the node semantics: LiftProg.kgsem + Reshape / Expand / Squeeze / Transpose / ConstantFull / Concat /
                    Slice / ReduceSum / ReduceProd / ReduceMax / ReduceMin (keepdims = 0);
     gk_elem        every elementwise exact kernel of LiftProg is such a kernel (by Lift.keval_lift);
     gk_const / gk_full / gk_reshape / gk_bcast / gk_squeeze / gk_transpose / gk_concat / gk_slice   structural kernels,
                    ONNX graph == JAX index semantics, all ranks and extents (broadcast_in_dim_correct, slice_correct);
     gk_reduce / gk_reduce_sum_via64 / gk_reduce_prod_via64 / gk_reduce_mm_via32 / gk_reduce_and / gk_reduce_or
                    reductions over any axes mask, exact with wraparound (scalar theorems in LiftReduce.v), directly or
                    between two casts (gk_crc);
     gspec / stable / struct_program_correct   every jaxpr over a table of such kernels lowers to a graph computing the
                    JAX value;  rtree / gtree / sp_tree / sp_jax / sp_onnx: what the harness evaluates (tie S and ties D). *)
From Coq Require Import String List Bool Arith Lia ZArith PeanoNat.
From J2O Require Import PyLib Dtype Tensor Batch Reshape Graph Lowering LoweringSem OnnxInt Kernels Lift LiftProg LiftReduce LiftCall.
Import ListNotations.

(* ================================================================ abstract kernels *)
Record gkern := mkG {
  g_arity : nat;
  g_emit : list vname -> vname -> list node * vname * vname;       (* operand names, first fresh name -> nodes, result, next fresh *)
  g_sem : list cten -> option cten }.                               (* tensor-level JAX semantics (None: outside the domain) *)

Section GK.
  Variable sem : string -> list nat -> list cten -> option (list cten).        (* the node semantics in force *)
  Notation geval := (eval cten sem).

  (* the emitted nodes compute the kernel's JAX value on a FRESH name and touch nothing else *)
  Definition gkern_ok (k : gkern) : Prop :=
    forall args next nodes res next' (g : genv) Xs out,
      g_emit k args next = (nodes, res, next') -> length Xs = g_arity k -> length args = g_arity k ->
      (forall i, i < length Xs -> nth i args 0 < next /\ g (nth i args 0) = Some (nth i Xs cdummy)) ->
      fresh_from g next -> g_sem k Xs = Some out ->
      exists g', geval nodes g = Some g' /\ next <= res < next' /\
        (forall m, m < next -> g' m = g m) /\ fresh_from g' next' /\ g' res = Some out /\
        (forall x, In x (defs nodes) <-> next <= x < next').

  Definition gtable := string -> option gkern.
  Definition gpsem (tab : gtable) (p : string) (vals : list cten) : option (list cten) :=
    match tab p with
    | Some k => if Nat.eqb (length vals) (g_arity k) then match g_sem k vals with Some o => Some [o] | None => None end else None
    | None => None
    end.
  (* operands may be bound variables only (literals are constant equations of their own, see gk_const) *)
  Fixpoint gresolve (s : sctx) (ins : list invar) : option (list vname) :=
    match ins with
    | [] => Some []
    | IVar v :: r => match bound (erase s) v, gresolve s r with Some n, Some ar => Some (n :: ar) | _, _ => None end
    | ILit :: _ => None
    end.
  Definition gplugin (k : gkern) : splugin := fun s e =>
    if negb (Nat.eqb (length (e_ins e)) (g_arity k)) then Err EPlugin else
    match e_outs e with
    | [o] =>
        match gresolve s (e_ins e) with
        | None => Err EUnboundInput
        | Some args =>
            let '(nodes, res, n2) := g_emit k args (fresh_above s) in
            Ok (mkS (match o with Some v => (v, res) :: s_bind s | None => s_bind s end) (s_inputs s) (s_nodes s ++ nodes), RNone)
        end
    | _ => Err EPlugin
    end.
  Definition greg (tab : gtable) : sregistry := fun p => option_map gplugin (tab p).

  Section Contract.
    Variable tab : gtable.
    Variable lit : cten.
    Hypothesis tab_ok : forall p k, tab p = Some k -> gkern_ok k.

    Lemma gresolve_correct s r g : related cten s r g ->
      forall ins args vals, gresolve s ins = Some args -> jreads cten r lit ins = Some vals ->
      forall i, i < length vals -> nth i args 0 < fresh_above s /\ g (nth i args 0) = Some (nth i vals cdummy).
    Proof.
      intros [Hr1 Hr2]. induction ins as [|[v|] ins IH]; intros args vals Hres Hread i Hi; simpl in *.
      - injection Hread as <-. simpl in Hi. lia.
      - destruct (bound (erase s) v) as [n|] eqn:Eb; [|discriminate].
        destruct (gresolve s ins) as [ar|] eqn:Er; [|discriminate]. injection Hres as <-.
        destruct (r v) as [a|] eqn:Erv; [|discriminate].
        destruct (jreads cten r lit ins) as [vs|] eqn:Ejr; [|discriminate]. injection Hread as <-.
        destruct (Hr1 v n Eb) as (a' & Ha' & Hgn). rewrite Erv in Ha'. injection Ha' as <-.
        destruct i as [|i]; simpl in *.
        + split; [|exact Hgn]. apply connected_lt_fresh. eapply Hr2. exact Hgn.
        + apply (IH ar vs eq_refl eq_refl). lia.
      - discriminate.
    Qed.

    Lemma gresolve_length s : forall ins args, gresolve s ins = Some args -> length args = length ins.
    Proof.
      induction ins as [|[v|] ins IH]; intros args H; simpl in H; [now injection H as <- | | discriminate].
      destruct (bound (erase s) v); [|discriminate]. destruct (gresolve s ins) as [ar|]; [|discriminate].
      injection H as <-. simpl. f_equal. now apply IH.
    Qed.

    Theorem greg_contract : eqn_contract cten (gpsem tab) sem (greg tab) lit.
    Proof.
      intros s e s' H. unfold slower_eqn, greg in H.
      destruct (tab (e_prim e)) as [k|] eqn:Et; simpl in H; [|discriminate].
      destruct (negb (inputs_bound (erase s) e)); [discriminate|].
      unfold gplugin in H.
      destruct (negb (Nat.eqb (length (e_ins e)) (g_arity k))) eqn:Ear; [discriminate|].
      apply negb_false_iff, Nat.eqb_eq in Ear.
      destruct (e_outs e) as [|o [|? ?]] eqn:Eo; try discriminate.
      destruct (gresolve s (e_ins e)) as [args|] eqn:Er; [|discriminate].
      destruct (g_emit k args (fresh_above s)) as [[nodes res] n2] eqn:Em.
      set (s1 := mkS (match o with Some v => (v, res) :: s_bind s | None => s_bind s end) (s_inputs s) (s_nodes s ++ nodes)) in *.
      rewrite bind_returned_RNone in H.
      destruct (outputs_ok (erase s1) (non_drop e)) as [[]|x] eqn:Eout; [|discriminate].
      injection H as <-.
      exists nodes. split; [reflexivity|]. split; [reflexivity|]. split.
      - intros w Hw. unfold non_drop in Hw. rewrite Eo in Hw. unfold bound. simpl.
        destruct o as [v|]; simpl in *; [|reflexivity].
        destruct (Nat.eqb_spec v w) as [->|]; [exfalso; apply Hw; now left | reflexivity].
      - intros r g vals outs Hrel Hread Hsem Hlen.
        pose proof Hrel as [Hr1 Hr2].
        unfold gpsem in Hsem. rewrite Et in Hsem.
        destruct (Nat.eqb (length vals) (g_arity k)) eqn:Hlenb; [|discriminate]. apply Nat.eqb_eq in Hlenb.
        destruct (g_sem k vals) as [out|] eqn:Esem; [|discriminate]. injection Hsem as <-.
        assert (Hfr0 : fresh_from g (fresh_above s)).
        { intros m Hm. destruct (g m) as [a|] eqn:E; [|reflexivity]. apply Hr2 in E. apply connected_lt_fresh in E. lia. }
        pose proof (gresolve_correct s r g Hrel (e_ins e) args vals Er Hread) as Hidx.
        destruct (tab_ok _ _ Et args (fresh_above s) nodes res n2 g vals out Em Hlenb ltac:(rewrite (gresolve_length s _ _ Er); exact Ear) Hidx Hfr0 Esem)
          as (g2 & Hev & Hres & Hkeep & Hfr2 & Hgres & Hdefs).
        exists g2. split; [exact Hev|].
        assert (Hle : genv_le cten g g2).
        { intros n a Hn. assert (Hlt : n < fresh_above s) by (apply connected_lt_fresh; eapply Hr2; exact Hn).
          rewrite Hkeep by lia. exact Hn. }
        split; [exact Hle|]. split.
        + intros w n Hb. unfold bound in Hb. simpl in Hb.
          destruct o as [v|]; simpl in *.
          * destruct (Nat.eqb_spec v w) as [->|Hne].
            -- injection Hb as <-. exists out. rewrite Nat.eqb_refl. split; [reflexivity | exact Hgres].
            -- destruct (Hr1 w n Hb) as (a & Hra & Hga). exists a.
               destruct (Nat.eqb_spec w v) as [->|]; [contradiction|]. split; [exact Hra | now apply Hle].
          * destruct (Hr1 w n Hb) as (a & Hra & Hga). exists a. split; [exact Hra | now apply Hle].
        + intros n a Hn. apply connected_In. simpl. rewrite defs_app.
          destruct (Nat.lt_ge_cases n (fresh_above s)) as [Hlt|Hge].
          * rewrite Hkeep in Hn by lia. apply Hr2, connected_In in Hn. simpl in Hn.
            apply in_app_or in Hn as [Hn|Hn]; apply in_or_app; [now left | right; apply in_or_app; now left].
          * assert (Hn2 : n < n2).
            { destruct (Nat.lt_ge_cases n n2) as [Hl|Hg]; [exact Hl|]. rewrite (Hfr2 n Hg) in Hn. discriminate. }
            apply in_or_app. right. apply in_or_app. right. apply Hdefs. lia.
    Qed.

    Theorem struct_fragment_correct :
      forall jp s s', slower_jaxpr (greg tab) s jp = Ok s' ->
      forall r g r', related cten s r g -> jeval cten (gpsem tab) lit jp r = Some r' ->
      exists new g', s_nodes s' = s_nodes s ++ new /\ geval new g = Some g' /\ genv_le cten g g' /\ related cten s' r' g'.
    Proof. exact (lower_jaxpr_correct cten (gpsem tab) sem (greg tab) lit greg_contract). Qed.
  End Contract.
End GK.

(* ================================================================ structural tensor operators (index functions) *)
(* ONNX Expand to a shape the operand broadcasts to *)
Definition texpand {A} (s : list nat) (X : tensor A) : tensor A := mkT s (fun idx => bcast_at X idx).
(* Squeeze: mask.(j) = true iff axis j (of extent 1) is removed *)
Fixpoint squeeze_shape (mask : list bool) (s : list nat) : list nat :=
  match mask, s with
  | m :: mr, d :: sr => if m then squeeze_shape mr sr else d :: squeeze_shape mr sr
  | _, _ => s
  end.
Fixpoint unsqueeze_idx (mask : list bool) (idx : list nat) : list nat :=
  match mask with
  | [] => idx
  | true :: mr => 0 :: unsqueeze_idx mr idx
  | false :: mr => match idx with i :: ir => i :: unsqueeze_idx mr ir | [] => [] end
  end.
Definition tsqueeze {A} (mask : list bool) (X : tensor A) : tensor A :=
  mkT (squeeze_shape mask (shape X)) (fun idx => at_ X (unsqueeze_idx mask idx)).
Definition axes_mask (rank : nat) (axes : list nat) : list bool := map (fun j => existsb (Nat.eqb j) axes) (seq 0 rank).
Fixpoint squeezable (mask : list bool) (s : list nat) : bool :=
  match mask, s with
  | m :: mr, d :: sr => (if m then d =? 1 else true) && squeezable mr sr
  | [], [] => true
  | _, _ => false
  end.

(* ---- lax.broadcast_in_dim(x, shape, broadcast_dimensions):  out[idx] = x[ idx[bd_k] (0 where x has extent 1) ]_k *)
Definition bd_index (bd xs idx : list nat) : list nat := map2 (fun b d => sel (nth b idx 0) d) bd xs.
Definition jax_broadcast_in_dim {A} (target bd : list nat) (X : tensor A) : tensor A :=
  mkT target (fun idx => at_ X (bd_index bd (shape X) idx)).
(* the plugin: Reshape to the operand's extents placed at the broadcast dimensions (1 elsewhere), then Expand *)
Fixpoint rsh (n j : nat) (bd xs : list nat) : list nat :=
  match n with
  | 0 => []
  | S n' => match bd, xs with
            | b :: bt, d :: dt => if b =? j then d :: rsh n' (S j) bt dt else 1 :: rsh n' (S j) bd xs
            | _, _ => 1 :: rsh n' (S j) bd xs
            end
  end.
Definition lowered_broadcast_in_dim {A} (target bd : list nat) (X : tensor A) : tensor A :=
  texpand target (reshape (rsh (length target) 0 bd (shape X)) X).

(* bd is strictly increasing inside [j, j + n), one entry per operand axis, every operand extent is 1 or the target's *)
Fixpoint bd_ok (n j : nat) (bd xs tgt : list nat) : Prop :=
  match n, tgt with
  | 0, [] => bd = [] /\ xs = []
  | S n', t :: tr => match bd, xs with
                     | b :: bt, d :: dt => if b =? j then (d = 1 \/ d = t) /\ bd_ok n' (S j) bt dt tr
                                           else j < b /\ bd_ok n' (S j) bd xs tr
                     | [], [] => bd_ok n' (S j) [] [] tr
                     | _, _ => False
                     end
  | _, _ => False
  end.
(* the operand index read for the output index, collected by the same scan *)
Fixpoint projsel (n j : nat) (bd xs idx : list nat) : list nat :=
  match n, idx with
  | S n', i :: ir => match bd, xs with
                     | b :: bt, d :: dt => if b =? j then sel i d :: projsel n' (S j) bt dt ir else projsel n' (S j) bd xs ir
                     | _, _ => projsel n' (S j) bd xs ir
                     end
  | _, _ => []
  end.

Lemma rsh_length n : forall j bd xs, length (rsh n j bd xs) = n.
Proof. induction n as [|n IH]; intros j bd xs; simpl; [reflexivity|]. destruct bd, xs; simpl; try (now rewrite IH). destruct (n0 =? j); simpl; now rewrite IH. Qed.
Lemma rsh_prod n : forall j bd xs tgt, bd_ok n j bd xs tgt -> prod (rsh n j bd xs) = prod xs.
Proof.
  induction n as [|n IH]; intros j bd xs tgt H; destruct tgt as [|t tr]; simpl in H; try contradiction.
  - destruct H as [-> ->]. reflexivity.
  - simpl. destruct bd as [|b bt], xs as [|d dt]; try contradiction.
    + simpl. rewrite (IH _ _ _ _ H). simpl. lia.
    + destruct (b =? j); destruct H as [H1 H2]; simpl; rewrite (IH _ _ _ _ H2); simpl; lia.
Qed.
Lemma rsh_flatten n : forall j bd xs tgt idx, bd_ok n j bd xs tgt -> length idx = n ->
  flatten (rsh n j bd xs) (map2 sel idx (rsh n j bd xs)) = flatten xs (projsel n j bd xs idx).
Proof.
  induction n as [|n IH]; intros j bd xs tgt idx H Hl; destruct tgt as [|t tr]; simpl in H; try contradiction.
  - destruct H as [-> ->]. destruct idx; reflexivity.
  - destruct idx as [|i ir]; [discriminate|]. simpl in Hl. injection Hl as Hl.
    destruct bd as [|b bt], xs as [|d dt]; try contradiction.
    + simpl. rewrite (IH _ _ _ _ _ H Hl). unfold sel. simpl. reflexivity.
    + simpl. destruct (b =? j) eqn:E; destruct H as [H1 H2]; simpl.
      * rewrite (IH _ _ _ _ _ H2 Hl), (rsh_prod _ _ _ _ _ H2). reflexivity.
      * exact (IH _ _ _ _ _ H2 Hl).
Qed.
(* the scan reads exactly the entries of the output index at the broadcast dimensions *)
Lemma projsel_nth n : forall j bd xs tgt idx0, bd_ok n j bd xs tgt -> length idx0 = j + n ->
  projsel n j bd xs (skipn j idx0) = bd_index bd xs idx0.
Proof.
  unfold bd_index.
  induction n as [|n IH]; intros j bd xs tgt idx0 H Hl; destruct tgt as [|t tr]; simpl in H; try contradiction.
  - destruct H as [-> ->]. destruct (skipn j idx0); reflexivity.
  - rewrite (@skipn_cons_nth nat 0 j idx0) by lia.
    destruct bd as [|b bt], xs as [|d dt]; try contradiction.
    + cbn [projsel map2]. apply (IH (S j) [] [] tr idx0 H). lia.
    + cbn [projsel]. destruct (Nat.eqb_spec b j) as [->|Hne]; destruct H as [H1 H2].
      * cbn [map2]. f_equal. apply (IH (S j) bt dt tr idx0 H2). lia.
      * apply (IH (S j) (b :: bt) (d :: dt) tr idx0 H2). lia.
Qed.
Lemma projsel_in_range n : forall j bd xs tgt idx, bd_ok n j bd xs tgt -> in_range tgt idx ->
  in_range xs (projsel n j bd xs idx).
Proof.
  induction n as [|n IH]; intros j bd xs tgt idx H Hr; destruct tgt as [|t tr]; simpl in H; try contradiction.
  - destruct H as [-> ->]. inversion Hr. constructor.
  - inversion Hr as [|i t' ir tr' Hit Hrr]; subst. simpl.
    destruct bd as [|b bt], xs as [|d dt]; try contradiction.
    + apply (IH _ _ _ _ _ H Hrr).
    + destruct (b =? j); destruct H as [H1 H2].
      * constructor; [|apply (IH _ _ _ _ _ H2 Hrr)]. unfold sel. destruct (Nat.eqb_spec d 1); [lia|]. destruct H1; [contradiction | lia].
      * apply (IH _ _ _ _ _ H2 Hrr).
Qed.

(* broadcast_in_dim: the emitted Reshape + Expand computes the JAX index semantics, for every rank and extent *)
Theorem broadcast_in_dim_correct {A} (target bd : list nat) (X : tensor A) :
  bd_ok (length target) 0 bd (shape X) target ->
  teq (lowered_broadcast_in_dim target bd X) (jax_broadcast_in_dim target bd X).
Proof.
  intro H. split; [reflexivity|]. intros idx Hi. cbn [lowered_broadcast_in_dim texpand reshape jax_broadcast_in_dim shape at_] in *.
  pose proof (in_range_length Hi) as Hl.
  unfold bcast_at. cbn [shape at_ reshape].
  rewrite balign_full by (now rewrite rsh_length).
  rewrite (rsh_flatten _ _ _ _ _ idx H Hl).
  rewrite unflatten_flatten by (now apply projsel_in_range with (tgt := target)).
  rewrite <- (projsel_nth _ 0 bd (shape X) target idx H) by (simpl; lia). reflexivity.
Qed.

(* ---- integer reductions over axes (LiftReduce): the reducing functions on the row-major list of reduced elements *)
Inductive rkind := RSum | RProd | RMax | RMin | RArgMax | RArgMin.
Definition lz (l : list sval) : list Z := map (prj SZ) l.
Definition lb (l : list sval) : list bool := map (prj SB) l.
Definition sred_onnx (rk : rkind) (sb : ity) (l : list sval) : sval :=
  match rk with
  | RSum => VZ (o_reduce_sum sb (lz l))
  | RProd => VZ (o_reduce_prod sb (lz l))
  | RMax => VZ (match o_reduce_max (lz l) with Some v => v | None => 0%Z end)
  | RMin => VZ (match o_reduce_min (lz l) with Some v => v | None => 0%Z end)
  | RArgMax => VZ (Z.of_nat (o_argmax (lz l)))
  | RArgMin => VZ (Z.of_nat (o_argmin (lz l)))
  end.
Definition sred_jax (rk : rkind) (sb : ity) (l : list sval) : sval :=
  match rk with
  | RSum => VZ (jax_reduce_sum sb (lz l))
  | RProd => VZ (jax_reduce_prod sb (lz l))
  | RMax => VZ (match jax_reduce_max (lz l) with Some v => v | None => 0%Z end)
  | RMin => VZ (match jax_reduce_min (lz l) with Some v => v | None => 0%Z end)
  | RArgMax => VZ (Z.of_nat (jax_argmax (lz l)))
  | RArgMin => VZ (Z.of_nat (jax_argmin (lz l)))
  end.
(* max / min of an empty set is undefined in both systems; sums / products in a type of width 0 are meaningless *)
Definition red_ok (rk : rkind) (sb : ity) (mask : list bool) (s : list nat) : bool :=
  Nat.eqb (length mask) (length s) &&
  match rk with
  | RSum => (0 <? snd sb)%Z
  | RProd => (1 <? snd sb)%Z
  | RMax | RMin => match all_idx (red_shape mask s) with [] => false | _ => true end
  | RArgMax | RArgMin =>                                   (* ONNX ArgMax / ArgMin reduce exactly one axis *)
      Nat.eqb (length (filter (fun b : bool => b) mask)) 1 && match all_idx (red_shape mask s) with [] => false | _ => true end
  end.
Definition rname (rk : rkind) : string :=
  match rk with RSum => "ReduceSum" | RProd => "ReduceProd" | RMax => "ReduceMax" | RMin => "ReduceMin"
              | RArgMax => "ArgMax" | RArgMin => "ArgMin" end%string.
Definition rkind_of (op : string) : option rkind :=
  if String.eqb op "ReduceSum" then Some RSum else if String.eqb op "ReduceProd" then Some RProd
  else if String.eqb op "ReduceMax" then Some RMax else if String.eqb op "ReduceMin" then Some RMin
  else if String.eqb op "ArgMax" then Some RArgMax else if String.eqb op "ArgMin" then Some RArgMin else None.
Definition enc_mask (mask : list bool) : list nat := map (fun b : bool => if b then 1 else 0) mask.
Definition dec_mask (l : list nat) : list bool := map (Nat.eqb 1) l.
Lemma dec_enc_mask mask : dec_mask (enc_mask mask) = mask.
Proof. unfold dec_mask, enc_mask. rewrite map_map. rewrite <- (map_id mask) at 2. apply map_ext. now intros []. Qed.
Definition enc_red (sb : ity) (mask : list bool) : list nat := enc_sb sb ++ enc_mask mask.
Lemma sred_correct rk sb mask s l : red_ok rk sb mask s = true -> sred_onnx rk sb l = sred_jax rk sb l.
Proof.
  unfold red_ok. intro H. apply andb_prop in H as [_ H]. destruct rk; simpl.
  - apply Z.ltb_lt in H. now rewrite reduce_sum_correct.
  - apply Z.ltb_lt in H. now rewrite reduce_prod_correct.
  - reflexivity.
  - reflexivity.
  - destruct (lz l) as [|x r] eqn:E; [reflexivity|]. rewrite argmax_correct by discriminate. reflexivity.
  - destruct (lz l) as [|x r] eqn:E; [reflexivity|]. rewrite argmin_correct by discriminate. reflexivity.
Qed.

(* ================================================================ concatenate and (strided) slice *)
Fixpoint set_nth (n : nat) (v : nat) (l : list nat) : list nat :=
  match l, n with [] , _ => [] | _ :: r, 0 => v :: r | x :: r, S n' => x :: set_nth n' v r end.
(* lax.concatenate / ONNX Concat along [axis]: the pieces laid one after the other *)
Fixpoint cat_at {A} (axis : nat) (Xs : list (tensor A)) (d : A) (idx : list nat) : A :=
  match Xs with
  | [] => d
  | X :: r => let i := nth axis idx 0 in let n := nth axis (shape X) 0 in
              if i <? n then at_ X idx else cat_at axis r d (set_nth axis (i - n) idx)
  end.
Definition cat_shape (axis : nat) (shapes : list (list nat)) : list nat :=
  match shapes with [] => [] | s :: _ => set_nth axis (fold_right (fun t acc => nth axis t 0 + acc) 0 shapes) s end.
Definition tconcat {A} (axis : nat) (Xs : list (tensor A)) (d : A) : tensor A :=
  mkT (cat_shape axis (map (@shape A) Xs)) (cat_at axis Xs d).
(* the pieces agree off the axis *)
Definition cat_okb (axis : nat) (shapes : list (list nat)) : bool :=
  match shapes with
  | [] => false
  | s :: r => (axis <? length s) && forallb (fun t => nat_list_eqb (set_nth axis 0 t) (set_nth axis 0 s)) r
  end.
Definition jax_concat_sem (axis n : nat) (Xs : list cten) : option cten :=
  if Nat.eqb (length Xs) n && cat_okb axis (map c_shape Xs) then Some (tcanon (tconcat axis (map decanon Xs) sv0)) else None.

(* lax.slice(start, limit, strides): out[idx] = x[start + idx * stride], extent ceil((limit - start) / stride) *)
Fixpoint slice_idx (starts strides idx : list nat) : list nat :=
  match starts, strides, idx with
  | s :: sr, t :: tr, i :: ir => (s + i * t) :: slice_idx sr tr ir
  | _, _, _ => []
  end.
Definition cdiv (a b : nat) : nat := (a + b - 1) / b.
Fixpoint jax_slice_shape (starts limits strides : list nat) : list nat :=
  match starts, limits, strides with
  | s :: sr, l :: lr, t :: tr => cdiv (l - s) t :: jax_slice_shape sr lr tr
  | _, _, _ => []
  end.
Definition jax_slice {A} (starts limits strides : list nat) (X : tensor A) : tensor A :=
  mkT (jax_slice_shape starts limits strides) (fun idx => at_ X (slice_idx starts strides idx)).
(* ONNX Slice(starts, ends, axes = all, steps > 0): starts and ends are first clamped into [0, dim] *)
Fixpoint onnx_slice_shape (dims starts ends steps : list nat) : list nat :=
  match dims, starts, ends, steps with
  | d :: dr, s :: sr, e :: er, t :: tr => cdiv (Nat.min e d - Nat.min s d) t :: onnx_slice_shape dr sr er tr
  | _, _, _, _ => []
  end.
Fixpoint onnx_slice_starts (dims starts : list nat) : list nat :=
  match dims, starts with d :: dr, s :: sr => Nat.min s d :: onnx_slice_starts dr sr | _, _ => [] end.
Definition onnx_slice {A} (starts ends steps : list nat) (X : tensor A) : tensor A :=
  mkT (onnx_slice_shape (shape X) starts ends steps) (fun idx => at_ X (slice_idx (onnx_slice_starts (shape X) starts) steps idx)).
(* JAX's precondition: 0 <= start <= limit <= dim, stride >= 1, one entry per axis *)
Fixpoint slice_okb (dims starts limits strides : list nat) : bool :=
  match dims, starts, limits, strides with
  | [], [], [], [] => true
  | d :: dr, s :: sr, l :: lr, t :: tr => (s <=? l) && (l <=? d) && (1 <=? t) && slice_okb dr sr lr tr
  | _, _, _, _ => false
  end.
Theorem slice_correct {A} (starts limits strides : list nat) (X : tensor A) :
  slice_okb (shape X) starts limits strides = true ->
  onnx_slice starts limits strides X = jax_slice starts limits strides X.
Proof.
  intro H. unfold onnx_slice, jax_slice.
  assert (E : onnx_slice_shape (shape X) starts limits strides = jax_slice_shape starts limits strides
              /\ onnx_slice_starts (shape X) starts = starts).
  { revert starts limits strides H. induction (shape X) as [|d dr IH]; intros [|s sr] [|l lr] [|t tr] H; simpl in H; try discriminate; [now split|].
    apply andb_prop in H as [H H4]. apply andb_prop in H as [H H3]. apply andb_prop in H as [H1 H2].
    apply Nat.leb_le in H1, H2. destruct (IH sr lr tr H4) as [E1 E2]. simpl. rewrite E1, E2.
    rewrite (Nat.min_l l d), (Nat.min_l s d) by lia. now split. }
  destruct E as [-> ->]. reflexivity.
Qed.
Definition jax_slice_sem (starts limits strides : list nat) (Xs : list cten) : option cten :=
  match Xs with
  | [a] => if slice_okb (c_shape a) starts limits strides then Some (tcanon (jax_slice starts limits strides (decanon a))) else None
  | _ => None
  end.

(* ================================================================ node semantics with the structural operators *)
Local Open Scope string_scope.
(* static shapes: the target shape / axes / permutation (an initializer input in ONNX) is the node's payload *)
Definition tfull {A} (s : list nat) (c : A) : tensor A := mkT s (fun _ => c).
Definition enc_full (s : list nat) (c : sval) : list nat := length s :: s ++ enc_const c.
(* ONNX Range(0, n, 1): the vector 0 .. n-1;  lax.iota(dtype, shape, dimension): out[idx] = idx[dimension] *)
Definition trange (n : nat) : tensor sval := mkT [n] (fun idx => VZ (Z.of_nat (nth 0 idx 0))).
Definition jax_iota (shape : list nat) (dim : nat) : tensor sval := mkT shape (fun idx => VZ (Z.of_nat (nth dim idx 0))).
Definition ssem (op : string) (ats : list nat) (vals : list cten) : option (list cten) :=
  if String.eqb op "Range" then match ats, vals with [n], [] => Some [tcanon (trange n)] | _, _ => None end
  else if String.eqb op "ConstantFull" then                      (* an initializer holding one value at every index *)
    match ats, vals with
    | n :: rest, [] => match dec_const (skipn n rest) with Some c => Some [tcanon (tfull (firstn n rest) c)] | None => None end
    | _, _ => None end
  else if String.eqb op "Reshape" then
    match vals with [a] => if Nat.eqb (prod ats) (prod (c_shape a)) then Some [tcanon (reshape ats (decanon a))] else None | _ => None end
  else if String.eqb op "Expand" then
    match vals with [a] => if bsubb (c_shape a) ats then Some [tcanon (texpand ats (decanon a))] else None | _ => None end
  else if String.eqb op "Squeeze" then
    match vals with
    | [a] => let mask := axes_mask (length (c_shape a)) ats in
             if squeezable mask (c_shape a) then Some [tcanon (tsqueeze mask (decanon a))] else None
    | _ => None end
  else if String.eqb op "Transpose" then
    match vals with
    | [a] => if is_permb ats && Nat.eqb (length ats) (length (c_shape a)) then Some [tcanon (transpose ats (decanon a))] else None
    | _ => None end
  else if String.eqb op "Concat" then                     (* payload: the axis *)
    match ats with
    | [axis] => if cat_okb axis (map c_shape vals) then Some [tcanon (tconcat axis (map decanon vals) sv0)] else None
    | _ => None end
  else if String.eqb op "Slice" then                      (* payload: n, then n starts, n ends, n steps (all axes, in order) *)
    match ats, vals with
    | n :: rest, [a] =>
        let starts := firstn n rest in let ends := firstn n (skipn n rest) in let steps := skipn n (skipn n rest) in
        if Nat.eqb (length (c_shape a)) n && Nat.eqb (length starts) n && Nat.eqb (length ends) n && Nat.eqb (length steps) n
           && forallb (fun t => Nat.leb 1 t) steps
        then Some [tcanon (onnx_slice starts ends steps (decanon a))] else None
    | _, _ => None end
  else match rkind_of op with
       | Some rk =>                                    (* Reduce* with keepdims = 0; payload: element type, axes mask *)
           match ats, vals with
           | sg :: b :: m01, [a] =>
               let sb := dec_sb sg b in let mask := dec_mask m01 in
               if red_ok rk sb mask (c_shape a) then Some [tcanon (treduce (sred_onnx rk sb) mask (decanon a))] else None
           | _, _ => None
           end
       | None => kgsem cdummy op ats vals
       end.
Lemma ssem_op o vals : osb_ok o -> ssem (oname o) (enc_op o) vals = gsem_op o vals.
Proof. intro H. unfold ssem. rewrite <- (kgsem_op cdummy o vals H). destruct o; reflexivity. Qed.
Lemma ssem_const c : ssem "Constant" (enc_const c) [] = Some [tcanon (tscalar c)].
Proof. unfold ssem. simpl. apply kgsem_const. Qed.
Local Close Scope string_scope.

Notation sgeval := (eval cten ssem).
Notation sgkern_ok := (gkern_ok ssem).

Lemma lookups_args (g : genv) : forall args Xs, length args = length Xs ->
  (forall i, i < length Xs -> g (nth i args 0) = Some (nth i Xs cdummy)) -> lookups cten g args = Some Xs.
Proof.
  induction args as [|a args IH]; intros [|X Xs] Hl H; simpl in *; try discriminate; [reflexivity|].
  rewrite (H 0 ltac:(lia)). rewrite (IH Xs); [reflexivity | lia | intros i Hi; apply (H (S i)); lia].
Qed.

(* a kernel lowered to ONE node over its operands *)
Definition gk_node (ar : nat) (op : string) (ats : list nat) (f : list cten -> option cten) : gkern :=
  mkG ar (fun args next => ([mkNode op ats args [] [next]], next, S next)) f.
Lemma gk_node_ok ar op ats f :
  (forall Xs out, length Xs = ar -> f Xs = Some out -> ssem op ats Xs = Some [out]) -> sgkern_ok (gk_node ar op ats f).
Proof.
  intros Hsem args next nodes res next' g Xs out Hem Hl Hla Hargs Hfr Hf. simpl in *. injection Hem as <- <- <-.
  exists (upd cten g next out). split.
  - simpl. unfold step, n_uses; simpl. rewrite app_nil_r.
    rewrite (lookups_args g args Xs (eq_trans Hla (eq_sym Hl)) (fun i Hi => proj2 (Hargs i Hi))).
    rewrite (Hsem Xs out Hl Hf). simpl. reflexivity.
  - split; [lia|]. split; [intros m Hm; apply upd_other; lia|]. split; [intros m Hm; rewrite upd_other by lia; apply Hfr; lia|].
    split; [apply upd_same|]. intro x. simpl. lia.
Qed.

(* ---- constants (the literals of a jaxpr): a Constant node *)
Definition gk_const (c : sval) : gkern := gk_node 0 "Constant"%string (enc_const c) (fun _ => Some (tcanon (tscalar c))).
Lemma gk_const_ok c : sgkern_ok (gk_const c).
Proof. apply gk_node_ok. intros [|? ?] out Hl H; [|discriminate]. injection H as <-. apply ssem_const. Qed.

(* ---- reshape (row major), squeeze, transpose: one node each, the ONNX operator IS the JAX index semantics *)
Definition jax_reshape_sem (new : list nat) (Xs : list cten) : option cten :=
  match Xs with [a] => if Nat.eqb (prod new) (prod (c_shape a)) then Some (tcanon (reshape new (decanon a))) else None | _ => None end.
Definition gk_reshape (new : list nat) : gkern := gk_node 1 "Reshape"%string new (jax_reshape_sem new).
Lemma gk_reshape_ok new : sgkern_ok (gk_reshape new).
Proof.
  apply gk_node_ok. intros [|a [|? ?]] out Hl H; try discriminate. unfold jax_reshape_sem in H. unfold ssem. simpl.
  destruct (Nat.eqb (prod new) (prod (c_shape a))); [now injection H as <- | discriminate].
Qed.
Definition jax_squeeze_sem (dims : list nat) (Xs : list cten) : option cten :=
  match Xs with
  | [a] => let mask := axes_mask (length (c_shape a)) dims in
           if squeezable mask (c_shape a) then Some (tcanon (tsqueeze mask (decanon a))) else None
  | _ => None end.
Definition gk_squeeze (dims : list nat) : gkern := gk_node 1 "Squeeze"%string dims (jax_squeeze_sem dims).
Lemma gk_squeeze_ok dims : sgkern_ok (gk_squeeze dims).
Proof.
  apply gk_node_ok. intros [|a [|? ?]] out Hl H; try discriminate. unfold jax_squeeze_sem in H. unfold ssem. simpl.
  destruct (squeezable (axes_mask (length (c_shape a)) dims) (c_shape a)); [now injection H as <- | discriminate].
Qed.
Definition jax_transpose_sem (perm : list nat) (Xs : list cten) : option cten :=
  match Xs with
  | [a] => if is_permb perm && Nat.eqb (length perm) (length (c_shape a)) then Some (tcanon (transpose perm (decanon a))) else None
  | _ => None end.
Definition gk_transpose (perm : list nat) : gkern := gk_node 1 "Transpose"%string perm (jax_transpose_sem perm).
Lemma gk_transpose_ok perm : sgkern_ok (gk_transpose perm).
Proof.
  apply gk_node_ok. intros [|a [|? ?]] out Hl H; try discriminate. unfold jax_transpose_sem in H. unfold ssem. simpl.
  destruct (is_permb perm && Nat.eqb (length perm) (length (c_shape a))); [now injection H as <- | discriminate].
Qed.

(* ---- broadcast_in_dim: Reshape + Expand; the operand's static shape (its aval) fixes the Reshape target *)
Lemma Forall2_forallb2 {A B} (f : A -> B -> bool) (R : A -> B -> Prop) (Hf : forall a b, R a b -> f a b = true) :
  forall l m, Forall2 R l m -> forallb2 f l m = true.
Proof. induction 1; simpl; [reflexivity|]. rewrite (Hf _ _ H). exact IHForall2. Qed.
Lemma bsubb_complete s t : bsub s t -> bsubb s t = true.
Proof.
  intros [H1 H2]. unfold bsubb. apply andb_true_intro. split; [now apply Nat.leb_le|].
  apply (Forall2_forallb2 dsubb dsub); [|exact H2]. intros a b [-> | ->]; unfold dsubb; [reflexivity|]. rewrite Nat.eqb_refl. apply orb_true_r.
Qed.
Lemma rsh_dsub n : forall j bd xs tgt, bd_ok n j bd xs tgt -> Forall2 dsub (rsh n j bd xs) tgt.
Proof.
  induction n as [|n IH]; intros j bd xs tgt H; destruct tgt as [|t tr]; simpl in H; try contradiction; [constructor|].
  simpl. destruct bd as [|b bt], xs as [|d dt]; try contradiction.
  - constructor; [now left | now apply IH].
  - destruct (b =? j); destruct H as [H1 H2]; (constructor; [|now apply IH]); [exact H1 | now left].
Qed.
Lemma rsh_bsub bd xs tgt : bd_ok (length tgt) 0 bd xs tgt -> bsub (rsh (length tgt) 0 bd xs) tgt.
Proof. intro H. split; rewrite rsh_length; [lia|]. rewrite lastn_all. now apply rsh_dsub. Qed.
Lemma texpand_teq {A} s (X Y : tensor A) : teq X Y -> bsub (shape X) s -> teq (texpand s X) (texpand s Y).
Proof.
  intros [Hs H] Hb. split; [reflexivity|]. intros idx Hi. simpl in *. unfold bcast_at. rewrite <- Hs. apply H.
  now apply balign_in_range_sub with (u := s).
Qed.

Fixpoint bd_okb (n j : nat) (bd xs tgt : list nat) : bool :=
  match n, tgt with
  | 0, [] => match bd, xs with [], [] => true | _, _ => false end
  | S n', t :: tr => match bd, xs with
                     | b :: bt, d :: dt => if b =? j then ((d =? 1) || (d =? t)) && bd_okb n' (S j) bt dt tr
                                           else (j <? b) && bd_okb n' (S j) bd xs tr
                     | [], [] => bd_okb n' (S j) [] [] tr
                     | _, _ => false
                     end
  | _, _ => false
  end.
Lemma bd_okb_spec n : forall j bd xs tgt, bd_okb n j bd xs tgt = true -> bd_ok n j bd xs tgt.
Proof.
  induction n as [|n IH]; intros j bd xs tgt H; destruct tgt as [|t tr]; simpl in *; try discriminate.
  - destruct bd, xs; try discriminate. now split.
  - destruct bd as [|b bt], xs as [|d dt]; try discriminate; [now apply IH|].
    destruct (b =? j); apply andb_prop in H as [H1 H2]; (split; [|now apply IH]).
    + apply orb_prop in H1 as [H1|H1]; apply Nat.eqb_eq in H1; [now left | now right].
    + now apply Nat.ltb_lt.
Qed.

Definition jax_bcast_sem (opshape target bd : list nat) (Xs : list cten) : option cten :=
  match Xs with
  | [a] => if nat_list_eqb (c_shape a) opshape && bd_okb (length target) 0 bd opshape target
           then Some (tcanon (jax_broadcast_in_dim target bd (decanon a))) else None
  | _ => None
  end.
Definition gk_bcast (opshape target bd : list nat) : gkern :=
  mkG 1 (fun args next =>
           ([mkNode "Reshape"%string (rsh (length target) 0 bd opshape) args [] [next];
             mkNode "Expand"%string target [next] [] [S next]], S next, S (S next)))
      (jax_bcast_sem opshape target bd).
Lemma gk_bcast_ok opshape target bd : sgkern_ok (gk_bcast opshape target bd).
Proof.
  intros args next nodes res next' g Xs out Hem Hl Hla Hargs Hfr Hf. simpl in *. injection Hem as <- <- <-.
  destruct Xs as [|a [|? ?]]; try discriminate. destruct args as [|x [|? ?]]; try discriminate.
  unfold jax_bcast_sem in Hf.
  destruct (nat_list_eqb (c_shape a) opshape && bd_okb (length target) 0 bd opshape target) eqn:Ec; [|discriminate].
  apply andb_prop in Ec as [Es Eb]. apply nat_list_eqb_eq in Es. apply bd_okb_spec in Eb. subst opshape. injection Hf as <-.
  destruct (Hargs 0 ltac:(simpl; lia)) as [Hx Hgx]. simpl in Hx, Hgx.
  set (rs := rsh (length target) 0 bd (c_shape a)) in *.
  set (T1 := tcanon (reshape rs (decanon a))).
  set (out := tcanon (jax_broadcast_in_dim target bd (decanon a))).
  exists (upd cten (upd cten g next T1) (S next) out). split.
  - simpl. unfold step, n_uses; simpl. rewrite Hgx. unfold ssem at 1. simpl.
    replace (prod rs =? prod (c_shape a)) with true by (symmetry; apply Nat.eqb_eq; apply (rsh_prod _ _ _ _ _ Eb)).
    simpl. fold T1. rewrite upd_same. unfold ssem. simpl.
    rewrite (bsubb_complete rs target (rsh_bsub _ _ _ Eb)). simpl.
    replace (tcanon (texpand target (decanon T1))) with out; [reflexivity|].
    unfold out, T1. apply canon_teq. apply teq_sym.
    eapply teq_trans; [|apply (broadcast_in_dim_correct target bd (decanon a) Eb)].
    apply texpand_teq; [apply decanon_canon|]. simpl. apply (rsh_bsub _ _ _ Eb).
  - split; [lia|]. split; [intros m Hm; rewrite !upd_other by lia; reflexivity|].
    split; [intros m Hm; rewrite !upd_other by lia; apply Hfr; lia|].
    split; [apply upd_same|]. intro y. simpl. lia.
Qed.

(* ---- every elementwise exact kernel of LiftProg (the whole exact_table, integer convert_element_type included) *)
Lemma emit_res_fresh e args next nodes res next' :
  match e with KVar _ => False | _ => True end -> emit e args next = (nodes, res, next') -> next <= res.
Proof.
  intros Hr Hem. destruct e as [i|c|o a|o a b|o a b c]; try contradiction; simpl in Hem.
  - now injection Hem as <- <- <-.
  - destruct (emit a args next) as [[na ra] n1] eqn:Ea. injection Hem as <- <- <-. exact (proj1 (emit_defs a _ _ _ _ _ Ea)).
  - destruct (emit a args next) as [[na ra] n1] eqn:Ea. destruct (emit b args n1) as [[nb rb] n2] eqn:Eb. injection Hem as <- <- <-.
    pose proof (proj1 (emit_defs a _ _ _ _ _ Ea)). pose proof (proj1 (emit_defs b _ _ _ _ _ Eb)). lia.
  - destruct (emit a args next) as [[na ra] n1] eqn:Ea. destruct (emit b args n1) as [[nb rb] n2] eqn:Eb.
    destruct (emit c args n2) as [[nc rc] n3] eqn:Ec. injection Hem as <- <- <-.
    pose proof (proj1 (emit_defs a _ _ _ _ _ Ea)). pose proof (proj1 (emit_defs b _ _ _ _ _ Eb)). pose proof (proj1 (emit_defs c _ _ _ _ _ Ec)). lia.
Qed.

Definition jax_elem_sem (k : kern) (vals : list cten) : option cten :=
  if commonb (map c_shape vals) &&
     tforallb (bshape_all (map c_shape vals)) (fun idx => k_dom k (map (fun X => bcast_at X idx) (dX vals)))
  then Some (tcanon (tmapN (k_jax k) (dX vals))) else None.
Definition gk_elem (k : kern) : gkern := mkG (k_arity k) (emit (k_expr k)) (jax_elem_sem k).
Lemma gk_elem_ok k : kern_ok k -> sgkern_ok (gk_elem k).
Proof.
  intros (Hroot & Hkok & Huses & Hsound) args next nodes res next' g vals out Em Hlenb Hla Hidx Hfr Hf. simpl in *.
  unfold jax_elem_sem in Hf.
  destruct (commonb (map c_shape vals) &&
            tforallb (bshape_all (map c_shape vals)) (fun idx => k_dom k (map (fun X => bcast_at X idx) (dX vals)))) eqn:Econd; [|discriminate].
  injection Hf as <-. apply andb_prop in Econd as [Hcomb Hdomb]. apply commonb_spec in Hcomb.
  assert (Hkok' : kok (length vals) (k_expr k)) by (rewrite Hlenb; exact Hkok).
  assert (Hcn : forall i, bsub (nth i (map c_shape vals) []) (bshape_all (map c_shape vals))) by (apply bcommon_nth; exact Hcomb).
  destruct (kwf_of_common (k_expr k) (map c_shape vals) Hcn) as [Hwf _].
  destruct (emit_correct ssem ssem_op ssem_const (k_expr k) args next nodes res next' g vals Em Hkok' Hwf Hidx Hfr)
    as (g2 & T & Hev2 & Hle2 & Hres & Hkeep2 & Hfr2 & Hgres & _ & HT).
  assert (HTeq : T = tcanon (tmapN (k_jax k) (dX vals))).
  { destruct (k_expr k) eqn:Eke; try contradiction; rewrite HT; apply canon_teq;
      rewrite <- Eke in *;
      (apply (@keval_t_tmapN_ext sval oop oop oop sem1 sem2 sem3 sv0 (k_expr k) (dX vals) (bshape_all (map c_shape vals)));
       [rewrite shapes_dX; exact Hcomb
       | intros i Hi; apply Huses; unfold dX in Hi; rewrite map_length in Hi; lia
       | intros idx Hi; rewrite shapes_dX in Hi; apply Hsound;
         [rewrite map_length; unfold dX; rewrite map_length; exact Hlenb | exact (tforallb_spec _ _ Hdomb idx Hi)]]). }
  exists g2. split; [exact Hev2|]. split; [split; [apply (emit_res_fresh (k_expr k) args next nodes res next' Hroot Em) | exact Hres]|].
  split; [exact Hkeep2|]. split; [exact Hfr2|]. split; [now rewrite <- HTeq|].
  apply (proj2 (emit_defs (k_expr k) args next nodes res next' Em)).
Qed.

(* ---- broadcast_in_dim of a literal: the converter folds it into an initializer holding the value at every index *)
Definition gk_full (s : list nat) (c : sval) : gkern :=
  gk_node 0 "ConstantFull"%string (enc_full s c) (fun _ => Some (tcanon (tfull s c))).
Lemma firstn_length_app {A} (l m : list A) : firstn (length l) (l ++ m) = l.
Proof. induction l; simpl; [reflexivity | now rewrite IHl]. Qed.
Lemma skipn_length_app {A} (l m : list A) : skipn (length l) (l ++ m) = m.
Proof. induction l; simpl; [reflexivity | exact IHl]. Qed.
Lemma gk_full_ok s c : sgkern_ok (gk_full s c).
Proof.
  apply gk_node_ok. intros [|? ?] out Hl H; [|discriminate]. injection H as <-. unfold ssem, enc_full. simpl.
  rewrite skipn_length_app, firstn_length_app, dec_enc_const. reflexivity.
Qed.
(* it IS the JAX value: broadcasting a scalar to s *)
Lemma full_is_broadcast s (c : sval) : teq (tfull s c) (jax_broadcast_in_dim s [] (tscalar c)).
Proof. split; reflexivity. Qed.

(* ================================================================ integer reductions over axes as kernels *)
Lemma ssem_reduce rk sb mask a : (0 <= snd sb)%Z ->
  ssem (rname rk) (enc_red sb mask) [a] =
  if red_ok rk sb mask (c_shape a) then Some [tcanon (treduce (sred_onnx rk sb) mask (decanon a))] else None.
Proof.
  intro Hb. unfold ssem, enc_red, enc_sb. destruct rk; simpl; rewrite dec_enc_sb, dec_enc_mask by exact Hb; reflexivity.
Qed.
Definition jax_reduce_sem (rk : rkind) (sb : ity) (mask : list bool) (Xs : list cten) : option cten :=
  match Xs with
  | [a] => if (0 <=? snd sb)%Z && red_ok rk sb mask (c_shape a)
           then Some (tcanon (treduce (sred_jax rk sb) mask (decanon a))) else None
  | _ => None
  end.
(* reduce_sum / reduce_prod / reduce_max / reduce_min (and jnp.sum / prod / max / min): one Reduce* node, keepdims = 0 *)
Definition gk_reduce (rk : rkind) (sb : ity) (mask : list bool) : gkern :=
  gk_node 1 (rname rk) (enc_red sb mask) (jax_reduce_sem rk sb mask).
Lemma gk_reduce_ok rk sb mask : sgkern_ok (gk_reduce rk sb mask).
Proof.
  apply gk_node_ok. intros [|a [|? ?]] out Hl H; try discriminate. unfold jax_reduce_sem in H.
  destruct ((0 <=? snd sb)%Z && red_ok rk sb mask (c_shape a)) eqn:E; [|discriminate]. injection H as <-.
  apply andb_prop in E as [Hb Hok]. apply Z.leb_le in Hb. rewrite ssem_reduce by exact Hb. rewrite Hok. do 2 f_equal.
  apply canon_teq. apply treduce_ext. intros idx _. now apply (sred_correct rk sb mask (c_shape a)).
Qed.

(* a reduction between two elementwise casts:  o2 (Reduce (o1 x))  — how ReduceSum on uint8/16/32 and reduce_and / reduce_or
   on bool are lowered *)
Lemma eval_cons_s (n : node) (r : list node) (e : env cten) :
  sgeval (n :: r) e = match step cten ssem e n with Some e' => sgeval r e' | None => None end.
Proof. reflexivity. Qed.
Lemma assoc_combine_in : forall (keys : list (list nat)) (vals : list sval) k,
  In k keys -> length keys = length vals -> In (assoc k (combine keys vals)) vals.
Proof.
  induction keys as [|k0 keys IH]; intros [|v vals] k Hin Hl; simpl in *; try discriminate; [contradiction|].
  destruct (nat_list_eqb k0 k) eqn:E; [now left|]. right. apply IH; [|lia].
  destruct Hin as [->|Hin]; [rewrite nat_list_eqb_refl in E; discriminate | exact Hin].
Qed.
Definition cten_wf (a : cten) : bool := Nat.eqb (length (c_data a)) (length (all_idx (c_shape a))).
Lemma decanon_at_in a j : cten_wf a = true -> in_range (c_shape a) j -> In (at_ (decanon a) j) (c_data a).
Proof.
  intros Hwf Hj. apply Nat.eqb_eq in Hwf. simpl. apply assoc_combine_in; [now apply all_idx_complete | now symmetry].
Qed.
(* P: a condition on the ELEMENTS of the operand (e.g. "lies in its integer type"), checked on the whole tensor *)
Definition gk_crc (o1 : oop) (rk : rkind) (sbr : ity) (o2 : oop) (mask : list bool)
                  (J : list sval -> sval) (D : list nat -> bool) (P : sval -> bool) : gkern :=
  mkG 1 (fun args next =>
           ([mkNode (oname o1) (enc_op o1) args [] [next];
             mkNode (rname rk) (enc_red sbr mask) [next] [] [S next];
             mkNode (oname o2) (enc_op o2) [S next] [] [S (S next)]], S (S next), S (S (S next))))
      (fun Xs => match Xs with
                 | [a] => if red_ok rk sbr mask (c_shape a) && D (c_shape a) && cten_wf a && forallb P (c_data a)
                          then Some (tcanon (treduce J mask (decanon a))) else None
                 | _ => None end).
Lemma gk_crc_ok o1 rk sbr o2 mask J D P :
  oarity o1 = 1 -> oarity o2 = 1 -> osb_ok o1 -> osb_ok o2 -> (0 <= snd sbr)%Z ->
  (forall s l, red_ok rk sbr mask s = true -> D s = true -> length l = length (all_idx (red_shape mask s)) ->
               Forall (fun v => P v = true) l ->
               sem1 o2 (sred_onnx rk sbr (map (sem1 o1) l)) = J l) ->
  sgkern_ok (gk_crc o1 rk sbr o2 mask J D P).
Proof.
  intros Ha1 Ha2 Hs1 Hs2 Hb Hlaw args next nodes res next' g Xs out Hem Hl Hla Hargs Hfr Hf. simpl in *. injection Hem as <- <- <-.
  destruct Xs as [|a [|? ?]]; try discriminate. destruct args as [|x [|? ?]]; try discriminate.
  destruct (red_ok rk sbr mask (c_shape a) && D (c_shape a) && cten_wf a && forallb P (c_data a)) eqn:Ec; [|discriminate]. injection Hf as <-.
  apply andb_prop in Ec as [Ec HP]. apply andb_prop in Ec as [Ec Hwf]. apply andb_prop in Ec as [Hok HD].
  rewrite forallb_forall in HP.
  destruct (Hargs 0 ltac:(simpl; lia)) as [Hx Hgx]. simpl in Hx, Hgx.
  set (T1 := tcanon (tmap (sem1 o1) (decanon a))).
  set (T2 := tcanon (treduce (sred_onnx rk sbr) mask (decanon T1))).
  set (T3 := tcanon (tmap (sem1 o2) (decanon T2))).
  assert (Hlen : length mask = length (c_shape a)).
  { unfold red_ok in Hok. apply andb_prop in Hok as [Hm _]. now apply Nat.eqb_eq in Hm. }
  assert (HT3 : T3 = tcanon (treduce J mask (decanon a))).
  { unfold T3. apply canon_teq.
    eapply teq_trans; [apply tmap_teq; unfold T2; apply decanon_canon|].
    eapply teq_trans; [apply tmap_teq; apply treduce_teq; [unfold T1; apply decanon_canon | exact Hlen]|].
    split; [reflexivity|]. intros idx Hi. cbn [tmap treduce at_ shape] in *.
    rewrite red_elems_tmap. apply (Hlaw (c_shape a)); [exact Hok | exact HD | unfold red_elems; now rewrite map_length|].
    apply Forall_forall. intros v Hv. unfold red_elems in Hv. apply in_map_iff in Hv as (r & <- & Hr). apply HP.
    apply decanon_at_in; [exact Hwf|]. apply merge_in_range; [exact Hlen | exact Hi | now apply all_idx_in_range]. }
  exists (upd cten (upd cten (upd cten g next T1) (S next) T2) (S (S next)) T3). split.
  - rewrite eval_cons_s.
    match goal with |- match ?St with _ => _ end = _ =>
      replace St with (Some (upd cten g next T1)) by (symmetry; exact (step_node1 ssem ssem_op g o1 x a next Hs1 Ha1 Hgx)) end.
    assert (Hst2 : step cten ssem (upd cten g next T1) (mkNode (rname rk) (enc_red sbr mask) [next] [] [S next])
                   = Some (upd cten (upd cten g next T1) (S next) T2)).
    { unfold step, n_uses; simpl. rewrite upd_same. rewrite ssem_reduce by exact Hb.
      change (c_shape T1) with (c_shape a). rewrite Hok. reflexivity. }
    rewrite eval_cons_s.
    match goal with |- match ?St with _ => _ end = _ => replace St with (Some (upd cten (upd cten g next T1) (S next) T2)) by (symmetry; exact Hst2) end.
    rewrite eval_cons_s.
    match goal with |- match ?St with _ => _ end = _ =>
      replace St with (Some (upd cten (upd cten (upd cten g next T1) (S next) T2) (S (S next)) T3))
        by (symmetry; apply (step_node1 ssem ssem_op); [exact Hs2 | exact Ha2 | apply upd_same]) end.
    reflexivity.
  - split; [lia|]. split; [intros m Hm; rewrite !upd_other by lia; reflexivity|].
    split; [intros m Hm; rewrite !upd_other by lia; apply Hfr; lia|].
    split; [rewrite upd_same; now rewrite HT3|]. intro y. simpl. lia.
Qed.

(* an elementwise cast, then the reduction in the cast's type:  Reduce (o1 x)  — jnp.sum / jnp.prod on bool and small integers
   (JAX promotes to the default integer width; the plugin casts to that type and reduces there) *)
Definition gk_cr (o1 : oop) (rk : rkind) (sbr : ity) (mask : list bool) (J : list sval -> sval) : gkern :=
  mkG 1 (fun args next =>
           ([mkNode (oname o1) (enc_op o1) args [] [next];
             mkNode (rname rk) (enc_red sbr mask) [next] [] [S next]], S next, S (S next)))
      (fun Xs => match Xs with
                 | [a] => if red_ok rk sbr mask (c_shape a) then Some (tcanon (treduce J mask (decanon a))) else None
                 | _ => None end).
Lemma gk_cr_ok o1 rk sbr mask J :
  oarity o1 = 1 -> osb_ok o1 -> (0 <= snd sbr)%Z ->
  (forall s l, red_ok rk sbr mask s = true -> sred_onnx rk sbr (map (sem1 o1) l) = J l) ->
  sgkern_ok (gk_cr o1 rk sbr mask J).
Proof.
  intros Ha1 Hs1 Hb Hlaw args next nodes res next' g Xs out Hem Hl Hla Hargs Hfr Hf. simpl in *. injection Hem as <- <- <-.
  destruct Xs as [|a [|? ?]]; try discriminate. destruct args as [|x [|? ?]]; try discriminate.
  destruct (red_ok rk sbr mask (c_shape a)) eqn:Hok; [|discriminate]. injection Hf as <-.
  destruct (Hargs 0 ltac:(simpl; lia)) as [Hx Hgx]. simpl in Hx, Hgx.
  set (T1 := tcanon (tmap (sem1 o1) (decanon a))).
  set (T2 := tcanon (treduce (sred_onnx rk sbr) mask (decanon T1))).
  assert (Hlen : length mask = length (c_shape a)).
  { unfold red_ok in Hok. apply andb_prop in Hok as [Hm _]. now apply Nat.eqb_eq in Hm. }
  assert (HT2 : T2 = tcanon (treduce J mask (decanon a))).
  { unfold T2. apply canon_teq.
    eapply teq_trans; [apply treduce_teq; [unfold T1; apply decanon_canon | exact Hlen]|].
    split; [reflexivity|]. intros idx Hi. cbn [tmap treduce at_ shape] in *.
    rewrite red_elems_tmap. now apply (Hlaw (c_shape a)). }
  exists (upd cten (upd cten g next T1) (S next) T2). split.
  - rewrite eval_cons_s.
    match goal with |- match ?St with _ => _ end = _ =>
      replace St with (Some (upd cten g next T1)) by (symmetry; exact (step_node1 ssem ssem_op g o1 x a next Hs1 Ha1 Hgx)) end.
    assert (Hst2 : step cten ssem (upd cten g next T1) (mkNode (rname rk) (enc_red sbr mask) [next] [] [S next])
                   = Some (upd cten (upd cten g next T1) (S next) T2)).
    { unfold step, n_uses; simpl. rewrite upd_same. rewrite ssem_reduce by exact Hb.
      change (c_shape T1) with (c_shape a). rewrite Hok. reflexivity. }
    rewrite eval_cons_s.
    match goal with |- match ?St with _ => _ end = _ => replace St with (Some (upd cten (upd cten g next T1) (S next) T2)) by (symmetry; exact Hst2) end.
    reflexivity.
  - split; [lia|]. split; [intros m Hm; rewrite !upd_other by lia; reflexivity|].
    split; [intros m Hm; rewrite !upd_other by lia; apply Hfr; lia|].
    split; [rewrite upd_same; now rewrite HT2|]. intro y. simpl. lia.
Qed.
(* a reduction, then an elementwise cast of its result:  o2 (Reduce x)  — ArgMax / ArgMin (int64) cast to the index type *)
Definition gk_rc (rk : rkind) (sbr : ity) (o2 : oop) (mask : list bool) (J : list sval -> sval) (D : list nat -> bool) : gkern :=
  mkG 1 (fun args next =>
           ([mkNode (rname rk) (enc_red sbr mask) args [] [next];
             mkNode (oname o2) (enc_op o2) [next] [] [S next]], S next, S (S next)))
      (fun Xs => match Xs with
                 | [a] => if red_ok rk sbr mask (c_shape a) && D (c_shape a) then Some (tcanon (treduce J mask (decanon a))) else None
                 | _ => None end).
Lemma gk_rc_ok rk sbr o2 mask J D :
  oarity o2 = 1 -> osb_ok o2 -> (0 <= snd sbr)%Z ->
  (forall s l, red_ok rk sbr mask s = true -> D s = true -> length l = length (all_idx (red_shape mask s)) ->
               sem1 o2 (sred_onnx rk sbr l) = J l) ->
  sgkern_ok (gk_rc rk sbr o2 mask J D).
Proof.
  intros Ha2 Hs2 Hb Hlaw args next nodes res next' g Xs out Hem Hl Hla Hargs Hfr Hf. simpl in *. injection Hem as <- <- <-.
  destruct Xs as [|a [|? ?]]; try discriminate. destruct args as [|x [|? ?]]; try discriminate.
  destruct (red_ok rk sbr mask (c_shape a) && D (c_shape a)) eqn:Ec; [|discriminate]. injection Hf as <-.
  apply andb_prop in Ec as [Hok HD].
  destruct (Hargs 0 ltac:(simpl; lia)) as [Hx Hgx]. simpl in Hx, Hgx.
  set (T1 := tcanon (treduce (sred_onnx rk sbr) mask (decanon a))).
  set (T2 := tcanon (tmap (sem1 o2) (decanon T1))).
  assert (HT2 : T2 = tcanon (treduce J mask (decanon a))).
  { unfold T2. apply canon_teq. eapply teq_trans; [apply tmap_teq; unfold T1; apply decanon_canon|].
    split; [reflexivity|]. intros idx Hi. cbn [tmap treduce at_ shape] in *.
    apply (Hlaw (c_shape a)); [exact Hok | exact HD|]. unfold red_elems. now rewrite map_length. }
  exists (upd cten (upd cten g next T1) (S next) T2). split.
  - rewrite eval_cons_s.
    assert (Hst1 : step cten ssem g (mkNode (rname rk) (enc_red sbr mask) [x] [] [next]) = Some (upd cten g next T1)).
    { unfold step, n_uses; simpl. rewrite Hgx. rewrite ssem_reduce by exact Hb. rewrite Hok. reflexivity. }
    match goal with |- match ?St with _ => _ end = _ => replace St with (Some (upd cten g next T1)) by (symmetry; exact Hst1) end.
    rewrite eval_cons_s.
    match goal with |- match ?St with _ => _ end = _ =>
      replace St with (Some (upd cten (upd cten g next T1) (S next) T2))
        by (symmetry; apply (step_node1 ssem ssem_op _ o2); [exact Hs2 | exact Ha2 | apply upd_same]) end.
    reflexivity.
  - split; [lia|]. split; [intros m Hm; rewrite !upd_other by lia; reflexivity|].
    split; [intros m Hm; rewrite !upd_other by lia; apply Hfr; lia|].
    split; [rewrite upd_same; now rewrite HT2|]. intro y. simpl. lia.
Qed.
(* lax.argmax / argmin, jnp.argmax / argmin (one axis, first index on ties): ArgMax / ArgMin then Cast to the index type;
   exact while the extent of the axis fits the index type *)
Definition arg_fits (sbi : ity) (mask : list bool) (s : list nat) : bool :=
  (0 <? snd sbi)%Z && (Z.of_nat (length (all_idx (red_shape mask s))) - 1 <=? int_hi sbi)%Z.
Definition gk_arg (rk : rkind) (sbi : ity) (mask : list bool) : gkern :=
  gk_rc rk (true, 64%Z) (OCast sbi) mask (sred_jax rk (true, 64%Z)) (arg_fits sbi mask).
Lemma arg_index_lt (f : list Z -> nat) (l : list Z) : (forall l', l' <> [] -> (f l' < length l')%nat) -> l <> [] -> (f l < length l)%nat.
Proof. auto. Qed.
Lemma gk_arg_ok rk sbi mask : (rk = RArgMax \/ rk = RArgMin) -> (0 <= snd sbi)%Z -> sgkern_ok (gk_arg rk sbi mask).
Proof.
  intros Hrk Hb0. apply gk_rc_ok; try reflexivity; try exact Hb0; try (simpl; lia).
  intros s l Hok HD Hlen. unfold arg_fits in HD. apply andb_prop in HD as [Hb Hfit]. apply Z.ltb_lt in Hb. apply Z.leb_le in Hfit.
  rewrite <- Hlen in Hfit.
  rewrite (sred_correct rk (true, 64%Z) mask s l Hok).
  assert (Hlt : forall i : nat, (i < length l)%nat \/ (i = 0%nat) -> sem1 (OCast sbi) (VZ (Z.of_nat i)) = VZ (Z.of_nat i)).
  { intros i Hi. cbn [sem1]. unfold lift1. change (inj SZ) with VZ. cbn [prj]. f_equal. unfold o_cast. apply wrap_id; [exact Hb|].
    unfold in_int. split.
    - destruct sbi as [[|] b]; unfold int_lo; simpl in *; [|lia]. assert (0 < 2 ^ (b - 1))%Z by (apply Z.pow_pos_nonneg; lia). lia.
    - assert (0 <= int_hi sbi)%Z.
      { destruct sbi as [[|] b]; unfold int_hi; simpl in *; [assert (0 < 2 ^ (b - 1))%Z by (apply Z.pow_pos_nonneg; lia) | assert (0 < 2 ^ b)%Z by (apply Z.pow_pos_nonneg; lia)]; lia. }
      destruct Hi as [Hi | ->]; lia. }
  assert (Hlz : length (lz l) = length l) by (unfold lz; now rewrite map_length).
  destruct Hrk as [-> | ->]; cbn [sred_jax]; apply Hlt.
  - destruct (lz l) as [|x r] eqn:E; [right; reflexivity|]. left. rewrite <- Hlz.
    exact (proj1 (jax_argmax_spec (x :: r) ltac:(discriminate))).
  - destruct (lz l) as [|x r] eqn:E; [right; reflexivity|]. left. rewrite <- Hlz.
    rewrite jax_argmin_opp. pose proof (proj1 (jax_argmax_spec (map Z.opp (x :: r)) ltac:(discriminate))) as H. now rewrite map_length in H.
Qed.
(* index type int64: the plugin keeps the int64 result (ArgMax / ArgMin then Identity) *)
Definition gk_arg_id (rk : rkind) (mask : list bool) : gkern :=
  gk_rc rk (true, 64%Z) OIdentity mask (sred_jax rk (true, 64%Z)) (fun _ => true).
Lemma gk_arg_id_ok rk mask : (rk = RArgMax \/ rk = RArgMin) -> sgkern_ok (gk_arg_id rk mask).
Proof.
  intros Hrk. apply gk_rc_ok; try reflexivity; try exact I; try (simpl; lia).
  intros s l Hok _ _. rewrite (sred_correct rk (true, 64%Z) mask s l Hok). destruct Hrk as [-> | ->]; reflexivity.
Qed.
Lemma lz_map_cast sbw l : lz (map (sem1 (OCast sbw)) l) = map (o_cast sbw) (lz l).
Proof. unfold lz. rewrite !map_map. apply map_ext. intro v. reflexivity. Qed.
(* integer operand: Cast(sbw) -> ReduceSum / ReduceProd in sbw;  JAX: the sum / product of the operand in sbw *)
Definition gk_reduce_cast (rk : rkind) (sbw : ity) (mask : list bool) : gkern :=
  gk_cr (OCast sbw) rk sbw mask (sred_jax rk sbw).
Lemma gk_reduce_cast_ok rk sbw mask : (rk = RSum \/ rk = RProd) -> (0 <= snd sbw)%Z -> sgkern_ok (gk_reduce_cast rk sbw mask).
Proof.
  intros Hrk Hb. apply gk_cr_ok; try reflexivity; try exact Hb.
  intros s l Hok. unfold red_ok in Hok. apply andb_prop in Hok as [_ Hok].
  destruct Hrk as [-> | ->]; cbn [sred_onnx sred_jax]; rewrite lz_map_cast; f_equal; apply Z.ltb_lt in Hok.
  - now apply reduce_sum_cast_correct.
  - now apply reduce_prod_cast_correct.
Qed.
(* bool operand: Cast(bool -> sbw) -> Reduce*;  JAX: convert_element_type to sbw, then the reduction in sbw *)
Definition gk_reduce_cast_bool (rk : rkind) (sbw : ity) (mask : list bool) : gkern :=
  gk_cr (OCastOfBool sbw) rk sbw mask (fun l => sred_jax rk sbw (map (sem1 (OCastOfBool sbw)) l)).
Lemma gk_reduce_cast_bool_ok rk sbw mask : (0 <= snd sbw)%Z -> sgkern_ok (gk_reduce_cast_bool rk sbw mask).
Proof.
  intro Hb. apply gk_cr_ok; try reflexivity; try exact Hb.
  intros s l Hok. now apply (sred_correct rk sbw mask s).
Qed.

Definition I64r : ity := (true, 64%Z).
Lemma prj_VZ z : prj SZ (VZ z) = z. Proof. reflexivity. Qed.
Lemma prj_VB b : prj SB (VB b) = b. Proof. reflexivity. Qed.
(* jnp.sum / reduce_sum on uint8 / uint16 / uint32: Cast(int64) -> ReduceSum -> Cast back *)
Definition gk_reduce_sum_via64 (sb : ity) (mask : list bool) : gkern :=
  gk_crc (OCast I64r) RSum I64r (OCast sb) mask (sred_jax RSum sb) (fun _ => (0 <? snd sb)%Z && (snd sb <=? 64)%Z) (fun _ => true).
Lemma gk_reduce_sum_via64_ok sb mask : (0 <= snd sb)%Z -> sgkern_ok (gk_reduce_sum_via64 sb mask).
Proof.
  intro Hb0. apply gk_crc_ok; try reflexivity; try exact Hb0; try (simpl; lia).
  intros s l _ HD _ _. apply andb_prop in HD as [H1 H2]. apply Z.ltb_lt in H1. apply Z.leb_le in H2.
  cbn [sem1 sred_onnx sred_jax]. unfold lift1, lz. change (inj SZ) with VZ. rewrite prj_VZ, map_map. f_equal.
  rewrite <- (reduce_sum_via64_correct sb (map (prj SZ) l)) by lia. unfold lowered_reduce_sum_via64. rewrite map_map. reflexivity.
Qed.
Definition gk_reduce_prod_via64 (sb : ity) (mask : list bool) : gkern :=
  gk_crc (OCast I64r) RProd I64r (OCast sb) mask (sred_jax RProd sb) (fun _ => (0 <? snd sb)%Z && (snd sb <=? 64)%Z) (fun _ => true).
Lemma gk_reduce_prod_via64_ok sb mask : (0 <= snd sb)%Z -> sgkern_ok (gk_reduce_prod_via64 sb mask).
Proof.
  intro Hb0. apply gk_crc_ok; try reflexivity; try exact Hb0; try (simpl; lia).
  intros s l _ HD _ _. apply andb_prop in HD as [H1 H2]. apply Z.ltb_lt in H1. apply Z.leb_le in H2.
  cbn [sem1 sred_onnx sred_jax]. unfold lift1, lz. change (inj SZ) with VZ. rewrite prj_VZ, map_map. f_equal.
  rewrite <- (reduce_prod_via64_correct sb (map (prj SZ) l)) by lia. unfold lowered_reduce_prod_via64. rewrite map_map. reflexivity.
Qed.
(* reduce_max / reduce_min on int16 / uint16 (proposed lowering): Cast(int32) -> ReduceMax / ReduceMin -> Cast back; exact for
   operands that lie in their integer type (checked on the whole tensor) *)
Definition I32r : ity := (true, 32%Z).
Definition elem_in (sb : ity) (v : sval) : bool := match v with VZ z => in_intb sb z | _ => false end.
Lemma in_int_narrow sb z : (0 < snd sb <= 16)%Z -> in_int sb z -> in_int I32r z.
Proof.
  intros [Hb H16]. destruct sb as [sg b]. unfold in_int, int_lo, int_hi, I32r. simpl in *. intro H.
  assert (2 ^ b <= 2 ^ 16)%Z by (apply Z.pow_le_mono_r; lia).
  assert (0 < 2 ^ (b - 1))%Z by (apply Z.pow_pos_nonneg; lia).
  assert (2 ^ (b - 1) <= 2 ^ 15)%Z by (apply Z.pow_le_mono_r; lia).
  change (2 ^ (32 - 1))%Z with 2147483648%Z. change (2 ^ 16)%Z with 65536%Z in *. change (2 ^ 15)%Z with 32768%Z in *.
  destruct sg; lia.
Qed.
Lemma fold1_in (op : Z -> Z -> Z) (Hop : forall a b, op a b = a \/ op a b = b) l v : fold1 op l = Some v -> In v l.
Proof.
  destruct l as [|x l]; [discriminate|]. simpl. intro H. injection H as <-. revert x.
  induction l as [|y l IH]; intro x; simpl; [now left|].
  destruct (IH (op x y)) as [E|Hin]; [|right; right; exact Hin]. rewrite <- E. destruct (Hop x y) as [->| ->]; [now left | right; now left].
Qed.
Lemma mm_law (rk : rkind) sb (l : list sval) : (rk = RMax \/ rk = RMin) -> (0 < snd sb <= 16)%Z ->
  Forall (fun v => elem_in sb v = true) l ->
  sem1 (OCast sb) (sred_onnx rk I32r (map (sem1 (OCast I32r)) l)) = sred_jax rk sb l.
Proof.
  intros Hrk Hb Hall.
  assert (Hz : Forall (in_int sb) (lz l)).
  { unfold lz. apply Forall_forall. intros z Hz. apply in_map_iff in Hz as (v & <- & Hv). rewrite Forall_forall in Hall.
    specialize (Hall v Hv). destruct v; try discriminate. simpl. now apply in_intb_spec. }
  assert (Hm : lz (map (sem1 (OCast I32r)) l) = lz l).
  { unfold lz. rewrite map_map. apply map_ext_in. intros v Hv. cbn [sem1]. unfold lift1. change (inj SZ) with VZ. rewrite prj_VZ.
    unfold o_cast. apply wrap_id; [simpl; lia|]. apply (in_int_narrow sb); [exact Hb|]. rewrite Forall_forall in Hz. apply Hz.
    unfold lz. now apply in_map. }
  assert (H0 : in_int sb 0).
  { destruct sb as [[|] b]; unfold in_int, int_lo, int_hi; simpl in *;
      assert (0 < 2 ^ (b - 1))%Z by (apply Z.pow_pos_nonneg; lia); assert (0 < 2 ^ b)%Z by (apply Z.pow_pos_nonneg; lia); lia. }
  rewrite Forall_forall in Hz.
  destruct Hrk as [-> | ->]; cbn [sred_onnx sred_jax sem1]; unfold lift1; change (inj SZ) with VZ;
    change (fun x : sval => VZ (o_cast I32r (prj SZ x))) with (sem1 (OCast I32r)); rewrite prj_VZ, Hm; f_equal;
    unfold o_cast, o_reduce_max, o_reduce_min, jax_reduce_max, jax_reduce_min; change o_max with Z.max; change o_min with Z.min.
  - destruct (fold1 Z.max (lz l)) as [m|] eqn:E; apply wrap_id; try lia; try exact H0. apply Hz.
    apply (fold1_in Z.max) in E; [exact E|]. intros a b. destruct (Z.max_spec a b) as [[_ ->]|[_ ->]]; auto.
  - destruct (fold1 Z.min (lz l)) as [m|] eqn:E; apply wrap_id; try lia; try exact H0. apply Hz.
    apply (fold1_in Z.min) in E; [exact E|]. intros a b. destruct (Z.min_spec a b) as [[_ ->]|[_ ->]]; auto.
Qed.
Definition gk_reduce_mm_via32 (rk : rkind) (sb : ity) (mask : list bool) : gkern :=
  gk_crc (OCast I32r) rk I32r (OCast sb) mask (sred_jax rk sb) (fun _ => (0 <? snd sb)%Z && (snd sb <=? 16)%Z) (elem_in sb).
Lemma gk_reduce_mm_via32_ok rk sb mask : (rk = RMax \/ rk = RMin) -> (0 <= snd sb)%Z -> sgkern_ok (gk_reduce_mm_via32 rk sb mask).
Proof.
  intros Hrk Hb0. apply gk_crc_ok; try reflexivity; try exact Hb0; try (simpl; lia).
  intros s l _ HD _ HP. apply andb_prop in HD as [H1 H2]. apply Z.ltb_lt in H1. apply Z.leb_le in H2.
  apply mm_law; [exact Hrk | lia | exact HP].
Qed.
(* reduce_and on bool: Cast(int64) -> ReduceMin -> Cast(bool) *)
Definition gk_reduce_and (mask : list bool) : gkern :=
  gk_crc (OCastOfBool I64r) RMin I64r OCastToBool mask (fun l => VB (jax_reduce_and (lb l))) (fun _ => true) (fun _ => true).
Lemma gk_reduce_and_ok mask : sgkern_ok (gk_reduce_and mask).
Proof.
  apply gk_crc_ok; try reflexivity; try exact I; try (simpl; lia).
  intros s l Hok _ Hlen _. unfold red_ok in Hok. apply andb_prop in Hok as [_ Hne].
  assert (Hl : lb l <> []).
  { unfold lb. destruct l; [|discriminate]. simpl in Hlen. destruct (all_idx (red_shape mask s)); [discriminate | discriminate]. }
  pose proof (reduce_and_correct (lb l) Hl) as Hc. unfold lowered_reduce_and in Hc.
  cbn [sem1 sred_onnx]. unfold lift1, lz, lb in *. change (inj SZ) with VZ. change (inj SB) with VB. rewrite prj_VZ, map_map.
  rewrite map_map in Hc. change I64' with I64r in Hc.
  change (fun x : sval => prj SZ (VZ (o_cast_of_bool I64r (prj SB x)))) with (fun x : sval => o_cast_of_bool I64r (prj SB x)).
  match goal with |- context [o_reduce_min ?L] =>
    match type of Hc with context [o_reduce_min ?L'] => change L' with L in Hc end; destruct (o_reduce_min L) as [m|]; [|discriminate] end.
  injection Hc as Hc. now rewrite Hc.
Qed.
(* reduce_or on bool: Cast(int64) -> ReduceSum -> Cast(bool); the number of reduced elements must fit int64 *)
Definition gk_reduce_or (mask : list bool) : gkern :=
  gk_crc (OCastOfBool I64r) RSum I64r OCastToBool mask (fun l => VB (jax_reduce_or (lb l)))
         (fun s => (Z.of_nat (length (all_idx (red_shape mask s))) <? 2 ^ 63)%Z) (fun _ => true).
Lemma gk_reduce_or_ok mask : sgkern_ok (gk_reduce_or mask).
Proof.
  apply gk_crc_ok; try reflexivity; try exact I; try (simpl; lia).
  intros s l _ HD Hlen _. apply Z.ltb_lt in HD. rewrite <- Hlen in HD.
  cbn [sem1 sred_onnx]. unfold lift1, lz, lb. change (inj SZ) with VZ. change (inj SB) with VB. rewrite prj_VZ, map_map. f_equal.
  rewrite <- (reduce_or_correct (map (prj SB) l)) by (now rewrite map_length). unfold lowered_reduce_or. rewrite map_map. reflexivity.
Qed.

(* ================================================================ concatenate / slice as kernels *)
Definition gk_concat (n axis : nat) : gkern := gk_node n "Concat"%string [axis] (jax_concat_sem axis n).
Lemma gk_concat_ok n axis : sgkern_ok (gk_concat n axis).
Proof.
  apply gk_node_ok. intros Xs out Hl H. unfold jax_concat_sem in H.
  destruct (Nat.eqb (length Xs) n && cat_okb axis (map c_shape Xs)) eqn:E; [|discriminate]. injection H as <-.
  apply andb_prop in E as [_ E]. unfold ssem. simpl. now rewrite E.
Qed.
Definition enc_slice (starts limits strides : list nat) : list nat := length starts :: starts ++ limits ++ strides.
Definition gk_slice (starts limits strides : list nat) : gkern :=
  gk_node 1 "Slice"%string (enc_slice starts limits strides) (jax_slice_sem starts limits strides).
Lemma slice_okb_lengths : forall dims starts limits strides, slice_okb dims starts limits strides = true ->
  length starts = length dims /\ length limits = length dims /\ length strides = length dims /\ forallb (fun t => 1 <=? t) strides = true.
Proof.
  induction dims as [|d dr IH]; intros [|s sr] [|l lr] [|t tr] H; simpl in H; try discriminate; [now repeat split|].
  apply andb_prop in H as [H H4]. apply andb_prop in H as [H H3]. destruct (IH sr lr tr H4) as (E1 & E2 & E3 & E4).
  cbn [length forallb]. rewrite E1, E2, E3, E4. split; [reflexivity|]. split; [reflexivity|]. split; [reflexivity|].
  apply andb_true_intro. split; [exact H3 | reflexivity].
Qed.
Lemma slice_decode (starts limits strides : list nat) : length limits = length starts ->
  firstn (length starts) (skipn (length starts) (starts ++ limits ++ strides)) = limits /\
  skipn (length starts) (skipn (length starts) (starts ++ limits ++ strides)) = strides.
Proof. intro E. rewrite skipn_length_app. rewrite <- E. rewrite firstn_length_app, skipn_length_app. now split. Qed.
Lemma gk_slice_ok starts limits strides : sgkern_ok (gk_slice starts limits strides).
Proof.
  apply gk_node_ok. intros [|a [|? ?]] out Hl H; try discriminate. unfold jax_slice_sem in H.
  destruct (slice_okb (c_shape a) starts limits strides) eqn:E; [|discriminate]. injection H as <-.
  destruct (slice_okb_lengths _ _ _ _ E) as (E1 & E2 & E3 & E4).
  unfold ssem, enc_slice. simpl.
  destruct (slice_decode starts limits strides ltac:(congruence)) as [-> ->].
  rewrite firstn_length_app, E2, E3, <- E1, !Nat.eqb_refl.
  match goal with |- context [forallb ?f strides] => replace (forallb f strides) with true by (symmetry; exact E4) end.
  simpl. do 2 f_equal.
  rewrite <- (slice_correct starts limits strides (decanon a)) by exact E. reflexivity.
Qed.

(* ================================================================ iota / arange *)
(* jnp.arange(n) on integers: one Range node *)
Definition gk_arange (n : nat) : gkern := gk_node 0 "Range"%string [n] (fun _ => Some (tcanon (jax_iota [n] 0))).
Lemma gk_arange_ok n : sgkern_ok (gk_arange n).
Proof. apply gk_node_ok. intros [|? ?] out Hl H; [|discriminate]. injection H as <-. reflexivity. Qed.

Lemma iota_elem_law sb (i : nat) : (0 < snd sb)%Z -> (Z.of_nat i <= int_hi sb)%Z -> sem1 (OCast sb) (VZ (Z.of_nat i)) = VZ (Z.of_nat i).
Proof.
  intros Hb Hi. cbn [sem1]. unfold lift1. change (inj SZ) with VZ. rewrite prj_VZ. f_equal. unfold o_cast. apply wrap_id; [exact Hb|].
  unfold in_int. split; [|exact Hi]. destruct sb as [[|] b]; unfold int_lo; simpl in *; [|lia].
  assert (0 < 2 ^ (b - 1))%Z by (apply Z.pow_pos_nonneg; lia). lia.
Qed.
Definition iota_okb (sb : ity) (n : nat) : bool := (0 <? snd sb)%Z && (Z.of_nat n - 1 <=? int_hi sb)%Z.
(* lax.iota(dtype, (n,), 0): Range (int64) then Cast; exact while n - 1 fits the type *)
Definition gk_iota1 (sb : ity) (n : nat) : gkern :=
  mkG 0 (fun _ next => ([mkNode "Range"%string [n] [] [] [next]; mkNode (oname (OCast sb)) (enc_op (OCast sb)) [next] [] [S next]],
                        S next, S (S next)))
      (fun _ => if iota_okb sb n then Some (tcanon (jax_iota [n] 0)) else None).
Lemma gk_iota1_ok sb n : sgkern_ok (gk_iota1 sb n).
Proof.
  intros args next nodes res next' g Xs out Hem Hl Hla Hargs Hfr Hf. simpl in *. injection Hem as <- <- <-.
  destruct (iota_okb sb n) eqn:Eok; [|discriminate]. injection Hf as <-.
  unfold iota_okb in Eok. apply andb_prop in Eok as [Hb Hn]. apply Z.ltb_lt in Hb. apply Z.leb_le in Hn.
  set (T0 := tcanon (trange n)). set (T1 := tcanon (tmap (sem1 (OCast sb)) (decanon T0))).
  assert (HT : T1 = tcanon (jax_iota [n] 0)).
  { unfold T1. apply canon_teq. eapply teq_trans; [apply tmap_teq; unfold T0; apply decanon_canon|].
    split; [reflexivity|]. intros idx Hi. cbn [tmap trange jax_iota at_ shape] in *.
    inversion Hi as [|i d ir dr Hlt Hr]; subst. inversion Hr; subst. cbn [nth]. apply iota_elem_law; [exact Hb | lia]. }
  exists (upd cten (upd cten g next T0) (S next) T1). split.
  - rewrite eval_cons_s.
    assert (Hs0 : step cten ssem g (mkNode "Range"%string [n] [] [] [next]) = Some (upd cten g next T0)) by reflexivity.
    match goal with |- match ?St with _ => _ end = _ => replace St with (Some (upd cten g next T0)) by (symmetry; exact Hs0) end.
    rewrite eval_cons_s.
    match goal with |- match ?St with _ => _ end = _ =>
      replace St with (Some (upd cten (upd cten g next T0) (S next) T1))
        by (symmetry; apply (step_node1 ssem ssem_op _ (OCast sb)); [simpl; lia | reflexivity | apply upd_same]) end.
    reflexivity.
  - split; [lia|]. split; [intros m Hm; rewrite !upd_other by lia; reflexivity|].
    split; [intros m Hm; rewrite !upd_other by lia; apply Hfr; lia|].
    split; [rewrite upd_same; now rewrite HT|]. intro y. simpl. lia.
Qed.

(* lax.iota(dtype, shape, dimension) of rank > 1: Range, Unsqueeze to the extents [1 .. n .. 1] (a Reshape: the harness reads
   Unsqueeze(axes) of a statically shaped value as that Reshape), Expand to shape, Cast.  It is broadcast_in_dim of the
   vector along [dimension] *)
Lemma nth_in_range : forall (s : list nat) dim idx, in_range s idx -> dim < length s -> nth dim idx 0 < nth dim s 0.
Proof.
  induction s as [|d sh IH]; intros dim idx Hi Hdim; simpl in Hdim; [lia|].
  inversion Hi as [|i d' ir dr Hlt Hr]; subst. destruct dim as [|dim]; simpl; [exact Hlt | apply IH; [exact Hr | lia]].
Qed.
Definition gk_iota (sb : ity) (shape : list nat) (dim : nat) : gkern :=
  let n := nth dim shape 0 in
  mkG 0 (fun _ next => ([mkNode "Range"%string [n] [] [] [next];
                         mkNode "Reshape"%string (rsh (length shape) 0 [dim] [n]) [next] [] [S next];
                         mkNode "Expand"%string shape [S next] [] [S (S next)];
                         mkNode (oname (OCast sb)) (enc_op (OCast sb)) [S (S next)] [] [S (S (S next))]],
                        S (S (S next)), S (S (S (S next)))))
      (fun _ => if iota_okb sb n && bd_okb (length shape) 0 [dim] [n] shape && (dim <? length shape)
                then Some (tcanon (jax_iota shape dim)) else None).
Lemma gk_iota_ok sb shape dim : sgkern_ok (gk_iota sb shape dim).
Proof.
  intros args next nodes res next' g Xs out Hem Hl Hla Hargs Hfr Hf. simpl in *. injection Hem as <- <- <-.
  set (n := nth dim shape 0) in *.
  destruct (iota_okb sb n && bd_okb (length shape) 0 [dim] [n] shape && (dim <? length shape)) eqn:Eok; [|discriminate]. injection Hf as <-.
  apply andb_prop in Eok as [Eok Hdim]. apply andb_prop in Eok as [Eok Hbd]. apply Nat.ltb_lt in Hdim. apply bd_okb_spec in Hbd.
  unfold iota_okb in Eok. apply andb_prop in Eok as [Hb Hn]. apply Z.ltb_lt in Hb. apply Z.leb_le in Hn.
  set (rs := rsh (length shape) 0 [dim] [n]) in *.
  set (T0 := tcanon (trange n)). set (T1 := tcanon (reshape rs (decanon T0))).
  set (T2 := tcanon (texpand shape (decanon T1))). set (T3 := tcanon (tmap (sem1 (OCast sb)) (decanon T2))).
  assert (Hbd' : bd_ok (length shape) 0 [dim] (Tensor.shape (trange n)) shape) by exact Hbd.
  assert (HT : T3 = tcanon (jax_iota shape dim)).
  { unfold T3. apply canon_teq.
    eapply teq_trans; [apply tmap_teq; unfold T2; apply decanon_canon|].
    eapply teq_trans; [apply tmap_teq; apply texpand_teq; [unfold T1; apply decanon_canon | simpl; apply (rsh_bsub _ _ _ Hbd)]|].
    eapply teq_trans; [apply tmap_teq; apply texpand_teq;
                       [apply reshape_teq; [unfold T0; apply decanon_canon | simpl; unfold rs; rewrite (rsh_prod _ _ _ _ _ Hbd); reflexivity]
                       | simpl; apply (rsh_bsub _ _ _ Hbd)]|].
    eapply teq_trans; [apply tmap_teq; apply (broadcast_in_dim_correct shape [dim] (trange n) Hbd')|].
    split; [reflexivity|]. intros idx Hi. cbn [tmap jax_broadcast_in_dim jax_iota trange at_ Tensor.shape] in *.
    unfold bd_index. cbn [map2 nth]. unfold sel.
    assert (Hlt : nth dim idx 0 < n) by (unfold n; now apply nth_in_range).
    destruct (Nat.eqb_spec n 1) as [E1|E1].
    - replace (nth dim idx 0) with 0 by lia. apply iota_elem_law; [exact Hb | simpl; lia].
    - apply iota_elem_law; [exact Hb | lia]. }
  exists (upd cten (upd cten (upd cten (upd cten g next T0) (S next) T1) (S (S next)) T2) (S (S (S next))) T3). split.
  - rewrite eval_cons_s.
    assert (Hs0 : step cten ssem g (mkNode "Range"%string [n] [] [] [next]) = Some (upd cten g next T0)) by reflexivity.
    match goal with |- match ?St with _ => _ end = _ => replace St with (Some (upd cten g next T0)) by (symmetry; exact Hs0) end.
    rewrite eval_cons_s.
    assert (Hs1 : step cten ssem (upd cten g next T0) (mkNode "Reshape"%string rs [next] [] [S next])
                  = Some (upd cten (upd cten g next T0) (S next) T1)).
    { unfold step, n_uses; simpl. rewrite upd_same. unfold ssem. simpl.
      replace (prod rs =? n * 1) with true; [reflexivity|]. symmetry. apply Nat.eqb_eq.
      unfold rs. rewrite (rsh_prod _ _ _ _ _ Hbd). reflexivity. }
    match goal with |- match ?St with _ => _ end = _ => replace St with (Some (upd cten (upd cten g next T0) (S next) T1)) by (symmetry; exact Hs1) end.
    rewrite eval_cons_s.
    assert (Hs2 : step cten ssem (upd cten (upd cten g next T0) (S next) T1) (mkNode "Expand"%string shape [S next] [] [S (S next)])
                  = Some (upd cten (upd cten (upd cten g next T0) (S next) T1) (S (S next)) T2)).
    { unfold step, n_uses; simpl. rewrite upd_same. unfold ssem. simpl.
      change (c_shape T1) with rs. rewrite (bsubb_complete rs shape (rsh_bsub _ _ _ Hbd)). reflexivity. }
    match goal with |- match ?St with _ => _ end = _ =>
      replace St with (Some (upd cten (upd cten (upd cten g next T0) (S next) T1) (S (S next)) T2)) by (symmetry; exact Hs2) end.
    rewrite eval_cons_s.
    match goal with |- match ?St with _ => _ end = _ =>
      replace St with (Some (upd cten (upd cten (upd cten (upd cten g next T0) (S next) T1) (S (S next)) T2) (S (S (S next))) T3))
        by (symmetry; apply (step_node1 ssem ssem_op _ (OCast sb)); [simpl; lia | reflexivity | apply upd_same]) end.
    reflexivity.
  - split; [lia|]. split; [intros m Hm; rewrite !upd_other by lia; reflexivity|].
    split; [intros m Hm; rewrite !upd_other by lia; apply Hfr; lia|].
    split; [rewrite upd_same; now rewrite HT|]. intro y. simpl. lia.
Qed.

(* ================================================================ lax.select_n with three cases *)
(* select_n(which, c0, c1, c2) with an integer selector: Cast(int64), then a Where cascade  which = 2 ? c2 : (which = 1 ? c1 : c0);
   JAX: the case numbered [which], for 0 <= which <= 2 (anything else is outside JAX's contract) *)
Definition ke_select3 : kx :=
  KOp3 OWhere (KOp2 OEqual (KOp1 (OCast I64) v0) (kz 2)) (KVar 3) (KOp3 OWhere (KOp2 OEqual (KOp1 (OCast I64) v0) (kz 1)) v2 v1).
Definition jax_select3 (w c0 c1 c2 : Z) : Z := if (w =? 0)%Z then c0 else if (w =? 1)%Z then c1 else c2.
Definition ki_select3 : kern :=
  mkK 4 ke_select3
      (fun xs => VZ (jax_select3 (prj SZ (nth 0 xs sv0)) (prj SZ (nth 1 xs sv0)) (prj SZ (nth 2 xs sv0)) (prj SZ (nth 3 xs sv0))))
      (fun xs => match xs with
                 | [VZ w; VZ _; VZ _; VZ _] => (0 <=? w)%Z && (w <=? 2)%Z
                 | _ => false end).
Lemma ki_select3_ok : kern_ok ki_select3.
Proof.
  unfold kern_ok, ki_select3, ke_select3. cbn [k_expr k_arity k_jax k_dom]. split; [exact I|]. split; [cbn; repeat split; lia|]. split.
  - intros i Hi. destruct i as [|[|[|[|i]]]]; cbn; try tauto; lia.
  - intros xs Hl Hd. destruct xs as [|[w| |] [|[c0| |] [|[c1| |] [|[c2| |] [|? ?]]]]]; try discriminate.
    apply andb_prop in Hd as [H0 H2]. apply Z.leb_le in H0, H2.
    assert (Hw : w = 0%Z \/ w = 1%Z \/ w = 2%Z) by lia. destruct Hw as [-> | [-> | ->]]; reflexivity.
Qed.

(* ================================================================ the table of a traced program *)
(* what one equation of a real jaxpr is: primitive + static parameters (+ the operand's aval where the plugin reads it) *)
Inductive gspec :=
| GElem (name : string)                                  (* an elementwise exact kernel of LiftProg.exact_table *)
| GSelect3                                               (* select_n with an integer selector and three cases *)
| GConst (c : sval)                                      (* a literal operand *)
| GFull (s : list nat) (c : sval)                        (* broadcast_in_dim of a literal *)
| GReshape (new : list nat)
| GBcast (opshape target bd : list nat)
| GSqueeze (dims : list nat)
| GTranspose (perm : list nat)
| GReduce (rk : rkind) (sb : ity) (mask : list bool)     (* reduce_sum / prod / max / min over the masked axes *)
| GReduceSum64 (sb : ity) (mask : list bool)             (* reduce_sum on uint8 / uint16 / uint32 *)
| GReduceProd64 (sb : ity) (mask : list bool)            (* reduce_prod through an int64 work type *)
| GReduceMax32 (sb : ity) (mask : list bool) | GReduceMin32 (sb : ity) (mask : list bool)   (* through an int32 work type *)
| GReduceCast (rk : rkind) (sbw : ity) (mask : list bool)      (* jnp.sum / jnp.prod of small integers, in the promoted type *)
| GReduceCastB (rk : rkind) (sbw : ity) (mask : list bool)     (* ... of booleans *)
| GArg (rk : rkind) (sbi : ity) (mask : list bool)            (* argmax / argmin over one axis, index type sbi *)
| GArgId (rk : rkind) (mask : list bool)                        (* ... index type int64 *)
| GReduceAnd (mask : list bool) | GReduceOr (mask : list bool)
| GConcat (n axis : nat)
| GSlice (starts limits strides : list nat)
| GArange (n : nat) | GIota1 (sb : ity) (n : nat) | GIota (sb : ity) (shape : list nat) (dim : nat).
Definition gk_of (s : gspec) : option gkern :=
  match s with
  | GElem nm => option_map gk_elem (exact_table nm)
  | GSelect3 => Some (gk_elem ki_select3)
  | GConst c => Some (gk_const c)
  | GFull sh c => Some (gk_full sh c)
  | GReshape new => Some (gk_reshape new)
  | GBcast o t b => Some (gk_bcast o t b)
  | GSqueeze d => Some (gk_squeeze d)
  | GTranspose p => Some (gk_transpose p)
  | GReduce rk sb m => Some (gk_reduce rk sb m)
  | GReduceSum64 sb m => if (0 <=? snd sb)%Z then Some (gk_reduce_sum_via64 sb m) else None
  | GReduceProd64 sb m => if (0 <=? snd sb)%Z then Some (gk_reduce_prod_via64 sb m) else None
  | GReduceMax32 sb m => if (0 <=? snd sb)%Z then Some (gk_reduce_mm_via32 RMax sb m) else None
  | GReduceMin32 sb m => if (0 <=? snd sb)%Z then Some (gk_reduce_mm_via32 RMin sb m) else None
  | GReduceCast rk sbw m => match rk with
                            | RSum | RProd => if (0 <=? snd sbw)%Z then Some (gk_reduce_cast rk sbw m) else None
                            | _ => None end
  | GReduceCastB rk sbw m => if (0 <=? snd sbw)%Z then Some (gk_reduce_cast_bool rk sbw m) else None
  | GArg rk sbi m => match rk with
                     | RArgMax | RArgMin => if (0 <=? snd sbi)%Z then Some (gk_arg rk sbi m) else None
                     | _ => None end
  | GArgId rk m => match rk with RArgMax | RArgMin => Some (gk_arg_id rk m) | _ => None end
  | GReduceAnd m => Some (gk_reduce_and m)
  | GReduceOr m => Some (gk_reduce_or m)
  | GConcat n ax => Some (gk_concat n ax)
  | GSlice st li sr => Some (gk_slice st li sr)
  | GArange n => Some (gk_arange n)
  | GIota1 sb n => Some (gk_iota1 sb n)
  | GIota sb sh d => Some (gk_iota sb sh d)
  end.
Lemma gk_of_ok s k : gk_of s = Some k -> sgkern_ok k.
Proof.
  destruct s; simpl; intro H; try (injection H as <-).
  - destruct (exact_table name) as [k0|] eqn:E; [|discriminate]. injection H as <-. apply gk_elem_ok. now apply (exact_table_ok name).
  - apply gk_elem_ok. apply ki_select3_ok.
  - apply gk_const_ok.
  - apply gk_full_ok.
  - apply gk_reshape_ok.
  - apply gk_bcast_ok.
  - apply gk_squeeze_ok.
  - apply gk_transpose_ok.
  - apply gk_reduce_ok.
  - destruct (0 <=? snd sb)%Z eqn:E; [|discriminate]. injection H as <-. apply gk_reduce_sum_via64_ok. now apply Z.leb_le.
  - destruct (0 <=? snd sb)%Z eqn:E; [|discriminate]. injection H as <-. apply gk_reduce_prod_via64_ok. now apply Z.leb_le.
  - destruct (0 <=? snd sb)%Z eqn:E; [|discriminate]. injection H as <-. apply gk_reduce_mm_via32_ok; [now left | now apply Z.leb_le].
  - destruct (0 <=? snd sb)%Z eqn:E; [|discriminate]. injection H as <-. apply gk_reduce_mm_via32_ok; [now right | now apply Z.leb_le].
  - destruct rk; try discriminate; (destruct (0 <=? snd sbw)%Z eqn:E; [|discriminate]); injection H as <-;
      apply gk_reduce_cast_ok; try (now apply Z.leb_le); [now left | now right].
  - destruct (0 <=? snd sbw)%Z eqn:E; [|discriminate]. injection H as <-. apply gk_reduce_cast_bool_ok. now apply Z.leb_le.
  - destruct rk; try discriminate; (destruct (0 <=? snd sbi)%Z eqn:E; [|discriminate]); injection H as <-;
      apply gk_arg_ok; try (now apply Z.leb_le); [now left | now right].
  - destruct rk; try discriminate; injection H as <-; apply gk_arg_id_ok; [now left | now right].
  - apply gk_reduce_and_ok.
  - apply gk_reduce_or_ok.
  - apply gk_concat_ok.
  - apply gk_slice_ok.
  - apply gk_arange_ok.
  - apply gk_iota1_ok.
  - apply gk_iota_ok.
Qed.
Fixpoint slookup (p : string) (l : list (string * gspec)) : option gspec :=
  match l with [] => None | (q, s) :: r => if String.eqb p q then Some s else slookup p r end.
Definition stable (l : list (string * gspec)) : gtable :=
  fun p => match slookup p l with Some s => gk_of s | None => None end.
Lemma stable_ok l p k : stable l p = Some k -> sgkern_ok k.
Proof. unfold stable. destruct (slookup p l) as [s|]; [apply gk_of_ok | discriminate]. Qed.

(* the literal value LoweringSem threads through is unused: literals are constant equations *)
Definition slit : cten := cdummy.

(* every registry built from such a table meets the plugin contract *)
Theorem struct_registry_meets_plugin_contract l :
  eqn_contract cten (gpsem (stable l)) ssem (greg (stable l)) slit.
Proof. exact (greg_contract ssem (stable l) slit (stable_ok l)). Qed.

(* FULL-STRENGTH C01 FOR TRACED INTEGER PROGRAMS: every jaxpr over elementwise exact kernels, literals, reshape,
   broadcast_in_dim, squeeze, transpose — any length, any wiring, any rank and extent — whenever the dispatcher lowers it
   and the JAX program is defined on the inputs, the emitted nodes evaluate under the tensor-level ONNX semantics and every
   bound variable (every program output) carries exactly the JAX value *)
Theorem struct_program_correct l :
  forall jp s s', slower_jaxpr (greg (stable l)) s jp = Ok s' ->
  forall r g r', related cten s r g -> jeval cten (gpsem (stable l)) slit jp r = Some r' ->
  exists new g', s_nodes s' = s_nodes s ++ new /\ sgeval new g = Some g' /\ genv_le cten g g' /\ related cten s' r' g'.
Proof. exact (struct_fragment_correct ssem (stable l) slit (stable_ok l)). Qed.

(* ================================================================ tie S for traced programs: graphs as trees *)
Inductive gtree := GIn (i : nat) | GBad | GNode (op : string) (ats : list nat) (kids : list gtree).
Fixpoint tlookup (x : vname) (env : list (vname * gtree)) : gtree :=
  match env with [] => GBad | (y, t) :: r => if Nat.eqb x y then t else tlookup x r end.
Fixpoint trees (ns : list node) (env : list (vname * gtree)) : list (vname * gtree) :=
  match ns with
  | [] => env
  | n :: r => trees r ((hd 0 (n_outs n), GNode (n_op n) (n_attrs n) (map (fun x => tlookup x env) (n_ins n))) :: env)
  end.
(* the tree computing graph value [out]; the graph inputs are the names 0 .. ninputs-1 *)
Definition tree_of_nodes (ninputs : nat) (ns : list node) (out : vname) : gtree :=
  tlookup out (trees ns (map (fun i => (i, GIn i)) (seq 0 ninputs))).
(* the real export, as read off the ONNX file by the harness *)
Inductive rtree :=
| RIn (i : nat) | RConst (c : sval) | RFull (s : list nat) (c : sval)
| ROp1 (o : oop) (a : rtree) | ROp2 (o : oop) (a b : rtree) | ROp3 (o : oop) (a b c : rtree)
| RReshape (s : list nat) (a : rtree) | RExpand (s : list nat) (a : rtree)
| RSqueeze (axes : list nat) (a : rtree) | RTranspose (perm : list nat) (a : rtree)
| RReduce (rk : rkind) (sb : ity) (mask : list bool) (a : rtree)
| RConcat (axis : nat) (kids : list rtree)
| RSlice (starts ends steps : list nat) (a : rtree)
| RRange (n : nat).
Fixpoint gtree_of (t : rtree) : gtree :=
  match t with
  | RIn i => GIn i
  | RConst c => GNode "Constant" (enc_const c) []
  | RFull s c => GNode "ConstantFull" (enc_full s c) []
  | ROp1 o a => GNode (oname o) (enc_op o) [gtree_of a]
  | ROp2 o a b => GNode (oname o) (enc_op o) [gtree_of a; gtree_of b]
  | ROp3 o a b c => GNode (oname o) (enc_op o) [gtree_of a; gtree_of b; gtree_of c]
  | RReshape s a => GNode "Reshape" s [gtree_of a]
  | RExpand s a => GNode "Expand" s [gtree_of a]
  | RSqueeze ax a => GNode "Squeeze" ax [gtree_of a]
  | RTranspose p a => GNode "Transpose" p [gtree_of a]
  | RReduce rk sb m a => GNode (rname rk) (enc_red sb m) [gtree_of a]
  | RConcat ax l => GNode "Concat" [ax] (map gtree_of l)
  | RSlice st en sp a => GNode "Slice" (enc_slice st en sp) [gtree_of a]
  | RRange n => GNode "Range" [n] []
  end%string.

(* ---- non-vacuity: a traced program    (x * 2 + y) with x : int32[2,3], y : int32[3]
        jaxpr:  c = mul a 2 ; d:[1,3] = broadcast_in_dim[(1,)] b ; e = add c d *)
Local Open Scope string_scope.
Definition sx_tab : list (string * gspec) :=
  [("lit2", GConst (VZ 2%Z)); ("mul:int32", GElem "mul:int32"); ("bcast", GBcast [3] [1; 3] [1]); ("add:int32", GElem "add:int32")].
Definition sx_prog : jaxpr :=
  [mkEqn "lit2" [] [Some 2]; mkEqn "mul:int32" [IVar 0; IVar 2] [Some 3]; mkEqn "bcast" [IVar 1] [Some 4];
   mkEqn "add:int32" [IVar 3; IVar 4] [Some 5]].
Definition sx_s0 : sctx := mkS [(1, 1); (0, 0)] [0; 1] [].
Definition sx_cx : cten := mkC [2; 3] (map VZ [1; 5; -7; 2147483647; 0; 4]%Z).
Definition sx_cy : cten := mkC [3] (map VZ [2; 5; -9]%Z).
Definition sx_g0 : env cten := fun n => match n with 0 => Some sx_cx | 1 => Some sx_cy | _ => None end.
Definition sx_r0 : jenv cten := fun v => match v with 0 => Some sx_cx | 1 => Some sx_cy | _ => None end.
Example sx_prog_tree :
  match slower_jaxpr (greg (stable sx_tab)) sx_s0 sx_prog with
  | Ok s' => match bound (erase s') 5 with Some o => Some (tree_of_nodes 2 (s_nodes s') o) | None => None end
  | Err _ => None
  end = Some (gtree_of (ROp2 (OAdd I32) (ROp2 (OMul I32) (RIn 0) (RConst (VZ 2%Z))) (RExpand [1; 3] (RReshape [1; 3] (RIn 1))))).
Proof. vm_compute. reflexivity. Qed.
Example sx_prog_jax : match jeval cten (gpsem (stable sx_tab)) slit sx_prog sx_r0 with Some r' => r' 5 | None => None end
  = Some (mkC [2; 3] (map VZ [4; 15; -23; 0; 5; -1]%Z)).
Proof. vm_compute. reflexivity. Qed.
Example sx_prog_onnx :
  match slower_jaxpr (greg (stable sx_tab)) sx_s0 sx_prog with
  | Ok s' => match sgeval (s_nodes s') sx_g0, bound (erase s') 5 with Some g', Some o => g' o | _, _ => None end
  | Err _ => None
  end = Some (mkC [2; 3] (map VZ [4; 15; -23; 0; 5; -1]%Z)).
Proof. vm_compute. reflexivity. Qed.
Local Close Scope string_scope.

(* ================================================================ what the harness evaluates for a traced program *)
Definition sval_eqb (a b : sval) : bool :=
  match a, b with
  | VZ x, VZ y => Z.eqb x y
  | VB x, VB y => Bool.eqb x y
  | VQ (n, d), VQ (n', d') => Z.eqb n n' && Z.eqb d d'
  | _, _ => false
  end.
Definition cten_eqb (a b : cten) : bool :=
  nat_list_eqb (c_shape a) (c_shape b) && forallb2 sval_eqb (c_data a) (c_data b).
Definition sp_s0 (nin : nat) : sctx := mkS (rev (map (fun i => (i, i)) (seq 0 nin))) (seq 0 nin) [].
Definition sp_env (ins : list cten) : env cten := fun n => nth_error ins n.
(* the tree of the graph the MODEL emits for the program's output variable *)
Definition sp_tree (tab : list (string * gspec)) (prog : jaxpr) (nin out : nat) : option gtree :=
  match slower_jaxpr (greg (stable tab)) (sp_s0 nin) prog with
  | Ok s' => match bound (erase s') out with Some o => Some (tree_of_nodes nin (s_nodes s') o) | None => None end
  | Err _ => None
  end.
(* the JAX value of the output variable (tensor-level JAX semantics of every equation) *)
Definition sp_jax (tab : list (string * gspec)) (prog : jaxpr) (ins : list cten) (out : nat) : option cten :=
  match jeval cten (gpsem (stable tab)) slit prog (sp_env ins) with Some r' => r' out | None => None end.
(* the value of the emitted graph under the tensor-level ONNX semantics *)
Definition sp_onnx (tab : list (string * gspec)) (prog : jaxpr) (ins : list cten) (out : nat) : option cten :=
  match slower_jaxpr (greg (stable tab)) (sp_s0 (length ins)) prog with
  | Ok s' => match sgeval (s_nodes s') (sp_env ins), bound (erase s') out with Some g', Some o => g' o | _, _ => None end
  | Err _ => None
  end.
Definition opt_cten_is (a : option cten) (b : cten) : bool := match a with Some x => cten_eqb x b | None => false end.
Example sx_sp : sp_tree sx_tab sx_prog 2 5 = Some (gtree_of (ROp2 (OAdd I32) (ROp2 (OMul I32) (RIn 0) (RConst (VZ 2%Z))) (RExpand [1; 3] (RReshape [1; 3] (RIn 1)))))
  /\ opt_cten_is (sp_jax sx_tab sx_prog [sx_cx; sx_cy] 5) (mkC [2; 3] (map VZ [4; 15; -23; 0; 5; -1]%Z)) = true
  /\ opt_cten_is (sp_onnx sx_tab sx_prog [sx_cx; sx_cy] 5) (mkC [2; 3] (map VZ [4; 15; -23; 0; 5; -1]%Z)) = true.
Proof. vm_compute. repeat split. Qed.


(* ================================================================ traced programs WITH nested jit (LiftCall) *)
(* the registry / JAX semantics of a table of primitives extended by the calls of the program, innermost first *)
Definition nsem (l : list (string * gspec)) (cs : list (string * call)) := ext_all cten (gpsem (stable l)) (greg (stable l)) slit cs.
Theorem struct_nested_program_correct l cs :
  forall jp s s', slower_jaxpr (snd (nsem l cs)) s jp = Ok s' ->
  forall r g r', related cten s r g -> jeval cten (fst (nsem l cs)) slit jp r = Some r' ->
  exists new g', s_nodes s' = s_nodes s ++ new /\ sgeval new g = Some g' /\ genv_le cten g g' /\ related cten s' r' g'.
Proof. exact (nested_program_correct cten ssem cs _ _ slit (struct_registry_meets_plugin_contract l)). Qed.
(* what the harness evaluates for a program whose jit bodies are NOT flattened *)
Definition spn_tree l cs (prog : jaxpr) (nin out : nat) : option gtree :=
  match slower_jaxpr (snd (nsem l cs)) (sp_s0 nin) prog with
  | Ok s' => match bound (erase s') out with Some o => Some (tree_of_nodes nin (s_nodes s') o) | None => None end
  | Err _ => None
  end.
Definition spn_jax l cs (prog : jaxpr) (ins : list cten) (out : nat) : option cten :=
  match jeval cten (fst (nsem l cs)) slit prog (sp_env ins) with Some r' => r' out | None => None end.
Definition spn_onnx l cs (prog : jaxpr) (ins : list cten) (out : nat) : option cten :=
  match slower_jaxpr (snd (nsem l cs)) (sp_s0 (length ins)) prog with
  | Ok s' => match sgeval (s_nodes s') (sp_env ins), bound (erase s') out with Some g', Some o => g' o | _, _ => None end
  | Err _ => None
  end.
(* non-vacuity:  jit(lambda a, b: a * 2 + b)(x, y) - x   with the body kept as a call *)
Local Open Scope string_scope.
Definition nx_tab : list (string * gspec) :=
  [("lit2", GConst (VZ 2%Z)); ("mul:int32", GElem "mul:int32"); ("add:int32", GElem "add:int32"); ("sub:int32", GElem "sub:int32")].
Definition nx_calls : list (string * call) :=
  [("call#0", mkCall [mkEqn "lit2" [] [Some 2]; mkEqn "mul:int32" [IVar 0; IVar 2] [Some 3]; mkEqn "add:int32" [IVar 3; IVar 1] [Some 4]] [0; 1] 4)].
Definition nx_prog : jaxpr := [mkEqn "call#0" [IVar 0; IVar 1] [Some 2]; mkEqn "sub:int32" [IVar 2; IVar 0] [Some 3]].
Example nx_sp :
  spn_tree nx_tab nx_calls nx_prog 2 3
    = Some (gtree_of (ROp2 (OSub I32) (ROp2 (OAdd I32) (ROp2 (OMul I32) (RIn 0) (RConst (VZ 2%Z))) (RIn 1)) (RIn 0)))
  /\ opt_cten_is (spn_jax nx_tab nx_calls nx_prog [sx_cx; mkC [2; 3] (map VZ [1; 1; 1; 1; 1; 1]%Z)] 3)
                 (mkC [2; 3] (map VZ [2; 6; -6; -2147483648; 1; 5]%Z)) = true
  /\ opt_cten_is (spn_onnx nx_tab nx_calls nx_prog [sx_cx; mkC [2; 3] (map VZ [1; 1; 1; 1; 1; 1]%Z)] 3)
                 (mkC [2; 3] (map VZ [2; 6; -6; -2147483648; 1; 5]%Z)) = true.
Proof. vm_compute. repeat split. Qed.
Local Close Scope string_scope.
