(* LiftStruct (C01): the program-level theorem of LiftProg extended from table primitives to the STRUCTURAL primitives
   that real jaxprs of integer programs contain — constants (literals), broadcast_in_dim, reshape, squeeze, transpose —
   next to every elementwise exact kernel.
     gkern          an abstract kernel: how many operands, the nodes it emits on fresh names, its tensor-level JAX
                    semantics; gkern_ok = the emitted nodes evaluate (tensor-level ONNX semantics) to exactly that value;
     greg_contract  every registry of ok kernels meets LoweringSem.eqn_contract  (generalises LiftProg.kreg_contract);
     gk_elem        every elementwise exact kernel of LiftProg is such a kernel (by Lift.keval_lift);
     gk_const / gk_reshape / gk_bcast / gk_squeeze / gk_transpose   the structural kernels with their theorems
                    ONNX graph == JAX index semantics, all ranks and extents;
     struct_fragment_correct   every jaxpr over a registry of such kernels lowers to a graph computing the JAX value. *)
From Coq Require Import String List Bool Arith Lia ZArith PeanoNat.
From J2O Require Import PyLib Dtype Tensor Batch Reshape Graph Lowering LoweringSem OnnxInt Kernels Lift LiftProg.
Import ListNotations.

(* ================================================================ abstract kernels *)
Record gkern := mkG {
  g_arity : nat;
  g_emit : list vname -> vname -> list node * vname * vname;       (* operand names, first fresh name -> nodes, result, next fresh *)
  g_sem : list cten -> option cten }.                               (* tensor-level JAX semantics (None: outside the domain) *)

Section GK.
  Variable sem : string -> list nat -> list cten -> option (list cten).        (* the node semantics in force *)
  Notation geval := (eval cten sem).

  (* the emitted nodes compute the kernel's JAX value on a FRESH name and touch nothing else *)
  Definition gkern_ok (k : gkern) : Prop :=
    forall args next nodes res next' (g : genv) Xs out,
      g_emit k args next = (nodes, res, next') -> length Xs = g_arity k -> length args = g_arity k ->
      (forall i, i < length Xs -> nth i args 0 < next /\ g (nth i args 0) = Some (nth i Xs cdummy)) ->
      fresh_from g next -> g_sem k Xs = Some out ->
      exists g', geval nodes g = Some g' /\ next <= res < next' /\
        (forall m, m < next -> g' m = g m) /\ fresh_from g' next' /\ g' res = Some out /\
        (forall x, In x (defs nodes) <-> next <= x < next').

  Definition gtable := string -> option gkern.
  Definition gpsem (tab : gtable) (p : string) (vals : list cten) : option (list cten) :=
    match tab p with
    | Some k => if Nat.eqb (length vals) (g_arity k) then match g_sem k vals with Some o => Some [o] | None => None end else None
    | None => None
    end.
  (* operands may be bound variables only (literals are constant equations of their own, see gk_const) *)
  Fixpoint gresolve (s : sctx) (ins : list invar) : option (list vname) :=
    match ins with
    | [] => Some []
    | IVar v :: r => match bound (erase s) v, gresolve s r with Some n, Some ar => Some (n :: ar) | _, _ => None end
    | ILit :: _ => None
    end.
  Definition gplugin (k : gkern) : splugin := fun s e =>
    if negb (Nat.eqb (length (e_ins e)) (g_arity k)) then Err EPlugin else
    match e_outs e with
    | [o] =>
        match gresolve s (e_ins e) with
        | None => Err EUnboundInput
        | Some args =>
            let '(nodes, res, n2) := g_emit k args (fresh_above s) in
            Ok (mkS (match o with Some v => (v, res) :: s_bind s | None => s_bind s end) (s_inputs s) (s_nodes s ++ nodes), RNone)
        end
    | _ => Err EPlugin
    end.
  Definition greg (tab : gtable) : sregistry := fun p => option_map gplugin (tab p).

  Section Contract.
    Variable tab : gtable.
    Variable lit : cten.
    Hypothesis tab_ok : forall p k, tab p = Some k -> gkern_ok k.

    Lemma gresolve_correct s r g : related cten s r g ->
      forall ins args vals, gresolve s ins = Some args -> jreads cten r lit ins = Some vals ->
      forall i, i < length vals -> nth i args 0 < fresh_above s /\ g (nth i args 0) = Some (nth i vals cdummy).
    Proof.
      intros [Hr1 Hr2]. induction ins as [|[v|] ins IH]; intros args vals Hres Hread i Hi; simpl in *.
      - injection Hread as <-. simpl in Hi. lia.
      - destruct (bound (erase s) v) as [n|] eqn:Eb; [|discriminate].
        destruct (gresolve s ins) as [ar|] eqn:Er; [|discriminate]. injection Hres as <-.
        destruct (r v) as [a|] eqn:Erv; [|discriminate].
        destruct (jreads cten r lit ins) as [vs|] eqn:Ejr; [|discriminate]. injection Hread as <-.
        destruct (Hr1 v n Eb) as (a' & Ha' & Hgn). rewrite Erv in Ha'. injection Ha' as <-.
        destruct i as [|i]; simpl in *.
        + split; [|exact Hgn]. apply connected_lt_fresh. eapply Hr2. exact Hgn.
        + apply (IH ar vs eq_refl eq_refl). lia.
      - discriminate.
    Qed.

    Lemma gresolve_length s : forall ins args, gresolve s ins = Some args -> length args = length ins.
    Proof.
      induction ins as [|[v|] ins IH]; intros args H; simpl in H; [now injection H as <- | | discriminate].
      destruct (bound (erase s) v); [|discriminate]. destruct (gresolve s ins) as [ar|]; [|discriminate].
      injection H as <-. simpl. f_equal. now apply IH.
    Qed.

    Theorem greg_contract : eqn_contract cten (gpsem tab) sem (greg tab) lit.
    Proof.
      intros s e s' H. unfold slower_eqn, greg in H.
      destruct (tab (e_prim e)) as [k|] eqn:Et; simpl in H; [|discriminate].
      destruct (negb (inputs_bound (erase s) e)); [discriminate|].
      unfold gplugin in H.
      destruct (negb (Nat.eqb (length (e_ins e)) (g_arity k))) eqn:Ear; [discriminate|].
      apply negb_false_iff, Nat.eqb_eq in Ear.
      destruct (e_outs e) as [|o [|? ?]] eqn:Eo; try discriminate.
      destruct (gresolve s (e_ins e)) as [args|] eqn:Er; [|discriminate].
      destruct (g_emit k args (fresh_above s)) as [[nodes res] n2] eqn:Em.
      set (s1 := mkS (match o with Some v => (v, res) :: s_bind s | None => s_bind s end) (s_inputs s) (s_nodes s ++ nodes)) in *.
      rewrite bind_returned_RNone in H.
      destruct (outputs_ok (erase s1) (non_drop e)) as [[]|x] eqn:Eout; [|discriminate].
      injection H as <-.
      exists nodes. split; [reflexivity|]. split; [reflexivity|]. split.
      - intros w Hw. unfold non_drop in Hw. rewrite Eo in Hw. unfold bound. simpl.
        destruct o as [v|]; simpl in *; [|reflexivity].
        destruct (Nat.eqb_spec v w) as [->|]; [exfalso; apply Hw; now left | reflexivity].
      - intros r g vals outs Hrel Hread Hsem Hlen.
        pose proof Hrel as [Hr1 Hr2].
        unfold gpsem in Hsem. rewrite Et in Hsem.
        destruct (Nat.eqb (length vals) (g_arity k)) eqn:Hlenb; [|discriminate]. apply Nat.eqb_eq in Hlenb.
        destruct (g_sem k vals) as [out|] eqn:Esem; [|discriminate]. injection Hsem as <-.
        assert (Hfr0 : fresh_from g (fresh_above s)).
        { intros m Hm. destruct (g m) as [a|] eqn:E; [|reflexivity]. apply Hr2 in E. apply connected_lt_fresh in E. lia. }
        pose proof (gresolve_correct s r g Hrel (e_ins e) args vals Er Hread) as Hidx.
        destruct (tab_ok _ _ Et args (fresh_above s) nodes res n2 g vals out Em Hlenb ltac:(rewrite (gresolve_length s _ _ Er); exact Ear) Hidx Hfr0 Esem)
          as (g2 & Hev & Hres & Hkeep & Hfr2 & Hgres & Hdefs).
        exists g2. split; [exact Hev|].
        assert (Hle : genv_le cten g g2).
        { intros n a Hn. assert (Hlt : n < fresh_above s) by (apply connected_lt_fresh; eapply Hr2; exact Hn).
          rewrite Hkeep by lia. exact Hn. }
        split; [exact Hle|]. split.
        + intros w n Hb. unfold bound in Hb. simpl in Hb.
          destruct o as [v|]; simpl in *.
          * destruct (Nat.eqb_spec v w) as [->|Hne].
            -- injection Hb as <-. exists out. rewrite Nat.eqb_refl. split; [reflexivity | exact Hgres].
            -- destruct (Hr1 w n Hb) as (a & Hra & Hga). exists a.
               destruct (Nat.eqb_spec w v) as [->|]; [contradiction|]. split; [exact Hra | now apply Hle].
          * destruct (Hr1 w n Hb) as (a & Hra & Hga). exists a. split; [exact Hra | now apply Hle].
        + intros n a Hn. apply connected_In. simpl. rewrite defs_app.
          destruct (Nat.lt_ge_cases n (fresh_above s)) as [Hlt|Hge].
          * rewrite Hkeep in Hn by lia. apply Hr2, connected_In in Hn. simpl in Hn.
            apply in_app_or in Hn as [Hn|Hn]; apply in_or_app; [now left | right; apply in_or_app; now left].
          * assert (Hn2 : n < n2).
            { destruct (Nat.lt_ge_cases n n2) as [Hl|Hg]; [exact Hl|]. rewrite (Hfr2 n Hg) in Hn. discriminate. }
            apply in_or_app. right. apply in_or_app. right. apply Hdefs. lia.
    Qed.

    Theorem struct_fragment_correct :
      forall jp s s', slower_jaxpr (greg tab) s jp = Ok s' ->
      forall r g r', related cten s r g -> jeval cten (gpsem tab) lit jp r = Some r' ->
      exists new g', s_nodes s' = s_nodes s ++ new /\ geval new g = Some g' /\ genv_le cten g g' /\ related cten s' r' g'.
    Proof. exact (lower_jaxpr_correct cten (gpsem tab) sem (greg tab) lit greg_contract). Qed.
  End Contract.
End GK.

(* ================================================================ structural tensor operators (index functions) *)
(* ONNX Expand to a shape the operand broadcasts to *)
Definition texpand {A} (s : list nat) (X : tensor A) : tensor A := mkT s (fun idx => bcast_at X idx).
(* Squeeze: mask.(j) = true iff axis j (of extent 1) is removed *)
Fixpoint squeeze_shape (mask : list bool) (s : list nat) : list nat :=
  match mask, s with
  | m :: mr, d :: sr => if m then squeeze_shape mr sr else d :: squeeze_shape mr sr
  | _, _ => s
  end.
Fixpoint unsqueeze_idx (mask : list bool) (idx : list nat) : list nat :=
  match mask with
  | [] => idx
  | true :: mr => 0 :: unsqueeze_idx mr idx
  | false :: mr => match idx with i :: ir => i :: unsqueeze_idx mr ir | [] => [] end
  end.
Definition tsqueeze {A} (mask : list bool) (X : tensor A) : tensor A :=
  mkT (squeeze_shape mask (shape X)) (fun idx => at_ X (unsqueeze_idx mask idx)).
Definition axes_mask (rank : nat) (axes : list nat) : list bool := map (fun j => existsb (Nat.eqb j) axes) (seq 0 rank).
Fixpoint squeezable (mask : list bool) (s : list nat) : bool :=
  match mask, s with
  | m :: mr, d :: sr => (if m then d =? 1 else true) && squeezable mr sr
  | [], [] => true
  | _, _ => false
  end.

(* ---- lax.broadcast_in_dim(x, shape, broadcast_dimensions):  out[idx] = x[ idx[bd_k] (0 where x has extent 1) ]_k *)
Definition bd_index (bd xs idx : list nat) : list nat := map2 (fun b d => sel (nth b idx 0) d) bd xs.
Definition jax_broadcast_in_dim {A} (target bd : list nat) (X : tensor A) : tensor A :=
  mkT target (fun idx => at_ X (bd_index bd (shape X) idx)).
(* the plugin: Reshape to the operand's extents placed at the broadcast dimensions (1 elsewhere), then Expand *)
Fixpoint rsh (n j : nat) (bd xs : list nat) : list nat :=
  match n with
  | 0 => []
  | S n' => match bd, xs with
            | b :: bt, d :: dt => if b =? j then d :: rsh n' (S j) bt dt else 1 :: rsh n' (S j) bd xs
            | _, _ => 1 :: rsh n' (S j) bd xs
            end
  end.
Definition lowered_broadcast_in_dim {A} (target bd : list nat) (X : tensor A) : tensor A :=
  texpand target (reshape (rsh (length target) 0 bd (shape X)) X).

(* bd is strictly increasing inside [j, j + n), one entry per operand axis, every operand extent is 1 or the target's *)
Fixpoint bd_ok (n j : nat) (bd xs tgt : list nat) : Prop :=
  match n, tgt with
  | 0, [] => bd = [] /\ xs = []
  | S n', t :: tr => match bd, xs with
                     | b :: bt, d :: dt => if b =? j then (d = 1 \/ d = t) /\ bd_ok n' (S j) bt dt tr
                                           else j < b /\ bd_ok n' (S j) bd xs tr
                     | [], [] => bd_ok n' (S j) [] [] tr
                     | _, _ => False
                     end
  | _, _ => False
  end.
(* the operand index read for the output index, collected by the same scan *)
Fixpoint projsel (n j : nat) (bd xs idx : list nat) : list nat :=
  match n, idx with
  | S n', i :: ir => match bd, xs with
                     | b :: bt, d :: dt => if b =? j then sel i d :: projsel n' (S j) bt dt ir else projsel n' (S j) bd xs ir
                     | _, _ => projsel n' (S j) bd xs ir
                     end
  | _, _ => []
  end.

Lemma rsh_length n : forall j bd xs, length (rsh n j bd xs) = n.
Proof. induction n as [|n IH]; intros j bd xs; simpl; [reflexivity|]. destruct bd, xs; simpl; try (now rewrite IH). destruct (n0 =? j); simpl; now rewrite IH. Qed.
Lemma rsh_prod n : forall j bd xs tgt, bd_ok n j bd xs tgt -> prod (rsh n j bd xs) = prod xs.
Proof.
  induction n as [|n IH]; intros j bd xs tgt H; destruct tgt as [|t tr]; simpl in H; try contradiction.
  - destruct H as [-> ->]. reflexivity.
  - simpl. destruct bd as [|b bt], xs as [|d dt]; try contradiction.
    + simpl. rewrite (IH _ _ _ _ H). simpl. lia.
    + destruct (b =? j); destruct H as [H1 H2]; simpl; rewrite (IH _ _ _ _ H2); simpl; lia.
Qed.
Lemma rsh_flatten n : forall j bd xs tgt idx, bd_ok n j bd xs tgt -> length idx = n ->
  flatten (rsh n j bd xs) (map2 sel idx (rsh n j bd xs)) = flatten xs (projsel n j bd xs idx).
Proof.
  induction n as [|n IH]; intros j bd xs tgt idx H Hl; destruct tgt as [|t tr]; simpl in H; try contradiction.
  - destruct H as [-> ->]. destruct idx; reflexivity.
  - destruct idx as [|i ir]; [discriminate|]. simpl in Hl. injection Hl as Hl.
    destruct bd as [|b bt], xs as [|d dt]; try contradiction.
    + simpl. rewrite (IH _ _ _ _ _ H Hl). unfold sel. simpl. reflexivity.
    + simpl. destruct (b =? j) eqn:E; destruct H as [H1 H2]; simpl.
      * rewrite (IH _ _ _ _ _ H2 Hl), (rsh_prod _ _ _ _ _ H2). reflexivity.
      * exact (IH _ _ _ _ _ H2 Hl).
Qed.
(* the scan reads exactly the entries of the output index at the broadcast dimensions *)
Lemma projsel_nth n : forall j bd xs tgt idx0, bd_ok n j bd xs tgt -> length idx0 = j + n ->
  projsel n j bd xs (skipn j idx0) = bd_index bd xs idx0.
Proof.
  unfold bd_index.
  induction n as [|n IH]; intros j bd xs tgt idx0 H Hl; destruct tgt as [|t tr]; simpl in H; try contradiction.
  - destruct H as [-> ->]. destruct (skipn j idx0); reflexivity.
  - rewrite (@skipn_cons_nth nat 0 j idx0) by lia.
    destruct bd as [|b bt], xs as [|d dt]; try contradiction.
    + cbn [projsel map2]. apply (IH (S j) [] [] tr idx0 H). lia.
    + cbn [projsel]. destruct (Nat.eqb_spec b j) as [->|Hne]; destruct H as [H1 H2].
      * cbn [map2]. f_equal. apply (IH (S j) bt dt tr idx0 H2). lia.
      * apply (IH (S j) (b :: bt) (d :: dt) tr idx0 H2). lia.
Qed.
Lemma projsel_in_range n : forall j bd xs tgt idx, bd_ok n j bd xs tgt -> in_range tgt idx ->
  in_range xs (projsel n j bd xs idx).
Proof.
  induction n as [|n IH]; intros j bd xs tgt idx H Hr; destruct tgt as [|t tr]; simpl in H; try contradiction.
  - destruct H as [-> ->]. inversion Hr. constructor.
  - inversion Hr as [|i t' ir tr' Hit Hrr]; subst. simpl.
    destruct bd as [|b bt], xs as [|d dt]; try contradiction.
    + apply (IH _ _ _ _ _ H Hrr).
    + destruct (b =? j); destruct H as [H1 H2].
      * constructor; [|apply (IH _ _ _ _ _ H2 Hrr)]. unfold sel. destruct (Nat.eqb_spec d 1); [lia|]. destruct H1; [contradiction | lia].
      * apply (IH _ _ _ _ _ H2 Hrr).
Qed.

(* broadcast_in_dim: the emitted Reshape + Expand computes the JAX index semantics, for every rank and extent *)
Theorem broadcast_in_dim_correct {A} (target bd : list nat) (X : tensor A) :
  bd_ok (length target) 0 bd (shape X) target ->
  teq (lowered_broadcast_in_dim target bd X) (jax_broadcast_in_dim target bd X).
Proof.
  intro H. split; [reflexivity|]. intros idx Hi. cbn [lowered_broadcast_in_dim texpand reshape jax_broadcast_in_dim shape at_] in *.
  pose proof (in_range_length Hi) as Hl.
  unfold bcast_at. cbn [shape at_ reshape].
  rewrite balign_full by (now rewrite rsh_length).
  rewrite (rsh_flatten _ _ _ _ _ idx H Hl).
  rewrite unflatten_flatten by (now apply projsel_in_range with (tgt := target)).
  rewrite <- (projsel_nth _ 0 bd (shape X) target idx H) by (simpl; lia). reflexivity.
Qed.

(* ================================================================ node semantics with the structural operators *)
Local Open Scope string_scope.
(* static shapes: the target shape / axes / permutation (an initializer input in ONNX) is the node's payload *)
Definition ssem (op : string) (ats : list nat) (vals : list cten) : option (list cten) :=
  if String.eqb op "Reshape" then
    match vals with [a] => if Nat.eqb (prod ats) (prod (c_shape a)) then Some [tcanon (reshape ats (decanon a))] else None | _ => None end
  else if String.eqb op "Expand" then
    match vals with [a] => if bsubb (c_shape a) ats then Some [tcanon (texpand ats (decanon a))] else None | _ => None end
  else if String.eqb op "Squeeze" then
    match vals with
    | [a] => let mask := axes_mask (length (c_shape a)) ats in
             if squeezable mask (c_shape a) then Some [tcanon (tsqueeze mask (decanon a))] else None
    | _ => None end
  else if String.eqb op "Transpose" then
    match vals with
    | [a] => if is_permb ats && Nat.eqb (length ats) (length (c_shape a)) then Some [tcanon (transpose ats (decanon a))] else None
    | _ => None end
  else kgsem cdummy op ats vals.
Lemma ssem_op o vals : osb_ok o -> ssem (oname o) (enc_op o) vals = gsem_op o vals.
Proof. intro H. unfold ssem. rewrite <- (kgsem_op cdummy o vals H). destruct o; reflexivity. Qed.
Lemma ssem_const c : ssem "Constant" (enc_const c) [] = Some [tcanon (tscalar c)].
Proof. unfold ssem. simpl. apply kgsem_const. Qed.
Local Close Scope string_scope.

Notation sgeval := (eval cten ssem).
Notation sgkern_ok := (gkern_ok ssem).

Lemma lookups_args (g : genv) : forall args Xs, length args = length Xs ->
  (forall i, i < length Xs -> g (nth i args 0) = Some (nth i Xs cdummy)) -> lookups cten g args = Some Xs.
Proof.
  induction args as [|a args IH]; intros [|X Xs] Hl H; simpl in *; try discriminate; [reflexivity|].
  rewrite (H 0 ltac:(lia)). rewrite (IH Xs); [reflexivity | lia | intros i Hi; apply (H (S i)); lia].
Qed.

(* a kernel lowered to ONE node over its operands *)
Definition gk_node (ar : nat) (op : string) (ats : list nat) (f : list cten -> option cten) : gkern :=
  mkG ar (fun args next => ([mkNode op ats args [] [next]], next, S next)) f.
Lemma gk_node_ok ar op ats f :
  (forall Xs out, length Xs = ar -> f Xs = Some out -> ssem op ats Xs = Some [out]) -> sgkern_ok (gk_node ar op ats f).
Proof.
  intros Hsem args next nodes res next' g Xs out Hem Hl Hla Hargs Hfr Hf. simpl in *. injection Hem as <- <- <-.
  exists (upd cten g next out). split.
  - simpl. unfold step, n_uses; simpl. rewrite app_nil_r.
    rewrite (lookups_args g args Xs (eq_trans Hla (eq_sym Hl)) (fun i Hi => proj2 (Hargs i Hi))).
    rewrite (Hsem Xs out Hl Hf). simpl. reflexivity.
  - split; [lia|]. split; [intros m Hm; apply upd_other; lia|]. split; [intros m Hm; rewrite upd_other by lia; apply Hfr; lia|].
    split; [apply upd_same|]. intro x. simpl. lia.
Qed.

(* ---- constants (the literals of a jaxpr): a Constant node *)
Definition gk_const (c : sval) : gkern := gk_node 0 "Constant"%string (enc_const c) (fun _ => Some (tcanon (tscalar c))).
Lemma gk_const_ok c : sgkern_ok (gk_const c).
Proof. apply gk_node_ok. intros [|? ?] out Hl H; [|discriminate]. injection H as <-. apply ssem_const. Qed.

(* ---- reshape (row major), squeeze, transpose: one node each, the ONNX operator IS the JAX index semantics *)
Definition jax_reshape_sem (new : list nat) (Xs : list cten) : option cten :=
  match Xs with [a] => if Nat.eqb (prod new) (prod (c_shape a)) then Some (tcanon (reshape new (decanon a))) else None | _ => None end.
Definition gk_reshape (new : list nat) : gkern := gk_node 1 "Reshape"%string new (jax_reshape_sem new).
Lemma gk_reshape_ok new : sgkern_ok (gk_reshape new).
Proof.
  apply gk_node_ok. intros [|a [|? ?]] out Hl H; try discriminate. unfold jax_reshape_sem in H. unfold ssem. simpl.
  destruct (Nat.eqb (prod new) (prod (c_shape a))); [now injection H as <- | discriminate].
Qed.
Definition jax_squeeze_sem (dims : list nat) (Xs : list cten) : option cten :=
  match Xs with
  | [a] => let mask := axes_mask (length (c_shape a)) dims in
           if squeezable mask (c_shape a) then Some (tcanon (tsqueeze mask (decanon a))) else None
  | _ => None end.
Definition gk_squeeze (dims : list nat) : gkern := gk_node 1 "Squeeze"%string dims (jax_squeeze_sem dims).
Lemma gk_squeeze_ok dims : sgkern_ok (gk_squeeze dims).
Proof.
  apply gk_node_ok. intros [|a [|? ?]] out Hl H; try discriminate. unfold jax_squeeze_sem in H. unfold ssem. simpl.
  destruct (squeezable (axes_mask (length (c_shape a)) dims) (c_shape a)); [now injection H as <- | discriminate].
Qed.
Definition jax_transpose_sem (perm : list nat) (Xs : list cten) : option cten :=
  match Xs with
  | [a] => if is_permb perm && Nat.eqb (length perm) (length (c_shape a)) then Some (tcanon (transpose perm (decanon a))) else None
  | _ => None end.
Definition gk_transpose (perm : list nat) : gkern := gk_node 1 "Transpose"%string perm (jax_transpose_sem perm).
Lemma gk_transpose_ok perm : sgkern_ok (gk_transpose perm).
Proof.
  apply gk_node_ok. intros [|a [|? ?]] out Hl H; try discriminate. unfold jax_transpose_sem in H. unfold ssem. simpl.
  destruct (is_permb perm && Nat.eqb (length perm) (length (c_shape a))); [now injection H as <- | discriminate].
Qed.

(* ---- broadcast_in_dim: Reshape + Expand; the operand's static shape (its aval) fixes the Reshape target *)
Lemma Forall2_forallb2 {A B} (f : A -> B -> bool) (R : A -> B -> Prop) (Hf : forall a b, R a b -> f a b = true) :
  forall l m, Forall2 R l m -> forallb2 f l m = true.
Proof. induction 1; simpl; [reflexivity|]. rewrite (Hf _ _ H). exact IHForall2. Qed.
Lemma bsubb_complete s t : bsub s t -> bsubb s t = true.
Proof.
  intros [H1 H2]. unfold bsubb. apply andb_true_intro. split; [now apply Nat.leb_le|].
  apply (Forall2_forallb2 dsubb dsub); [|exact H2]. intros a b [-> | ->]; unfold dsubb; [reflexivity|]. rewrite Nat.eqb_refl. apply orb_true_r.
Qed.
Lemma rsh_dsub n : forall j bd xs tgt, bd_ok n j bd xs tgt -> Forall2 dsub (rsh n j bd xs) tgt.
Proof.
  induction n as [|n IH]; intros j bd xs tgt H; destruct tgt as [|t tr]; simpl in H; try contradiction; [constructor|].
  simpl. destruct bd as [|b bt], xs as [|d dt]; try contradiction.
  - constructor; [now left | now apply IH].
  - destruct (b =? j); destruct H as [H1 H2]; (constructor; [|now apply IH]); [exact H1 | now left].
Qed.
Lemma rsh_bsub bd xs tgt : bd_ok (length tgt) 0 bd xs tgt -> bsub (rsh (length tgt) 0 bd xs) tgt.
Proof. intro H. split; rewrite rsh_length; [lia|]. rewrite lastn_all. now apply rsh_dsub. Qed.
Lemma texpand_teq {A} s (X Y : tensor A) : teq X Y -> bsub (shape X) s -> teq (texpand s X) (texpand s Y).
Proof.
  intros [Hs H] Hb. split; [reflexivity|]. intros idx Hi. simpl in *. unfold bcast_at. rewrite <- Hs. apply H.
  now apply balign_in_range_sub with (u := s).
Qed.

Fixpoint bd_okb (n j : nat) (bd xs tgt : list nat) : bool :=
  match n, tgt with
  | 0, [] => match bd, xs with [], [] => true | _, _ => false end
  | S n', t :: tr => match bd, xs with
                     | b :: bt, d :: dt => if b =? j then ((d =? 1) || (d =? t)) && bd_okb n' (S j) bt dt tr
                                           else (j <? b) && bd_okb n' (S j) bd xs tr
                     | [], [] => bd_okb n' (S j) [] [] tr
                     | _, _ => false
                     end
  | _, _ => false
  end.
Lemma bd_okb_spec n : forall j bd xs tgt, bd_okb n j bd xs tgt = true -> bd_ok n j bd xs tgt.
Proof.
  induction n as [|n IH]; intros j bd xs tgt H; destruct tgt as [|t tr]; simpl in *; try discriminate.
  - destruct bd, xs; try discriminate. now split.
  - destruct bd as [|b bt], xs as [|d dt]; try discriminate; [now apply IH|].
    destruct (b =? j); apply andb_prop in H as [H1 H2]; (split; [|now apply IH]).
    + apply orb_prop in H1 as [H1|H1]; apply Nat.eqb_eq in H1; [now left | now right].
    + now apply Nat.ltb_lt.
Qed.

Definition jax_bcast_sem (opshape target bd : list nat) (Xs : list cten) : option cten :=
  match Xs with
  | [a] => if nat_list_eqb (c_shape a) opshape && bd_okb (length target) 0 bd opshape target
           then Some (tcanon (jax_broadcast_in_dim target bd (decanon a))) else None
  | _ => None
  end.
Definition gk_bcast (opshape target bd : list nat) : gkern :=
  mkG 1 (fun args next =>
           ([mkNode "Reshape"%string (rsh (length target) 0 bd opshape) args [] [next];
             mkNode "Expand"%string target [next] [] [S next]], S next, S (S next)))
      (jax_bcast_sem opshape target bd).
Lemma gk_bcast_ok opshape target bd : sgkern_ok (gk_bcast opshape target bd).
Proof.
  intros args next nodes res next' g Xs out Hem Hl Hla Hargs Hfr Hf. simpl in *. injection Hem as <- <- <-.
  destruct Xs as [|a [|? ?]]; try discriminate. destruct args as [|x [|? ?]]; try discriminate.
  unfold jax_bcast_sem in Hf.
  destruct (nat_list_eqb (c_shape a) opshape && bd_okb (length target) 0 bd opshape target) eqn:Ec; [|discriminate].
  apply andb_prop in Ec as [Es Eb]. apply nat_list_eqb_eq in Es. apply bd_okb_spec in Eb. subst opshape. injection Hf as <-.
  destruct (Hargs 0 ltac:(simpl; lia)) as [Hx Hgx]. simpl in Hx, Hgx.
  set (rs := rsh (length target) 0 bd (c_shape a)) in *.
  set (T1 := tcanon (reshape rs (decanon a))).
  set (out := tcanon (jax_broadcast_in_dim target bd (decanon a))).
  exists (upd cten (upd cten g next T1) (S next) out). split.
  - simpl. unfold step, n_uses; simpl. rewrite Hgx. unfold ssem at 1. simpl.
    replace (prod rs =? prod (c_shape a)) with true by (symmetry; apply Nat.eqb_eq; apply (rsh_prod _ _ _ _ _ Eb)).
    simpl. fold T1. rewrite upd_same. unfold ssem. simpl.
    rewrite (bsubb_complete rs target (rsh_bsub _ _ _ Eb)). simpl.
    replace (tcanon (texpand target (decanon T1))) with out; [reflexivity|].
    unfold out, T1. apply canon_teq. apply teq_sym.
    eapply teq_trans; [|apply (broadcast_in_dim_correct target bd (decanon a) Eb)].
    apply texpand_teq; [apply decanon_canon|]. simpl. apply (rsh_bsub _ _ _ Eb).
  - split; [lia|]. split; [intros m Hm; rewrite !upd_other by lia; reflexivity|].
    split; [intros m Hm; rewrite !upd_other by lia; apply Hfr; lia|].
    split; [apply upd_same|]. intro y. simpl. lia.
Qed.

(* ---- every elementwise exact kernel of LiftProg (the whole exact_table, integer convert_element_type included) *)
Lemma emit_res_fresh e args next nodes res next' :
  match e with KVar _ => False | _ => True end -> emit e args next = (nodes, res, next') -> next <= res.
Proof.
  intros Hr Hem. destruct e as [i|c|o a|o a b|o a b c]; try contradiction; simpl in Hem.
  - now injection Hem as <- <- <-.
  - destruct (emit a args next) as [[na ra] n1] eqn:Ea. injection Hem as <- <- <-. apply (emit_defs a _ _ _ _ _ Ea).
  - destruct (emit a args next) as [[na ra] n1] eqn:Ea. destruct (emit b args n1) as [[nb rb] n2] eqn:Eb. injection Hem as <- <- <-.
    pose proof (proj1 (emit_defs a _ _ _ _ _ Ea)). pose proof (proj1 (emit_defs b _ _ _ _ _ Eb)). lia.
  - destruct (emit a args next) as [[na ra] n1] eqn:Ea. destruct (emit b args n1) as [[nb rb] n2] eqn:Eb.
    destruct (emit c args n2) as [[nc rc] n3] eqn:Ec. injection Hem as <- <- <-.
    pose proof (proj1 (emit_defs a _ _ _ _ _ Ea)). pose proof (proj1 (emit_defs b _ _ _ _ _ Eb)). pose proof (proj1 (emit_defs c _ _ _ _ _ Ec)). lia.
Qed.

Definition jax_elem_sem (k : kern) (vals : list cten) : option cten :=
  if commonb (map c_shape vals) &&
     tforallb (bshape_all (map c_shape vals)) (fun idx => k_dom k (map (fun X => bcast_at X idx) (dX vals)))
  then Some (tcanon (tmapN (k_jax k) (dX vals))) else None.
Definition gk_elem (k : kern) : gkern := mkG (k_arity k) (emit (k_expr k)) (jax_elem_sem k).
Lemma gk_elem_ok k : kern_ok k -> sgkern_ok (gk_elem k).
Proof.
  intros (Hroot & Hkok & Huses & Hsound) args next nodes res next' g vals out Em Hlenb Hla Hidx Hfr Hf. simpl in *.
  unfold jax_elem_sem in Hf.
  destruct (commonb (map c_shape vals) &&
            tforallb (bshape_all (map c_shape vals)) (fun idx => k_dom k (map (fun X => bcast_at X idx) (dX vals)))) eqn:Econd; [|discriminate].
  injection Hf as <-. apply andb_prop in Econd as [Hcomb Hdomb]. apply commonb_spec in Hcomb.
  assert (Hkok' : kok (length vals) (k_expr k)) by (rewrite Hlenb; exact Hkok).
  assert (Hcn : forall i, bsub (nth i (map c_shape vals) []) (bshape_all (map c_shape vals))) by (apply bcommon_nth; exact Hcomb).
  destruct (kwf_of_common (k_expr k) (map c_shape vals) Hcn) as [Hwf _].
  destruct (emit_correct ssem ssem_op ssem_const (k_expr k) args next nodes res next' g vals Em Hkok' Hwf Hidx Hfr)
    as (g2 & T & Hev2 & Hle2 & Hres & Hkeep2 & Hfr2 & Hgres & _ & HT).
  assert (HTeq : T = tcanon (tmapN (k_jax k) (dX vals))).
  { destruct (k_expr k) eqn:Eke; try contradiction; rewrite HT; apply canon_teq;
      rewrite <- Eke in *;
      (apply (@keval_t_tmapN_ext sval oop oop oop sem1 sem2 sem3 sv0 (k_expr k) (dX vals) (bshape_all (map c_shape vals)));
       [rewrite shapes_dX; exact Hcomb
       | intros i Hi; apply Huses; unfold dX in Hi; rewrite map_length in Hi; lia
       | intros idx Hi; rewrite shapes_dX in Hi; apply Hsound;
         [rewrite map_length; unfold dX; rewrite map_length; exact Hlenb | exact (tforallb_spec _ _ Hdomb idx Hi)]]). }
  exists g2. split; [exact Hev2|]. split; [split; [apply (emit_res_fresh (k_expr k) args next nodes res next' Hroot Em) | exact Hres]|].
  split; [exact Hkeep2|]. split; [exact Hfr2|]. split; [now rewrite <- HTeq|].
  apply (proj2 (emit_defs (k_expr k) args next nodes res next' Em)).
Qed.
