(* Dtype: the ONNX element types (codes 0..26 as in onnx.TensorProto / onnx_ir.DataType). *)
From Coq Require Import ZArith List Bool Lia.
From J2O Require Import PyLib.
Import ListNotations.
Local Open Scope Z_scope.

Inductive dtype :=
 | DT_UNDEFINED | DT_FLOAT | DT_UINT8 | DT_INT8 | DT_UINT16 | DT_INT16 | DT_INT32 | DT_INT64
 | DT_STRING | DT_BOOL | DT_FLOAT16 | DT_DOUBLE | DT_UINT32 | DT_UINT64 | DT_COMPLEX64
 | DT_COMPLEX128 | DT_BFLOAT16 | DT_FLOAT8E4M3FN | DT_FLOAT8E4M3FNUZ | DT_FLOAT8E5M2
 | DT_FLOAT8E5M2FNUZ | DT_UINT4 | DT_INT4 | DT_FLOAT4E2M1 | DT_FLOAT8E8M0 | DT_UINT2 | DT_INT2.

Definition all_dtypes : list dtype :=
 [DT_UNDEFINED; DT_FLOAT; DT_UINT8; DT_INT8; DT_UINT16; DT_INT16; DT_INT32; DT_INT64;
  DT_STRING; DT_BOOL; DT_FLOAT16; DT_DOUBLE; DT_UINT32; DT_UINT64; DT_COMPLEX64;
  DT_COMPLEX128; DT_BFLOAT16; DT_FLOAT8E4M3FN; DT_FLOAT8E4M3FNUZ; DT_FLOAT8E5M2;
  DT_FLOAT8E5M2FNUZ; DT_UINT4; DT_INT4; DT_FLOAT4E2M1; DT_FLOAT8E8M0; DT_UINT2; DT_INT2].

Scheme Equality for dtype.
Definition dtype_eqb := dtype_beq.

Lemma dtype_eqb_eq a b : dtype_eqb a b = true <-> a = b.
Proof. split; [apply internal_dtype_dec_bl | apply internal_dtype_dec_lb]. Qed.

Lemma all_dtypes_complete d : In d all_dtypes.
Proof. destruct d; simpl; tauto. Qed.

(* ir.DataType(code): None = ValueError *)
Definition dtype_of_code (c : Z) : option dtype :=
  if (0 <=? c) && (c <? 27) then nth_error all_dtypes (Z.to_nat c) else None.

Fixpoint index_of_dtype (d : dtype) (l : list dtype) : Z :=
  match l with [] => 0 | x :: r => if dtype_eqb x d then 0 else 1 + index_of_dtype d r end.
Definition code_of (d : dtype) : Z := index_of_dtype d all_dtypes.

Lemma dtype_of_code_of d : dtype_of_code (code_of d) = Some d.
Proof. destruct d; reflexivity. Qed.

Lemma code_of_dtype_of c d : dtype_of_code c = Some d -> code_of d = c.
Proof.
  unfold dtype_of_code. destruct ((0 <=? c) && (c <? 27)) eqn:E; [|discriminate].
  apply andb_prop in E as [E1 E2]. apply Z.leb_le in E1. apply Z.ltb_lt in E2.
  assert (H : exists n, (n < 27)%nat /\ c = Z.of_nat n).
  { exists (Z.to_nat c). split; [lia | now rewrite Z2Nat.id]. }
  destruct H as [n [Hn ->]]. rewrite Nat2Z.id.
  do 27 (destruct n as [|n]; [simpl; intro H; injection H as <-; reflexivity|]). lia.
Qed.

(* integer types: signedness and bit width (reference table, independent of the library dump) *)
Definition int_info (d : dtype) : option (bool * Z) :=
  match d with
  | DT_UINT8 => Some (false, 8) | DT_INT8 => Some (true, 8)
  | DT_UINT16 => Some (false, 16) | DT_INT16 => Some (true, 16)
  | DT_INT32 => Some (true, 32) | DT_INT64 => Some (true, 64)
  | DT_UINT32 => Some (false, 32) | DT_UINT64 => Some (false, 64)
  | DT_UINT4 => Some (false, 4) | DT_INT4 => Some (true, 4)
  | DT_UINT2 => Some (false, 2) | DT_INT2 => Some (true, 2)
  | _ => None
  end.

Definition int_lo (sb : bool * Z) : Z := let '(s, b) := sb in if s then - 2 ^ (b - 1) else 0.
Definition int_hi (sb : bool * Z) : Z := let '(s, b) := sb in if s then 2 ^ (b - 1) - 1 else 2 ^ b - 1.
Definition in_int (sb : bool * Z) (v : Z) : Prop := int_lo sb <= v <= int_hi sb.

(* two's-complement wrap of an arbitrary integer into the type *)
Definition wrap (sb : bool * Z) (v : Z) : Z :=
  let '(s, b) := sb in
  if s then (v + 2 ^ (b - 1)) mod 2 ^ b - 2 ^ (b - 1) else v mod 2 ^ b.

Lemma wrap_id sb v : 0 < snd sb -> in_int sb v -> wrap sb v = v.
Proof.
  destruct sb as [s b]; unfold in_int, int_lo, int_hi, wrap; simpl; intros Hb [Hlo Hhi].
  assert (Hp : 2 ^ b = 2 * 2 ^ (b - 1)).
  { replace b with (1 + (b - 1)) at 1 by lia. rewrite Z.pow_add_r by lia. reflexivity. }
  assert (0 < 2 ^ (b - 1)) by (apply Z.pow_pos_nonneg; lia).
  destruct s.
  - rewrite Z.mod_small by lia. lia.
  - rewrite Z.mod_small by lia. reflexivity.
Qed.

(* standard binary float formats: (precision, min subnormal exponent, max normal exponent) *)
Definition float_fmt (d : dtype) : option (Z * Z * Z) :=
  match d with
  | DT_FLOAT16 => Some (11, -24, 15) | DT_BFLOAT16 => Some (8, -133, 127)
  | DT_FLOAT => Some (24, -149, 127) | DT_DOUBLE => Some (53, -1074, 1023)
  | _ => None
  end.
Definition complex_fmt (d : dtype) : option (Z * Z * Z) :=
  match d with DT_COMPLEX64 => float_fmt DT_FLOAT | DT_COMPLEX128 => float_fmt DT_DOUBLE | _ => None end.

Inductive dclass := CBool | CInt | CFloat | CComplex | COther.
Definition dtype_class (d : dtype) : dclass :=
  match d with
  | DT_BOOL => CBool
  | DT_COMPLEX64 | DT_COMPLEX128 => CComplex
  | DT_FLOAT | DT_DOUBLE | DT_FLOAT16 | DT_BFLOAT16
  | DT_FLOAT8E4M3FN | DT_FLOAT8E4M3FNUZ | DT_FLOAT8E5M2 | DT_FLOAT8E5M2FNUZ | DT_FLOAT4E2M1 | DT_FLOAT8E8M0 => CFloat
  | DT_UNDEFINED | DT_STRING => COther
  | _ => CInt
  end.
