(* ElemCommute (C02): the tensor algebra behind the "Reshape/Transpose -> elementwise chain -> inverse" folds.
     flat_eq x y          x and y have the same row-major flattening (shapes may differ, even in rank)
     pwn F vs             the ONNX n-ary pointwise operator with numpy broadcasting, on operand lists in which every
                          operand either has the shape of the first one or is a one-element tensor (of ANY rank:
                          a one-element operand of higher rank left-pads the result shape with 1s)
   Laws: Reshape preserves flat_eq; pwn maps flat_eq operands to flat_eq results (so it commutes with every reshape);
   flat_eq + equal shapes = teq; pwn commutes with Transpose when no one-element operand outranks the data operand. *)
From Coq Require Import List Arith Lia Bool PeanoNat.
From J2O Require Import Tensor Reshape.
Import ListNotations.

Section Flat.
  Context {A : Type}.
  Notation T := (tensor A).

  Definition flat_eq (x y : T) : Prop :=
    prod (shape x) = prod (shape y) /\
    forall k, k < prod (shape x) -> at_ x (unflatten (shape x) k) = at_ y (unflatten (shape y) k).

  Lemma flat_eq_refl x : flat_eq x x.
  Proof. split; auto. Qed.
  Lemma flat_eq_sym x y : flat_eq x y -> flat_eq y x.
  Proof. intros [Hp H]. split; [now symmetry|]. intros k Hk. symmetry. apply H. now rewrite Hp. Qed.
  Lemma flat_eq_trans x y z : flat_eq x y -> flat_eq y z -> flat_eq x z.
  Proof.
    intros [Hp1 H1] [Hp2 H2]. split; [congruence|]. intros k Hk. rewrite H1 by exact Hk. apply H2. now rewrite <- Hp1.
  Qed.

  Lemma teq_flat_eq x y : teq x y -> flat_eq x y.
  Proof.
    intros [Hs H]. split; [now rewrite Hs|]. intros k Hk. rewrite <- Hs. apply H. now apply unflatten_in_range.
  Qed.

  Lemma flat_eq_shape_teq x y : flat_eq x y -> shape x = shape y -> teq x y.
  Proof.
    intros [Hp H] Hs. split; [exact Hs|]. intros idx Hi.
    pose proof (flatten_lt _ _ Hi) as Hlt. specialize (H _ Hlt).
    rewrite <- Hs in H. now rewrite unflatten_flatten in H by exact Hi.
  Qed.

  Lemma reshape_flat_eq s (x : T) : prod s = prod (shape x) -> flat_eq (reshape s x) x.
  Proof.
    intro Hp. split; [exact Hp|]. simpl. intros k Hk. now rewrite flatten_unflatten by exact Hk.
  Qed.

  (* ---- one-element tensors *)
  Definition all1 (s : list nat) : bool := forallb (Nat.eqb 1) s.
  Definition sval (v : T) : A := at_ v (repeat 0 (length (shape v))).

  Lemma all1_prod s : all1 s = true -> prod s = 1.
  Proof.
    induction s as [|d s IH]; intro H; [reflexivity|]. unfold all1 in *. cbn [forallb] in H. apply andb_prop in H as [H1 H2].
    apply Nat.eqb_eq in H1. subst d. cbn [prod]. rewrite IH by exact H2. reflexivity.
  Qed.
  Lemma prod1_all1 s : prod s = 1 -> all1 s = true.
  Proof.
    induction s as [|d s IH]; intro H; [reflexivity|]. cbn [prod] in H.
    assert (Hd : d = 1 /\ prod s = 1).
    { destruct d as [|[|d]]; [simpl in H; lia | split; [reflexivity | lia] |].
      destruct (prod s) as [|[|p]]; [lia | lia | exfalso; nia]. }
    destruct Hd as [-> Hp]. unfold all1 in *. cbn [forallb]. rewrite Nat.eqb_refl. now apply IH.
  Qed.
  Lemma unflatten_0 s : unflatten s 0 = repeat 0 (length s).
  Proof.
    induction s as [|d s IH]; simpl; auto.
    assert (H0 : 0 / prod s = 0 /\ 0 mod prod s = 0).
    { destruct (prod s) as [|p] eqn:E; [split; reflexivity|]. split; [apply Nat.div_0_l | apply Nat.mod_0_l]; lia. }
    destruct H0 as [-> ->]. now rewrite IH.
  Qed.

  Lemma flat_eq_scalar v w : all1 (shape v) = true -> flat_eq v w -> all1 (shape w) = true /\ sval v = sval w.
  Proof.
    intros H1 [Hp H]. pose proof (all1_prod _ H1) as Hp1. split.
    - apply prod1_all1. congruence.
    - unfold sval. rewrite <- !unflatten_0. apply H. lia.
  Qed.

  (* ---- n-ary pointwise operators under broadcasting against one-element operands *)
  Definition opnd (d : nat) (v : T) (idx : list nat) : A :=
    if all1 (shape v) then sval v else at_ v (skipn d idx).
  Definition prank (vs : list T) : nat := fold_right (fun v r => Nat.max (length (shape v)) r) 0 vs.
  (* the common shape of the operands that are not one-element tensors ([] when there is none) *)
  Definition full_shape (vs : list T) : list nat :=
    match find (fun v => negb (all1 (shape v))) vs with Some x => shape x | None => [] end.
  Definition pwn (F : list A -> A) (vs : list T) : T :=
    let s := full_shape vs in
    let d := prank vs - length s in
    mkT (repeat 1 d ++ s) (fun idx => F (map (fun v => opnd d v idx) vs)).
  (* every operand is a one-element tensor (of any rank) or has the common full shape *)
  Definition operands_ok (vs : list T) : Prop :=
    Forall (fun v => all1 (shape v) = true \/ shape v = full_shape vs) vs.

  Lemma prod_pad d s : prod (repeat 1 d ++ s) = prod s.
  Proof. induction d as [|d IH]; simpl; auto. rewrite IH. lia. Qed.

  Lemma unflatten_pad d s k : k < prod s -> skipn d (unflatten (repeat 1 d ++ s) k) = unflatten s k.
  Proof.
    intro Hk. induction d as [|d IH]; simpl; auto.
    rewrite prod_pad. rewrite (Nat.mod_small k (prod s)) by exact Hk. exact IH.
  Qed.

  Lemma prank_le n vs : Forall (fun v => length (shape v) <= n) vs -> prank vs <= n.
  Proof. induction 1 as [|v r Hv _ IH]; simpl; lia. Qed.
  Lemma prank_ge vs v : In v vs -> length (shape v) <= prank vs.
  Proof. induction vs as [|w r IH]; simpl; intro H; [contradiction|]. destruct H as [<-|H]; [lia | specialize (IH H); lia]. Qed.

  Lemma all1_repeat n : all1 (repeat 1 n) = true.
  Proof. induction n; simpl; auto. Qed.
  Lemma all1_eq_repeat s : all1 s = true -> s = repeat 1 (length s).
  Proof.
    induction s as [|d s IH]; intro H; [reflexivity|]. unfold all1 in *. cbn [forallb] in H. apply andb_prop in H as [H1 H2].
    apply Nat.eqb_eq in H1. subst d. simpl. f_equal. now apply IH.
  Qed.

  (* the operands that matter to a fold: the data operand x, copies of it, and one-element side operands *)
  Lemma full_shape_data x vs : In x vs -> Forall (fun v => all1 (shape v) = true \/ shape v = shape x) vs ->
    (all1 (shape x) = false -> full_shape vs = shape x) /\
    (all1 (shape x) = true -> full_shape vs = [] /\ Forall (fun v => all1 (shape v) = true) vs).
  Proof.
    intros Hin Hall. unfold full_shape. split; intro Hx.
    - destruct (find _ vs) as [y|] eqn:Ef.
      + apply find_some in Ef as [Hy Hny]. apply negb_true_iff in Hny. rewrite Forall_forall in Hall.
        destruct (Hall _ Hy); congruence.
      + pose proof (find_none _ _ Ef x Hin) as H. simpl in H. rewrite Hx in H. discriminate.
    - assert (Hs : Forall (fun v => all1 (shape v) = true) vs).
      { rewrite Forall_forall in *. intros v Hv. destruct (Hall v Hv) as [H|H]; auto. now rewrite H. }
      split; auto. destruct (find _ vs) as [y|] eqn:Ef; auto.
      apply find_some in Ef as [Hy Hny]. rewrite Forall_forall in Hs. rewrite (Hs _ Hy) in Hny. discriminate.
  Qed.

  Lemma operands_ok_data x vs : In x vs -> Forall (fun v => all1 (shape v) = true \/ shape v = shape x) vs -> operands_ok vs.
  Proof.
    intros Hin Hall. destruct (full_shape_data x vs Hin Hall) as [H0 H1]. unfold operands_ok.
    destruct (all1 (shape x)) eqn:Ex.
    - destruct (H1 eq_refl) as [_ Hs]. rewrite Forall_forall in *. intros v Hv. left. now apply Hs.
    - rewrite (H0 eq_refl). exact Hall.
  Qed.

  Lemma pwn_shape_data F x vs : In x vs -> Forall (fun v => all1 (shape v) = true \/ shape v = shape x) vs ->
    Forall (fun v => length (shape v) <= length (shape x)) vs -> shape (pwn F vs) = shape x.
  Proof.
    intros Hin Hall Hrk. destruct (full_shape_data x vs Hin Hall) as [H0 H1].
    pose proof (prank_le _ _ Hrk) as Hle. pose proof (prank_ge vs x Hin) as Hge.
    unfold pwn. cbn [shape]. destruct (all1 (shape x)) eqn:Ex.
    - destruct (H1 eq_refl) as [-> _]. simpl. rewrite app_nil_r, Nat.sub_0_r.
      replace (prank vs) with (length (shape x)) by lia. symmetry. now apply all1_eq_repeat.
    - rewrite (H0 eq_refl). replace (prank vs - length (shape x)) with 0 by lia. reflexivity.
  Qed.

  Lemma map_Forall2_eq {B C D} (f : B -> D) (g : C -> D) l l' :
    Forall2 (fun b c => f b = g c) l l' -> map f l = map g l'.
  Proof. induction 1; simpl; congruence. Qed.

  Lemma Forall2_imp {B C} (R R' : B -> C -> Prop) l l' : (forall b c, R b c -> R' b c) -> Forall2 R l l' -> Forall2 R' l l'.
  Proof. intro H. induction 1; constructor; auto. Qed.

  Lemma Forall2_and_Forall {B C} (R : B -> C -> Prop) (P : B -> Prop) (Q : C -> Prop) l l' :
    Forall2 R l l' -> Forall P l -> Forall Q l' -> Forall2 (fun b c => R b c /\ P b /\ Q c) l l'.
  Proof.
    induction 1 as [|b c l l' Hr _ IH]; intros HP HQ; constructor.
    - inversion HP; inversion HQ; subst; auto.
    - inversion HP; inversion HQ; subst; auto.
  Qed.

  (* positionally corresponding lists whose elements agree on a test have corresponding first hits *)
  Lemma find_Forall2 {B C} (R : B -> C -> Prop) (f : B -> bool) (g : C -> bool) l l' :
    Forall2 (fun b c => R b c /\ f b = g c) l l' ->
    match find f l, find g l' with Some b, Some c => R b c | None, None => True | _, _ => False end.
  Proof.
    induction 1 as [|b c l l' [Hr Hfg] _ IH]; simpl; auto. rewrite <- Hfg. destruct (f b); auto.
  Qed.

  Lemma flat_eq_all1 v w : flat_eq v w -> all1 (shape v) = all1 (shape w).
  Proof.
    intro H. destruct (all1 (shape v)) eqn:E.
    - symmetry. exact (proj1 (flat_eq_scalar _ _ E H)).
    - destruct (all1 (shape w)) eqn:E'; auto.
      rewrite (proj1 (flat_eq_scalar _ _ E' (flat_eq_sym _ _ H))) in E. discriminate.
  Qed.

  (* THE commutation law for every reshape (and every rank change by left-padding with 1s): *)
  Theorem pwn_flat F vs vs' :
    Forall2 flat_eq vs vs' -> operands_ok vs -> operands_ok vs' -> flat_eq (pwn F vs) (pwn F vs').
  Proof.
    intros H2 Hok Hok'. unfold operands_ok in Hok, Hok'.
    assert (Hfs : prod (full_shape vs) = prod (full_shape vs')).
    { unfold full_shape.
      assert (Hc : Forall2 (fun v w => flat_eq v w /\ negb (all1 (shape v)) = negb (all1 (shape w))) vs vs').
      { eapply Forall2_imp; [|exact H2]. intros v w H. split; auto. now rewrite (flat_eq_all1 _ _ H). }
      pose proof (find_Forall2 _ _ _ _ _ Hc) as Hf.
      destruct (find _ vs), (find _ vs'); try contradiction; auto. exact (proj1 Hf). }
    pose proof (Forall2_and_Forall _ _ _ _ _ H2 Hok Hok') as Hc. clear H2 Hok Hok'.
    unfold pwn. split; cbn [shape at_].
    - now rewrite !prod_pad.
    - intros k Hk. rewrite prod_pad in Hk. f_equal. apply map_Forall2_eq.
      eapply Forall2_imp; [|exact Hc]. cbv beta. intros v v' (Hf & Hv & Hv').
      unfold opnd. rewrite <- (flat_eq_all1 _ _ Hf). destruct (all1 (shape v)) eqn:E1.
      + exact (proj2 (flat_eq_scalar _ _ E1 Hf)).
      + destruct Hv as [Hv|Hv]; [congruence|]. destruct Hv' as [Hv'|Hv']; [rewrite <- (flat_eq_all1 _ _ Hf) in Hv'; congruence|].
        rewrite !unflatten_pad by (try exact Hk; now rewrite <- Hfs).
        rewrite <- Hv, <- Hv'. apply (proj2 Hf). now rewrite Hv.
  Qed.

  (* [operands_ok] only looks at the shapes *)
  Lemma operands_ok_shapes vs ws : Forall2 (fun v w : T => shape v = shape w) vs ws -> operands_ok vs -> operands_ok ws.
  Proof.
    intros H2 Hok. unfold operands_ok in *.
    assert (Hfs : full_shape ws = full_shape vs).
    { unfold full_shape.
      assert (Hc : Forall2 (fun v w : T => shape v = shape w /\ negb (all1 (shape v)) = negb (all1 (shape w))) vs ws).
      { eapply Forall2_imp; [|exact H2]. intros v w H. split; auto. now rewrite H. }
      pose proof (find_Forall2 _ _ _ _ _ Hc) as Hf.
      destruct (find _ vs), (find _ ws); try contradiction; auto. }
    rewrite Hfs. clear Hfs. generalize dependent (full_shape vs). intros s0 Hok.
    induction H2 as [|v w l l' Hvw _ IH]; [constructor|].
    inversion Hok as [|? ? Hv Hl]; subst. constructor; [rewrite <- Hvw; exact Hv | now apply IH].
  Qed.

  Lemma tmap_flat (f g : A -> A) x x' : (forall a, f a = g a) -> flat_eq x x' -> flat_eq (tmap f x) (tmap g x').
  Proof. intros Hfg [Hp H]. split; [exact Hp|]. simpl. intros k Hk. rewrite Hfg. f_equal. now apply H. Qed.

  (* ---- same set of elements (what the acceptance of a pointwise operator may depend on) *)
  Definition occurs (a : A) (v : T) : Prop := exists idx, in_range (shape v) idx /\ at_ v idx = a.
  Definition same_elems (v w : T) : Prop := forall a, occurs a v <-> occurs a w.

  Lemma flat_eq_occurs v w a : flat_eq v w -> occurs a v -> occurs a w.
  Proof.
    intros [Hp H] (idx & Hi & Ha). pose proof (flatten_lt _ _ Hi) as Hlt.
    exists (unflatten (shape w) (flatten (shape v) idx)). split.
    - apply unflatten_in_range. now rewrite <- Hp.
    - rewrite <- H by exact Hlt. now rewrite unflatten_flatten by exact Hi.
  Qed.
  Lemma flat_eq_same_elems v w : flat_eq v w -> same_elems v w.
  Proof. intros H a. split; apply flat_eq_occurs; [exact H | now apply flat_eq_sym]. Qed.
  Lemma teq_same_elems v w : teq v w -> same_elems v w.
  Proof. intro H. apply flat_eq_same_elems. now apply teq_flat_eq. Qed.
End Flat.

(* ---------------------------------------------------------------- pointwise operators and Transpose *)
Section Transp.
  Context {A : Type}.
  Notation T := (tensor A).

  Lemma in_range_all1 s idx : all1 s = true -> in_range s idx -> idx = repeat 0 (length s).
  Proof.
    intros H1 Hr. revert H1. induction Hr as [|i d idx s Hlt Hr IH]; intro H1; [reflexivity|].
    unfold all1 in *. cbn [forallb] in H1. apply andb_prop in H1 as [Hd H1]. apply Nat.eqb_eq in Hd. subst d.
    simpl. f_equal; [lia | now apply IH].
  Qed.
  Lemma zeros_in_range s : all1 s = true -> in_range s (repeat 0 (length s)).
  Proof.
    induction s as [|d s IH]; intro H1; [constructor|]. unfold all1 in *. cbn [forallb] in H1. apply andb_prop in H1 as [Hd H1].
    apply Nat.eqb_eq in Hd. subst d. simpl. constructor; [lia | now apply IH].
  Qed.

  Lemma all1_nth s : all1 s = true <-> (forall k, k < length s -> nth k s 0 = 1).
  Proof.
    unfold all1. rewrite forallb_forall. split.
    - intros H k Hk. symmetry. apply Nat.eqb_eq. apply H. now apply nth_In.
    - intros H x Hx. apply In_nth with (d := 0) in Hx as (k & Hk & <-). apply Nat.eqb_eq. symmetry. now apply H.
  Qed.

  Lemma all1_gather p s : is_perm p -> length p = length s -> all1 (gather 0 p s) = all1 s.
  Proof.
    intros Hp Hl. destruct (all1 s) eqn:E.
    - apply all1_nth. intros k Hk. rewrite gather_length in Hk. rewrite nth_gather by exact Hk.
      apply (proj1 (all1_nth s) E). rewrite <- Hl. destruct Hp as [_ Hlt]. rewrite Forall_forall in Hlt. apply Hlt. now apply nth_In.
    - destruct (all1 (gather 0 p s)) eqn:E'; auto. rewrite <- E. symmetry. apply all1_nth. intros k Hk.
      assert (Hin : In k p) by (apply perm_In; auto; lia).
      pose proof (proj1 (all1_nth _) E' (index_of k p)) as H. rewrite gather_length in H.
      specialize (H (index_of_lt _ _ Hin)). rewrite nth_gather in H by (now apply index_of_lt). now rewrite nth_index_of in H.
  Qed.

  Lemma gather_zeros q n : Forall (fun k => k < n) q -> gather 0 q (repeat 0 n) = repeat 0 (length q).
  Proof.
    intro H. unfold gather. induction q as [|k q IH]; simpl; auto. inversion H; subst. f_equal; auto.
    clear. revert k. induction n as [|n IH]; intros [|k]; simpl; auto.
  Qed.

  Lemma inv_perm_lt p : is_perm p -> Forall (fun k => k < length p) (inv_perm p).
  Proof.
    intro Hp. apply Forall_forall. intros k Hk. apply In_nth with (d := 0) in Hk as (i & Hi & <-).
    rewrite inv_perm_length in Hi. rewrite nth_inv_perm by exact Hi. apply index_of_lt. now apply perm_In.
  Qed.

  Lemma gather_inj p s s' : is_perm p -> length s = length p -> length s' = length p ->
    gather 0 p s = gather 0 p s' -> s = s'.
  Proof.
    intros Hp H1 H2 E. rewrite <- (@gather_inv_l _ 0 p s Hp H1), <- (@gather_inv_l _ 0 p s' Hp H2). now rewrite E.
  Qed.

  Lemma nth_repeat1 n k : k < n -> nth k (repeat 1 n) 0 = 1.
  Proof. revert k. induction n as [|n IH]; intros [|k] H; simpl; auto; try lia. apply IH. lia. Qed.

  Definition tfull (p : list nat) (v w : T) : Prop := teq v (transpose p w) /\ length (shape w) = length p.
  Definition tsc (v w : T) : Prop := all1 (shape v) = true /\ teq v w.
  Definition trel (p : list nat) (v w : T) : Prop := tfull p v w \/ tsc v w.

  Lemma trel_facts p v w : is_perm p -> trel p v w ->
    all1 (shape v) = all1 (shape w) /\ length (shape v) = length (shape w) /\ (all1 (shape v) = true -> sval v = sval w).
  Proof.
    intros Hp [[Ht Hl]|[H1 Ht]].
    - destruct Ht as [Hs Hv]. cbn [transpose shape] in Hs.
      assert (Ha : all1 (shape v) = all1 (shape w)) by (rewrite Hs; apply all1_gather; auto).
      assert (Hlen : length (shape v) = length (shape w)) by (rewrite Hs, gather_length; auto).
      split; [exact Ha|]. split; [exact Hlen|]. intro H1. unfold sval. rewrite Hv by (now apply zeros_in_range).
      cbn [transpose at_]. f_equal. rewrite Hlen, Hl. rewrite gather_zeros by (now apply inv_perm_lt). now rewrite inv_perm_length.
    - destruct Ht as [Hs Hv]. rewrite <- Hs. repeat split; auto. intros _. unfold sval. rewrite <- Hs. apply Hv. now apply zeros_in_range.
  Qed.

  Lemma prank_Forall2 (vs vs' : list T) : Forall2 (fun v w => length (shape v) = length (shape w)) vs vs' -> prank vs = prank vs'.
  Proof. induction 1 as [|v w l l' H _ IH]; simpl; congruence. Qed.

  Theorem pwn_transpose F p (vs vs' : list T) : is_perm p ->
    Forall2 (trel p) vs vs' -> Exists (fun v => length (shape v) = length p) vs ->
    Forall (fun v => length (shape v) <= length p) vs -> operands_ok vs ->
    operands_ok vs' /\ teq (pwn F vs) (transpose p (pwn F vs')) /\ length (shape (pwn F vs')) = length p.
  Proof.
    intros Hp H2 Hex Hle Hok.
    assert (Hfacts : Forall2 (fun v w => trel p v w /\ all1 (shape v) = all1 (shape w) /\ length (shape v) = length (shape w) /\
                                          (all1 (shape v) = true -> sval v = sval w)) vs vs').
    { eapply Forall2_imp; [|exact H2]. intros v w H. split; auto. now apply (trel_facts p). }
    assert (Hpr : prank vs = prank vs') by (apply prank_Forall2; eapply Forall2_imp; [|exact Hfacts]; intros v w (_ & _ & H & _); exact H).
    assert (Hpn : prank vs = length p).
    { apply Nat.le_antisymm; [now apply prank_le|]. apply Exists_exists in Hex as (v & Hv & <-). now apply prank_ge. }
    (* the first operand that is not a one-element tensor, on both sides *)
    assert (Hfind : match find (fun v => negb (all1 (shape v))) vs, find (fun v => negb (all1 (shape v))) vs' with
                    | Some y, Some y' => trel p y y' | None, None => True | _, _ => False end).
    { apply (find_Forall2 (trel p)). eapply Forall2_imp; [|exact Hfacts]. intros v w (H & Ha & _). split; auto. now rewrite Ha. }
    unfold operands_ok in *. unfold pwn, full_shape in *.
    destruct (find (fun v => negb (all1 (shape v))) vs) as [y|] eqn:Ey;
      destruct (find (fun v => negb (all1 (shape v))) vs') as [y'|] eqn:Ey'; try contradiction.
    - (* a full operand exists: it is transposed, of rank |p| *)
      apply find_some in Ey as [Hyin Hyn]. apply negb_true_iff in Hyn.
      destruct Hfind as [[Hty Hly]|[Hc _]]; [|congruence].
      assert (Hsy : shape y = gather 0 p (shape y')) by exact (proj1 Hty).
      assert (Hlen : length (shape y) = length p) by (rewrite Hsy; apply gather_length).
      rewrite <- Hpr, Hpn, Hlen, Hly, Nat.sub_diag. cbn [repeat app].
      assert (Hok' : Forall (fun v => all1 (shape v) = true \/ shape v = shape y') vs').
      { rewrite Forall_forall in Hok. clear - Hfacts Hok Hp Hsy Hly.
        induction Hfacts as [|v w l l' (Hr & Ha & Hl & _) _ IH]; constructor.
        - destruct (all1 (shape w)) eqn:Ew; [now left|]. right.
          destruct (Hok v (or_introl eq_refl)) as [H|H]; [congruence|].
          destruct Hr as [[Ht Hlw]|[H1 _]]; [|congruence].
          apply (gather_inj p); auto. rewrite <- Hsy, <- H. symmetry. exact (proj1 Ht).
        - apply IH. intros x Hx. apply Hok. now right. }
      split; [exact Hok'|]. split; [|exact Hly].
      split; cbn [shape at_ transpose]; [exact Hsy|]. intros idx Hidx. f_equal. apply map_Forall2_eq.
      rewrite Forall_forall in Hok.
      assert (Hc : Forall2 (fun v w => (trel p v w /\ all1 (shape v) = all1 (shape w) /\ length (shape v) = length (shape w) /\
                                       (all1 (shape v) = true -> sval v = sval w)) /\ In v vs) vs vs').
      { clear - Hfacts. induction Hfacts as [|v w l l' H _ IH]; constructor; [split; auto; now left|].
        eapply Forall2_imp; [|exact IH]. intros b c [Hb Hin]. split; auto. now right. }
      eapply Forall2_imp; [|exact Hc]. cbv beta. intros v w ((Hr & Ha & Hl & Hs) & Hin).
      unfold opnd. rewrite <- Ha. destruct (all1 (shape v)) eqn:Ev; [now apply Hs|].
      destruct Hr as [[Ht _]|[H1 _]]; [|congruence]. cbn [skipn].
      destruct (Hok v Hin) as [H|H]; [congruence|]. destruct Ht as [_ Hv]. rewrite Hv by (now rewrite H). reflexivity.
    - (* only one-element operands *)
      clear Hfind. rewrite <- Hpr, Hpn. cbn [length]. rewrite Nat.sub_0_r, app_nil_r.
      assert (Hall : forall v, In v vs -> all1 (shape v) = true).
      { intros v Hv. pose proof (find_none _ _ Ey v Hv) as H. now apply negb_false_iff in H. }
      assert (Hall' : forall w, In w vs' -> all1 (shape w) = true).
      { intros w Hw. pose proof (find_none _ _ Ey' w Hw) as H. now apply negb_false_iff in H. }
      split; [apply Forall_forall; intros w Hw; left; now apply Hall'|].
      split; [|cbn [shape]; now rewrite repeat_length].
      split; cbn [shape at_ transpose].
      + symmetry. apply nth_ext with (d := 0) (d' := 0); [now rewrite gather_length, repeat_length|].
        intros k Hk. rewrite gather_length in Hk. rewrite nth_gather by exact Hk.
        assert (Hlt : nth k p 0 < length p) by (destruct Hp as [_ H]; rewrite Forall_forall in H; apply H; now apply nth_In).
        rewrite !nth_repeat1; auto.
      + intros idx _. f_equal. apply map_Forall2_eq.
        assert (Hc : Forall2 (fun v w => (trel p v w /\ all1 (shape v) = all1 (shape w) /\ length (shape v) = length (shape w) /\
                                         (all1 (shape v) = true -> sval v = sval w)) /\ In v vs) vs vs').
        { clear - Hfacts. induction Hfacts as [|v w l l' H _ IH]; constructor; [split; auto; now left|].
          eapply Forall2_imp; [|exact IH]. intros b c [Hb Hin]. split; auto. now right. }
        eapply Forall2_imp; [|exact Hc]. cbv beta. intros v w ((Hr & Ha & Hl & Hs) & Hin).
        unfold opnd. rewrite <- Ha, (Hall v Hin). apply Hs. now apply Hall.
  Qed.

  (* transposing a one-element tensor changes nothing *)
  Lemma transpose_all1 q (x : T) : is_perm q -> length q = length (shape x) -> all1 (shape x) = true -> teq (transpose q x) x.
  Proof.
    intros Hq Hl H1. assert (Hg : all1 (gather 0 q (shape x)) = true) by (rewrite all1_gather; auto).
    assert (Hs : gather 0 q (shape x) = shape x).
    { rewrite (all1_eq_repeat _ Hg). rewrite (all1_eq_repeat _ H1) at 2. now rewrite gather_length, Hl. }
    split; cbn [transpose shape at_]; [exact Hs|]. intros idx Hi.
    rewrite Hs in Hi. rewrite (in_range_all1 _ _ H1 Hi). rewrite <- Hl.
    rewrite gather_zeros by (now apply inv_perm_lt). now rewrite inv_perm_length.
  Qed.
  Lemma tfull_all1_teq p (v w : T) : is_perm p -> tfull p v w -> all1 (shape v) = true -> teq v w.
  Proof.
    intros Hp [Ht Hl] H1. eapply teq_trans; [exact Ht|]. apply transpose_all1; auto.
    destruct (trel_facts p v w Hp (or_introl (conj Ht Hl))) as (Ha & _). now rewrite <- Ha.
  Qed.
  Lemma trel_all1_teq p (v w : T) : is_perm p -> trel p v w -> all1 (shape v) = true -> teq v w.
  Proof. intros Hp [H|[_ H]] H1; [now apply (tfull_all1_teq p) | exact H]. Qed.

  (* a transposed tensor has the same elements *)
  Lemma transpose_occurs p (w : T) a : is_perm p -> length p = length (shape w) -> occurs a (transpose p w) -> occurs a w.
  Proof.
    intros Hp Hl (idx & Hi & Ha). cbn [transpose shape at_] in *.
    exists (gather 0 (inv_perm p) idx). split; auto.
    assert (Hip : Forall (fun k => k < length (gather 0 p (shape w))) (inv_perm p)) by (rewrite gather_length; now apply inv_perm_lt).
    pose proof (in_range_gather Hip Hi) as Hr. now rewrite gather_inv_l in Hr by auto.
  Qed.
  Lemma occurs_transpose p (w : T) a : is_perm p -> length p = length (shape w) -> occurs a w -> occurs a (transpose p w).
  Proof.
    intros Hp Hl (idx & Hi & Ha). exists (gather 0 p idx). cbn [transpose shape at_]. split.
    - apply in_range_gather; auto. rewrite <- Hl. apply Hp.
    - rewrite gather_inv_l; auto. apply in_range_length in Hi. congruence.
  Qed.
  Lemma trel_same_elems p v w : is_perm p -> trel p v w -> same_elems v w.
  Proof.
    intros Hp [[Ht Hl]|[_ Ht]]; [|now apply teq_same_elems].
    intro a. rewrite (teq_same_elems _ _ Ht a). split; [apply transpose_occurs | apply occurs_transpose]; auto.
  Qed.
End Transp.

(* non-vacuity: Max(x[2,3], c[1,1,1]) has shape [1,2,3] and the same flattening as Max(x'[6], c) *)
Example pwn_rank_extends :
  shape (pwn (fun l => fold_right Nat.max 0 l) [mkT [1; 1; 1] (fun _ => 4); mkT [2; 3] (fun idx => flatten [2; 3] idx)]) = [1; 2; 3]
  /\ map (at_ (pwn (fun l => fold_right Nat.max 0 l) [mkT [2; 3] (fun idx => flatten [2; 3] idx); mkT [1; 1; 1] (fun _ => 4)]))
       [[0; 0; 0]; [0; 1; 1]; [0; 1; 2]] = [4; 4; 5].
Proof. split; reflexivity. Qed.
