(* ElemCommute (C02): the tensor algebra behind the "Reshape/Transpose -> elementwise chain -> inverse" folds.
     flat_eq x y          x and y have the same row-major flattening (shapes may differ, even in rank)
     pwn F vs             the ONNX n-ary pointwise operator with numpy broadcasting, on operand lists in which every
                          operand either has the shape of the first one or is a one-element tensor (of ANY rank:
                          a one-element operand of higher rank left-pads the result shape with 1s)
   Laws: Reshape preserves flat_eq; pwn maps flat_eq operands to flat_eq results (so it commutes with every reshape);
   flat_eq + equal shapes = teq; pwn commutes with Transpose when no one-element operand outranks the data operand. *)
From Coq Require Import List Arith Lia Bool PeanoNat.
From J2O Require Import Tensor Reshape.
Import ListNotations.

Section Flat.
  Context {A : Type}.
  Notation T := (tensor A).

  Definition flat_eq (x y : T) : Prop :=
    prod (shape x) = prod (shape y) /\
    forall k, k < prod (shape x) -> at_ x (unflatten (shape x) k) = at_ y (unflatten (shape y) k).

  Lemma flat_eq_refl x : flat_eq x x.
  Proof. split; auto. Qed.
  Lemma flat_eq_sym x y : flat_eq x y -> flat_eq y x.
  Proof. intros [Hp H]. split; [now symmetry|]. intros k Hk. symmetry. apply H. now rewrite Hp. Qed.
  Lemma flat_eq_trans x y z : flat_eq x y -> flat_eq y z -> flat_eq x z.
  Proof.
    intros [Hp1 H1] [Hp2 H2]. split; [congruence|]. intros k Hk. rewrite H1 by exact Hk. apply H2. now rewrite <- Hp1.
  Qed.

  Lemma teq_flat_eq x y : teq x y -> flat_eq x y.
  Proof.
    intros [Hs H]. split; [now rewrite Hs|]. intros k Hk. rewrite <- Hs. apply H. now apply unflatten_in_range.
  Qed.

  Lemma flat_eq_shape_teq x y : flat_eq x y -> shape x = shape y -> teq x y.
  Proof.
    intros [Hp H] Hs. split; [exact Hs|]. intros idx Hi.
    pose proof (flatten_lt _ _ Hi) as Hlt. specialize (H _ Hlt).
    rewrite <- Hs in H. now rewrite unflatten_flatten in H by exact Hi.
  Qed.

  Lemma reshape_flat_eq s (x : T) : prod s = prod (shape x) -> flat_eq (reshape s x) x.
  Proof.
    intro Hp. split; [exact Hp|]. simpl. intros k Hk. now rewrite flatten_unflatten by exact Hk.
  Qed.

  (* ---- one-element tensors *)
  Definition all1 (s : list nat) : bool := forallb (Nat.eqb 1) s.
  Definition sval (v : T) : A := at_ v (repeat 0 (length (shape v))).

  Lemma all1_prod s : all1 s = true -> prod s = 1.
  Proof.
    induction s as [|d s IH]; intro H; [reflexivity|]. unfold all1 in *. cbn [forallb] in H. apply andb_prop in H as [H1 H2].
    apply Nat.eqb_eq in H1. subst d. cbn [prod]. rewrite IH by exact H2. reflexivity.
  Qed.
  Lemma prod1_all1 s : prod s = 1 -> all1 s = true.
  Proof.
    induction s as [|d s IH]; intro H; [reflexivity|]. cbn [prod] in H.
    assert (Hd : d = 1 /\ prod s = 1).
    { destruct d as [|[|d]]; [simpl in H; lia | split; [reflexivity | lia] |].
      destruct (prod s) as [|[|p]]; [lia | lia | exfalso; nia]. }
    destruct Hd as [-> Hp]. unfold all1 in *. cbn [forallb]. rewrite Nat.eqb_refl. now apply IH.
  Qed.
  Lemma unflatten_0 s : unflatten s 0 = repeat 0 (length s).
  Proof.
    induction s as [|d s IH]; simpl; auto.
    assert (H0 : 0 / prod s = 0 /\ 0 mod prod s = 0).
    { destruct (prod s) as [|p] eqn:E; [split; reflexivity|]. split; [apply Nat.div_0_l | apply Nat.mod_0_l]; lia. }
    destruct H0 as [-> ->]. now rewrite IH.
  Qed.

  Lemma flat_eq_scalar v w : all1 (shape v) = true -> flat_eq v w -> all1 (shape w) = true /\ sval v = sval w.
  Proof.
    intros H1 [Hp H]. pose proof (all1_prod _ H1) as Hp1. split.
    - apply prod1_all1. congruence.
    - unfold sval. rewrite <- !unflatten_0. apply H. lia.
  Qed.

  (* ---- n-ary pointwise operators under broadcasting against one-element operands *)
  Definition opnd (d : nat) (v : T) (idx : list nat) : A :=
    if all1 (shape v) then sval v else at_ v (skipn d idx).
  Definition prank (vs : list T) : nat := fold_right (fun v r => Nat.max (length (shape v)) r) 0 vs.
  (* the common shape of the operands that are not one-element tensors ([] when there is none) *)
  Definition full_shape (vs : list T) : list nat :=
    match find (fun v => negb (all1 (shape v))) vs with Some x => shape x | None => [] end.
  Definition pwn (F : list A -> A) (vs : list T) : T :=
    let s := full_shape vs in
    let d := prank vs - length s in
    mkT (repeat 1 d ++ s) (fun idx => F (map (fun v => opnd d v idx) vs)).
  (* every operand is a one-element tensor (of any rank) or has the common full shape *)
  Definition operands_ok (vs : list T) : Prop :=
    Forall (fun v => all1 (shape v) = true \/ shape v = full_shape vs) vs.

  Lemma prod_pad d s : prod (repeat 1 d ++ s) = prod s.
  Proof. induction d as [|d IH]; simpl; auto. rewrite IH. lia. Qed.

  Lemma unflatten_pad d s k : k < prod s -> skipn d (unflatten (repeat 1 d ++ s) k) = unflatten s k.
  Proof.
    intro Hk. induction d as [|d IH]; simpl; auto.
    rewrite prod_pad. rewrite (Nat.mod_small k (prod s)) by exact Hk. exact IH.
  Qed.

  Lemma prank_le n vs : Forall (fun v => length (shape v) <= n) vs -> prank vs <= n.
  Proof. induction 1 as [|v r Hv _ IH]; simpl; lia. Qed.
  Lemma prank_ge vs v : In v vs -> length (shape v) <= prank vs.
  Proof. induction vs as [|w r IH]; simpl; intro H; [contradiction|]. destruct H as [<-|H]; [lia | specialize (IH H); lia]. Qed.

  Lemma all1_repeat n : all1 (repeat 1 n) = true.
  Proof. induction n; simpl; auto. Qed.
  Lemma all1_eq_repeat s : all1 s = true -> s = repeat 1 (length s).
  Proof.
    induction s as [|d s IH]; intro H; [reflexivity|]. unfold all1 in *. cbn [forallb] in H. apply andb_prop in H as [H1 H2].
    apply Nat.eqb_eq in H1. subst d. simpl. f_equal. now apply IH.
  Qed.

  (* the operands that matter to a fold: the data operand x, copies of it, and one-element side operands *)
  Lemma full_shape_data x vs : In x vs -> Forall (fun v => all1 (shape v) = true \/ shape v = shape x) vs ->
    (all1 (shape x) = false -> full_shape vs = shape x) /\
    (all1 (shape x) = true -> full_shape vs = [] /\ Forall (fun v => all1 (shape v) = true) vs).
  Proof.
    intros Hin Hall. unfold full_shape. split; intro Hx.
    - destruct (find _ vs) as [y|] eqn:Ef.
      + apply find_some in Ef as [Hy Hny]. apply negb_true_iff in Hny. rewrite Forall_forall in Hall.
        destruct (Hall _ Hy); congruence.
      + pose proof (find_none _ _ Ef x Hin) as H. simpl in H. rewrite Hx in H. discriminate.
    - assert (Hs : Forall (fun v => all1 (shape v) = true) vs).
      { rewrite Forall_forall in *. intros v Hv. destruct (Hall v Hv) as [H|H]; auto. now rewrite H. }
      split; auto. destruct (find _ vs) as [y|] eqn:Ef; auto.
      apply find_some in Ef as [Hy Hny]. rewrite Forall_forall in Hs. rewrite (Hs _ Hy) in Hny. discriminate.
  Qed.

  Lemma operands_ok_data x vs : In x vs -> Forall (fun v => all1 (shape v) = true \/ shape v = shape x) vs -> operands_ok vs.
  Proof.
    intros Hin Hall. destruct (full_shape_data x vs Hin Hall) as [H0 H1]. unfold operands_ok.
    destruct (all1 (shape x)) eqn:Ex.
    - destruct (H1 eq_refl) as [_ Hs]. rewrite Forall_forall in *. intros v Hv. left. now apply Hs.
    - rewrite (H0 eq_refl). exact Hall.
  Qed.

  Lemma pwn_shape_data F x vs : In x vs -> Forall (fun v => all1 (shape v) = true \/ shape v = shape x) vs ->
    Forall (fun v => length (shape v) <= length (shape x)) vs -> shape (pwn F vs) = shape x.
  Proof.
    intros Hin Hall Hrk. destruct (full_shape_data x vs Hin Hall) as [H0 H1].
    pose proof (prank_le _ _ Hrk) as Hle. pose proof (prank_ge vs x Hin) as Hge.
    unfold pwn. cbn [shape]. destruct (all1 (shape x)) eqn:Ex.
    - destruct (H1 eq_refl) as [-> _]. simpl. rewrite app_nil_r, Nat.sub_0_r.
      replace (prank vs) with (length (shape x)) by lia. symmetry. now apply all1_eq_repeat.
    - rewrite (H0 eq_refl). replace (prank vs - length (shape x)) with 0 by lia. reflexivity.
  Qed.

  Lemma map_Forall2_eq {B C D} (f : B -> D) (g : C -> D) l l' :
    Forall2 (fun b c => f b = g c) l l' -> map f l = map g l'.
  Proof. induction 1; simpl; congruence. Qed.

  Lemma Forall2_imp {B C} (R R' : B -> C -> Prop) l l' : (forall b c, R b c -> R' b c) -> Forall2 R l l' -> Forall2 R' l l'.
  Proof. intro H. induction 1; constructor; auto. Qed.

  Lemma Forall2_and_Forall {B C} (R : B -> C -> Prop) (P : B -> Prop) (Q : C -> Prop) l l' :
    Forall2 R l l' -> Forall P l -> Forall Q l' -> Forall2 (fun b c => R b c /\ P b /\ Q c) l l'.
  Proof.
    induction 1 as [|b c l l' Hr _ IH]; intros HP HQ; constructor.
    - inversion HP; inversion HQ; subst; auto.
    - inversion HP; inversion HQ; subst; auto.
  Qed.

  (* positionally corresponding lists whose elements agree on a test have corresponding first hits *)
  Lemma find_Forall2 {B C} (R : B -> C -> Prop) (f : B -> bool) (g : C -> bool) l l' :
    Forall2 (fun b c => R b c /\ f b = g c) l l' ->
    match find f l, find g l' with Some b, Some c => R b c | None, None => True | _, _ => False end.
  Proof.
    induction 1 as [|b c l l' [Hr Hfg] _ IH]; simpl; auto. rewrite <- Hfg. destruct (f b); auto.
  Qed.

  Lemma flat_eq_all1 v w : flat_eq v w -> all1 (shape v) = all1 (shape w).
  Proof.
    intro H. destruct (all1 (shape v)) eqn:E.
    - symmetry. exact (proj1 (flat_eq_scalar _ _ E H)).
    - destruct (all1 (shape w)) eqn:E'; auto.
      rewrite (proj1 (flat_eq_scalar _ _ E' (flat_eq_sym _ _ H))) in E. discriminate.
  Qed.

  (* THE commutation law for every reshape (and every rank change by left-padding with 1s): *)
  Theorem pwn_flat F vs vs' :
    Forall2 flat_eq vs vs' -> operands_ok vs -> operands_ok vs' -> flat_eq (pwn F vs) (pwn F vs').
  Proof.
    intros H2 Hok Hok'. unfold operands_ok in Hok, Hok'.
    assert (Hfs : prod (full_shape vs) = prod (full_shape vs')).
    { unfold full_shape.
      assert (Hc : Forall2 (fun v w => flat_eq v w /\ negb (all1 (shape v)) = negb (all1 (shape w))) vs vs').
      { eapply Forall2_imp; [|exact H2]. intros v w H. split; auto. now rewrite (flat_eq_all1 _ _ H). }
      pose proof (find_Forall2 _ _ _ _ _ Hc) as Hf.
      destruct (find _ vs), (find _ vs'); try contradiction; auto. exact (proj1 Hf). }
    pose proof (Forall2_and_Forall _ _ _ _ _ H2 Hok Hok') as Hc. clear H2 Hok Hok'.
    unfold pwn. split; cbn [shape at_].
    - now rewrite !prod_pad.
    - intros k Hk. rewrite prod_pad in Hk. f_equal. apply map_Forall2_eq.
      eapply Forall2_imp; [|exact Hc]. cbv beta. intros v v' (Hf & Hv & Hv').
      unfold opnd. rewrite <- (flat_eq_all1 _ _ Hf). destruct (all1 (shape v)) eqn:E1.
      + exact (proj2 (flat_eq_scalar _ _ E1 Hf)).
      + destruct Hv as [Hv|Hv]; [congruence|]. destruct Hv' as [Hv'|Hv']; [rewrite <- (flat_eq_all1 _ _ Hf) in Hv'; congruence|].
        rewrite !unflatten_pad by (try exact Hk; now rewrite <- Hfs).
        rewrite <- Hv, <- Hv'. apply (proj2 Hf). now rewrite Hv.
  Qed.

  Lemma tmap_flat (f g : A -> A) x x' : (forall a, f a = g a) -> flat_eq x x' -> flat_eq (tmap f x) (tmap g x').
  Proof. intros Hfg [Hp H]. split; [exact Hp|]. simpl. intros k Hk. rewrite Hfg. f_equal. now apply H. Qed.

  (* ---- same set of elements (what the acceptance of a pointwise operator may depend on) *)
  Definition occurs (a : A) (v : T) : Prop := exists idx, in_range (shape v) idx /\ at_ v idx = a.
  Definition same_elems (v w : T) : Prop := forall a, occurs a v <-> occurs a w.

  Lemma flat_eq_occurs v w a : flat_eq v w -> occurs a v -> occurs a w.
  Proof.
    intros [Hp H] (idx & Hi & Ha). pose proof (flatten_lt _ _ Hi) as Hlt.
    exists (unflatten (shape w) (flatten (shape v) idx)). split.
    - apply unflatten_in_range. now rewrite <- Hp.
    - rewrite <- H by exact Hlt. now rewrite unflatten_flatten by exact Hi.
  Qed.
  Lemma flat_eq_same_elems v w : flat_eq v w -> same_elems v w.
  Proof. intros H a. split; apply flat_eq_occurs; [exact H | now apply flat_eq_sym]. Qed.
  Lemma teq_same_elems v w : teq v w -> same_elems v w.
  Proof. intro H. apply flat_eq_same_elems. now apply teq_flat_eq. Qed.
End Flat.

(* non-vacuity: Max(x[2,3], c[1,1,1]) has shape [1,2,3] and the same flattening as Max(x'[6], c) *)
Example pwn_rank_extends :
  shape (pwn (fun l => fold_right Nat.max 0 l) [mkT [1; 1; 1] (fun _ => 4); mkT [2; 3] (fun idx => flatten [2; 3] idx)]) = [1; 2; 3]
  /\ map (at_ (pwn (fun l => fold_right Nat.max 0 l) [mkT [2; 3] (fun idx => flatten [2; 3] idx); mkT [1; 1; 1] (fun _ => 4)]))
       [[0; 0; 0]; [0; 1; 1]; [0; 1; 2]] = [4; 4; 5].
Proof. split; reflexivity. Qed.
