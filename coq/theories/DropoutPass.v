(* DropoutPass (C02): a faithful model of inline_dropout_training_mode_constants_ir on the common graph (OptGraph.v).
   ONE sweep over the nodes, in order: a Dropout with >= 3 inputs whose training_mode input is produced by a Not whose first
   input resolves to the scalar boolean True (and is not a graph input: [o_bool]) gets the initializer "false_const" instead
   — the existing one ([o_fc]) or a newly registered one — and EVERY use of the Not's output (node inputs, nested-graph
   captures, graph outputs) is redirected to it (replace_all_uses_with).  Afterwards the Not nodes so bypassed are removed
   when none of their outputs is read, captured or a graph output any more.
   The name of a created initializer is abstracted (first unused name), as in TransposeReducePass.v.
   Domain restrictions of the model (type-invalid otherwise; the model takes no action): the Not has exactly one output and
   that output is not also another input of the same Dropout. *)
From Coq Require Import ZArith String List Bool Arith Lia.
From J2O Require Import PyLib Tensor Graph Redirect ReshapePairPass TransposePairPass TransposeReducePass OrphanPass SwishPass OptGraph.
Import ListNotations.

Definition fc_name (g : ograph) : name := match o_fc g with Some f => f | None => S (max_name (projR g)) end.

(* the rewrite at one Dropout: (the Not's output, the graph after) *)
Definition drop_decide (g : ograph) (n : node) : option name :=
  if negb (is_op "Dropout" n) then None else
  match n_ins n with
  | d0 :: r0 :: tm :: rest =>
      match producer (o_nodes g) tm with
      | Some p =>
          if negb (is_op "Not" p) then None else
          match n_ins p, n_outs p with
          | c :: _, [nt] =>
              match o_bool g c with
              | Some true => if existsb (Nat.eqb nt) (d0 :: r0 :: rest) then None else Some nt
              | _ => None
              end
          | _, _ => None
          end
      | None => None
      end
  | _ => None
  end.

Definition drop_apply (g : ograph) (nt : name) : ograph :=
  let fc := fc_name g in
  let g' := replace_all_uses nt fc (o_graph g) in
  match o_fc g with
  | Some _ => mkOG (g_nodes g') (g_outputs g') (o_dtype g) (o_shape g) (o_scalar g) (o_crank g) (o_const g) (o_bool g) (o_fc g)
  | None => mkOG (g_nodes g') (g_outputs g') (updf (o_dtype g) fc (Some 9%Z)) (updf (o_shape g) fc (Some [])) (updf (o_scalar g) fc true)
                 (updf (o_crank g) fc (Some 0)) (updf (o_const g) fc None) (updf (o_bool g) fc (Some false)) (Some fc)
  end.

(* the sweep: node i of the CURRENT graph (the rewrites keep the number and the order of the nodes) *)
Definition drop_at (s : ograph * list name) (i : nat) : ograph * list name :=
  let '(g, dels) := s in
  match nth_error (o_nodes g) i with
  | Some n => match drop_decide g n with Some nt => (drop_apply g nt, nt :: dels) | None => s end
  | None => s
  end.

Definition drop_cleanup (g : ograph) (dels : list name) : ograph :=
  let dead m := existsb (fun d => existsb (Nat.eqb d) (n_outs m)) dels &&
                forallb (fun o => negb (mentioned (o_nodes g) (o_outputs g) m o)) (n_outs m) in
  mkOG (filter (fun m => negb (dead m)) (o_nodes g)) (o_outputs g) (o_dtype g) (o_shape g) (o_scalar g) (o_crank g) (o_const g) (o_bool g) (o_fc g).

Definition o_pass_dropout (g : ograph) : ograph :=
  let '(g1, dels) := fold_left drop_at (seq 0 (length (o_nodes g))) (g, []) in
  match dels with [] => g1 | _ => drop_cleanup g1 dels end.

Example dropout_inlined :
  let g := mkOG [mkNode "Not" [] [1] [] [2]; mkNode "Dropout" [] [3; 4; 2] [] [5]; mkNode "Dropout" [] [5; 4; 2] [] [6]] [6]
                (fun _ => None) (fun _ => None) (fun _ => false) (fun _ => None) (fun _ => None)
                (fun x => if Nat.eqb x 1 then Some true else None) None in
  o_nodes (o_pass_dropout g) = [mkNode "Dropout" [] [3; 4; 7] [] [5]; mkNode "Dropout" [] [5; 4; 7] [] [6]] /\
  o_fc (o_pass_dropout g) = Some 7 /\ o_bool (o_pass_dropout g) 7 = Some false.
Proof. vm_compute. repeat split; reflexivity. Qed.
Example dropout_not_kept_when_observed :
  let g := mkOG [mkNode "Not" [] [1] [] [2]; mkNode "Dropout" [] [3; 4; 2] [] [5]] [5; 2]
                (fun _ => None) (fun _ => None) (fun _ => false) (fun _ => None) (fun _ => None)
                (fun x => if Nat.eqb x 1 then Some true else None) (Some 8) in
  o_nodes (o_pass_dropout g) = [mkNode "Dropout" [] [3; 4; 8] [] [5]] /\ o_outputs (o_pass_dropout g) = [5; 8].
Proof. vm_compute. split; reflexivity. Qed.
