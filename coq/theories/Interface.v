(* Interface (C05): which graph inputs survive pruning, and the interface checker run on real exports. *)
From Coq Require Import ZArith String Ascii List Bool Arith Lia.
From J2O Require Import PyLib Dtype Onnx.
From J2OGen Require Import GenInterface.
Import ListNotations.
Local Open Scope string_scope.

(* ---------------------------------------------------------------- decimal numerals (Python's str(i)) *)
Definition digit_char (d : nat) : ascii := ascii_of_nat (48 + d).
Fixpoint dec_aux (fuel n : nat) (acc : string) : string :=
  match fuel with
  | O => acc
  | S f => let acc' := String (digit_char (n mod 10)) acc in
           if (n / 10 =? 0)%nat then acc' else dec_aux f (n / 10) acc'
  end.
Definition dec (n : nat) : string := dec_aux (S n) n "".

Lemma is_digit_digit_char d : (d < 10)%nat -> is_digit (digit_char d) = true.
Proof.
  intro H. unfold is_digit, digit_char. rewrite nat_ascii_embedding by lia.
  apply andb_true_intro. split; apply Nat.leb_le; lia.
Qed.

Lemma dec_aux_digits fuel n acc : str_all is_digit acc = true -> str_all is_digit (dec_aux fuel n acc) = true.
Proof.
  revert n acc. induction fuel as [|f IH]; cbn [dec_aux]; intros n acc H; auto.
  assert (Hd : str_all is_digit (String (digit_char (n mod 10)) acc) = true).
  { cbn [str_all]. rewrite is_digit_digit_char by (apply Nat.mod_upper_bound; lia). exact H. }
  destruct (n / 10 =? 0)%nat; auto.
Qed.

Lemma dec_aux_nonempty fuel n acc : acc <> "" \/ fuel <> O -> dec_aux fuel n acc <> "".
Proof.
  revert n acc. induction fuel as [|f IH]; cbn [dec_aux]; intros n acc H.
  - destruct H; auto.
  - destruct (n / 10 =? 0)%nat; [discriminate|]. apply IH. left. discriminate.
Qed.

Lemma dec_isdigit n : str_isdigit (dec n) = true.
Proof.
  unfold str_isdigit, dec. apply andb_true_intro. split.
  - apply negb_true_iff. apply String.eqb_neq. apply dec_aux_nonempty. right. discriminate.
  - apply dec_aux_digits. reflexivity.
Qed.

(* ---------------------------------------------------------------- string lemmas *)
Lemma sapp_assoc a b c : (a ++ b) ++ c = a ++ (b ++ c).
Proof. induction a as [|x a IH]; simpl; auto. now rewrite IH. Qed.
Lemma sapp_nil_r a : a ++ "" = a.
Proof. induction a as [|x a IH]; simpl; auto. now rewrite IH. Qed.
Lemma slength_app a b : String.length (a ++ b) = (String.length a + String.length b)%nat.
Proof. induction a as [|x a IH]; simpl; auto. Qed.
Lemma str_startswith_app p s : str_startswith p (p ++ s) = true.
Proof. induction p as [|c p IH]; simpl; auto. now rewrite Ascii.eqb_refl, IH. Qed.

Lemma str_drop_app p s : str_drop (String.length p) (p ++ s) = s.
Proof. induction p as [|c p IH]; simpl; auto. Qed.

Lemma str_rev_aux_app s acc : str_rev_aux s acc = str_rev_aux s "" ++ acc.
Proof.
  revert acc. induction s as [|c s IH]; simpl; intro acc; auto.
  rewrite IH. rewrite (IH (String c "")). rewrite sapp_assoc. reflexivity.
Qed.

Lemma str_rev_app a b : str_rev (a ++ b) = str_rev b ++ str_rev a.
Proof.
  unfold str_rev. induction a as [|c a IH]; simpl.
  - now rewrite sapp_nil_r.
  - rewrite str_rev_aux_app, IH. rewrite (str_rev_aux_app a (String c "")).
    now rewrite sapp_assoc.
Qed.

Lemma str_rev_involutive s : str_rev (str_rev s) = s.
Proof.
  induction s as [|c s IH]; auto.
  change (String c s) with (String c "" ++ s). rewrite str_rev_app, str_rev_app, IH. reflexivity.
Qed.

Lemma str_endswith_app s suf : str_endswith suf (s ++ suf) = true.
Proof. unfold str_endswith. rewrite str_rev_app. apply str_startswith_app. Qed.

Lemma str_rev_length s : String.length (str_rev s) = String.length s.
Proof.
  induction s as [|c s IH]; auto.
  change (String c s) with (String c "" ++ s). rewrite str_rev_app.
  rewrite slength_app, IH. simpl. lia.
Qed.

Lemma str_drop_end_app s suf : str_drop_end (String.length suf) (s ++ suf) = s.
Proof.
  unfold str_drop_end. rewrite str_rev_app. rewrite <- (str_rev_length suf).
  rewrite str_drop_app. apply str_rev_involutive.
Qed.

Lemma str_all_rev f s : str_all f s = true -> str_all f (str_rev s) = true.
Proof.
  assert (H : forall a b, str_all f (a ++ b) = str_all f a && str_all f b).
  { induction a as [|c a IH]; simpl; intro b; auto. rewrite IH. now rewrite andb_assoc. }
  induction s as [|c s IH]; auto. simpl. intro E. apply andb_prop in E as [E1 E2].
  change (String c s) with (String c "" ++ s). rewrite str_rev_app, H, IH by auto. simpl. now rewrite E1.
Qed.

(* an all-digit string does not end in "_nchw" *)
Lemma digits_not_nchw s : str_all is_digit s = true -> str_endswith "_nchw" s = false.
Proof.
  intro H. unfold str_endswith. apply str_all_rev in H.
  destruct (str_rev s) as [|c r]; [reflexivity|]. simpl in H. apply andb_prop in H as [Hc _].
  change (str_rev "_nchw") with "whcn_". cbn [str_startswith].
  destruct (Ascii.eqb "w"%char c) eqn:E; [|reflexivity].
  apply Ascii.eqb_eq in E. subst c. discriminate Hc.
Qed.

(* ---------------------------------------------------------------- the translated keep decision *)
(* SPEC: the graph-input names that stand for positional arguments of the callable *)
Definition positional_name (i : nat) (nchw : bool) : string :=
  "in_" ++ dec i ++ (if nchw then "_nchw" else "").

Lemma str_drop_in x : str_drop 3 ("in_" ++ x) = x.
Proof. reflexivity. Qed.
Lemma str_drop_end_nchw x : str_drop_end 5 (x ++ "_nchw") = x.
Proof. exact (str_drop_end_app x "_nchw"). Qed.

Theorem keep_positional : forall i nchw, should_always_keep (Some (positional_name i nchw)) = Some true.
Proof.
  intros i nchw. unfold should_always_keep, positional_name.
  assert (Hne : String.eqb ("in_" ++ dec i ++ (if nchw then "_nchw" else "")) EmptyString = false) by reflexivity.
  rewrite Hne. rewrite (str_startswith_app "in_"). rewrite str_drop_in.
  destruct nchw; cbv iota.
  - rewrite str_endswith_app. rewrite str_drop_end_nchw.
    now rewrite dec_isdigit.
  - rewrite sapp_nil_r. pose proof (dec_isdigit i) as Hd. unfold str_isdigit in Hd.
    apply andb_prop in Hd as [_ Hall]. rewrite (digits_not_nchw _ Hall). now rewrite dec_isdigit.
Qed.

(* anonymous inputs are kept as well; other names are prunable (non-vacuity of pruning) *)
Example keep_unnamed : should_always_keep None = Some true. Proof. reflexivity. Qed.
Example prunable_param : should_always_keep (Some "deterministic") = Some false. Proof. reflexivity. Qed.
Example prunable_weird : should_always_keep (Some "in_x") = Some false. Proof. reflexivity. Qed.

(* ---------------------------------------------------------------- model of prune_unused_graph_inputs_ir *)
Record ginput := mkGI { gi_name : option string; gi_used : bool; gi_is_output : bool }.
Definition keep_input (v : ginput) : bool :=
  match should_always_keep (gi_name v) with
  | Some true => true
  | _ => gi_used v || gi_is_output v
  end.
Definition prune (l : list ginput) : list ginput := filter keep_input l.

Definition is_positional (v : ginput) : Prop := exists i nchw, gi_name v = Some (positional_name i nchw).

Lemma filter_sub {A} (p q : A -> bool) l : (forall x, p x = true -> q x = true) ->
  filter p (filter q l) = filter p l.
Proof.
  intro H. induction l as [|x l IH]; simpl; auto.
  destruct (q x) eqn:Eq; simpl.
  - destruct (p x); now rewrite IH.
  - destruct (p x) eqn:Ep; [rewrite (H _ Ep) in Eq; discriminate | exact IH].
Qed.

(* Positional inputs are never dropped or reordered, used or not: for ANY selection predicate that only
   selects positional inputs, the selected sub-list is the same before and after pruning. *)
Theorem prune_keeps_positional (sel : ginput -> bool) l :
  (forall v, sel v = true -> is_positional v) -> filter sel (prune l) = filter sel l.
Proof.
  intro H. apply filter_sub. intros v Hv. destruct (H v Hv) as (i & nchw & E).
  unfold keep_input. now rewrite E, keep_positional.
Qed.

Theorem prune_is_sublist l : forall v, In v (prune l) -> In v l.
Proof. intros v H. apply filter_In in H. tauto. Qed.

Theorem prune_keeps_used l v : In v l -> gi_used v = true -> In v (prune l).
Proof.
  intros Hin Hu. apply filter_In. split; auto. unfold keep_input.
  destruct (should_always_keep (gi_name v)) as [[|]|]; auto; now rewrite Hu.
Qed.

Local Close Scope string_scope.
Local Open Scope list_scope.
(* ---------------------------------------------------------------- interface checker on real exports *)
(* what the JAX side says about one positional argument / one result leaf *)
Record jleaf := mkJL { jl_dtype : Z (* ONNX code of the JAX dtype *); jl_dims : list dim; jl_nchw : bool }.

Definition is_float_code (c : Z) : bool := Z_in c [1; 10; 11; 16]%Z.
Definition is_int_code (c : Z) : bool := Z_in c [2; 3; 4; 5; 6; 7; 12; 13]%Z.
Definition is_complex_code (c : Z) : bool := Z_in c [14; 15]%Z.

(* declared element type vs JAX element type: same class; float width follows the flag unless the
   callable asked for float16/bfloat16/float64; integers keep their type or widen to INT64 *)
Definition dtype_rule (jax : Z) (double : bool) (decl : Z) : bool :=
  if (jax =? 9)%Z then (decl =? 9)%Z
  else if is_int_code jax then (decl =? jax)%Z || (decl =? 7)%Z
  else if is_float_code jax then
    if (jax =? 1)%Z then (if double then (decl =? 11)%Z else (decl =? 1)%Z)
    else (decl =? jax)%Z
  else if is_complex_code jax then
    (* complex travels as a trailing pair of reals *)
    if (jax =? 14)%Z then (if double then (decl =? 11)%Z else (decl =? 1)%Z) else (decl =? 11)%Z
  else false.

Definition dim_ok (is_input : bool) (j d : dim) : bool :=
  match j, d with
  | DInt a, DInt b => (a =? b)%Z
  | DInt _, _ => negb is_input || false     (* a static JAX dim may be left unknown on outputs, never on inputs *)
  | DSym s, DSym t => if is_input then String.eqb s t else true
  | DSym _, DInt _ => false                  (* a symbolic JAX dim must not be declared as a constant *)
  | DSym _, DUnk => negb is_input
  | DUnk, _ => true
  end.

Definition nchw_dims (l : list dim) : list dim :=
  match l with [n; h; w; c] => [n; c; h; w] | _ => l end.

Definition leaf_ok (is_input double : bool) (j : jleaf) (v : vinfo) : bool :=
  dtype_rule (jl_dtype j) double (vi_dtype v) &&
  match vi_shape v with
  | None => negb is_input
  | Some ds =>
      let want := (if jl_nchw j then nchw_dims (jl_dims j) else jl_dims j)
                  ++ (if is_complex_code (jl_dtype j) then [DInt 2] else []) in
      (List.length ds =? List.length want)%nat && forallb (fun p => dim_ok is_input (fst p) (snd p)) (combine want ds)
  end.

Definition names_distinct (l : list string) : bool :=
  (fix go l := match l with [] => true | x :: r => negb (str_mem x r) && go r end) l.

(* positional inputs come first, in order, one per argument; the rest are named input_params *)
Definition interface_ok (double : bool) (ins outs : list jleaf) (in_names out_names : option (list string))
                        (n_params : nat) (m : omodel) : bool :=
  match graph_by_id m 0 with
  | None => false
  | Some g =>
      (List.length (og_inputs g) =? List.length ins + n_params)%nat &&
      forallb (fun p => leaf_ok true double (fst p) (snd p)) (combine ins (firstn (List.length ins) (og_inputs g))) &&
      (List.length (og_outputs g) =? List.length outs)%nat &&
      forallb (fun p => leaf_ok false double (fst p) (snd p)) (combine outs (og_outputs g)) &&
      (* input names are always distinct; outputs must be distinct (from each other and from the inputs) exactly
         when the user supplies output names ("user-supplied names ... never collide"): without them an output
         may legitimately BE an input or repeat an earlier output (one value, one name) *)
      names_distinct (map vi_name (og_inputs g)) &&
      match out_names with
      | Some _ => names_distinct (map vi_name (og_inputs g) ++ map vi_name (og_outputs g))
      | None => true
      end &&
      match in_names with
      | Some ns => list_eqb String.eqb ns (map vi_name (firstn (List.length ins) (og_inputs g)))
      | None => forallb (fun p => String.eqb (vi_name (snd p)) (positional_name (fst p) (jl_nchw (nth (fst p) ins (mkJL 0 [] false)))))
                        (combine (seq 0 (List.length ins)) (firstn (List.length ins) (og_inputs g)))
      end &&
      match out_names with
      | Some ns => list_eqb String.eqb ns (map vi_name (og_outputs g))
      | None => true
      end
  end.

(* what a passing check means, clause by clause (the checker IS the specification, stated declaratively) *)
Theorem interface_ok_spec double ins outs inn outn np m :
  interface_ok double ins outs inn outn np m = true ->
  exists g, graph_by_id m 0 = Some g /\
    List.length (og_inputs g) = (List.length ins + np)%nat /\ List.length (og_outputs g) = List.length outs /\
    (forall j v, In (j, v) (combine ins (firstn (List.length ins) (og_inputs g))) -> leaf_ok true double j v = true) /\
    (forall j v, In (j, v) (combine outs (og_outputs g)) -> leaf_ok false double j v = true) /\
    names_distinct (map vi_name (og_inputs g)) = true /\
    (outn <> None -> names_distinct (map vi_name (og_inputs g) ++ map vi_name (og_outputs g)) = true).
Proof.
  unfold interface_ok. destruct (graph_by_id m 0) as [g|]; [|discriminate]. intro H.
  repeat (apply andb_prop in H as [H ?]).
  exists g. split; auto.
  repeat match goal with Hx : (_ =? _)%nat = true |- _ => apply Nat.eqb_eq in Hx end.
  split; auto. split; auto. split; [|split; [|split]]; auto.
  3: { intro Hn. destruct outn; [assumption | congruence]. }
  - intros j v Hin. match goal with Hf : forallb _ (combine ins _) = true |- _ => rewrite forallb_forall in Hf; apply (Hf (j, v) Hin) end.
  - intros j v Hin. match goal with Hf : forallb _ (combine outs _) = true |- _ => rewrite forallb_forall in Hf; apply (Hf (j, v) Hin) end.
Qed.

(* the dtype rule implies the property's clauses, for every dtype code and flag *)
Definition code_class (c : Z) : nat :=
  if (c =? 9)%Z then 0%nat else if is_int_code c then 1%nat else if is_float_code c then 2%nat
  else if is_complex_code c then 3%nat else 4%nat.
Theorem dtype_rule_sound jax double decl :
  dtype_rule jax double decl = true ->
  (code_class jax = 0%nat -> decl = 9%Z) /\
  (code_class jax = 1%nat -> decl = jax \/ decl = 7%Z) /\
  (code_class jax = 2%nat -> code_class decl = 2%nat /\ (jax = 1%Z -> decl = if double then 11%Z else 1%Z) /\ (jax <> 1%Z -> decl = jax)) /\
  (code_class jax = 3%nat -> code_class decl = 2%nat).
Proof.
  unfold dtype_rule, code_class. intro H.
  destruct (jax =? 9)%Z eqn:E9.
  - apply Z.eqb_eq in H. subst. repeat split; intros; try discriminate; auto.
  - destruct (is_int_code jax) eqn:Ei.
    + apply orb_prop in H. repeat split; intros; try discriminate.
      destruct H as [H|H]; apply Z.eqb_eq in H; auto.
    + destruct (is_float_code jax) eqn:Ef.
      * repeat split; intros; try discriminate.
        -- destruct (jax =? 1)%Z eqn:E1.
           ++ destruct double; apply Z.eqb_eq in H; subst; reflexivity.
           ++ apply Z.eqb_eq in H. subst. now rewrite E9, Ei, Ef.
        -- subst. simpl in H. destruct double; now apply Z.eqb_eq in H.
        -- destruct (jax =? 1)%Z eqn:E1; [apply Z.eqb_eq in E1; contradiction | now apply Z.eqb_eq in H].
      * destruct (is_complex_code jax) eqn:Ec; [|discriminate].
        repeat split; intros; try discriminate.
        destruct (jax =? 14)%Z; [destruct double|]; apply Z.eqb_eq in H; subst; reflexivity.
Qed.
