(* IoNames (C05): the decision core of jax2onnx.user_interface._apply_custom_io_names_on_ir, the step that
   applies user-supplied input_names / output_names to the top graph.

   After the aliasing step (outputs that are graph inputs or repeat an earlier output get an Identity of
   their own; not modelled, the tie uses graphs where it is the identity) the code has
     rename_pairs : [(value, target)]      positional inputs zipped with input_names ++ outputs zipped with output_names
   and does
     target_by_value = first target per value; a second, different target  -> ValueError("Conflicting ...")
     targets not pairwise distinct                                          -> ValueError("... globally unique")
     a target equals the name of a top-graph value that is NOT renamed      -> ValueError("... collide ...")
     otherwise every renamed value gets its target, every other value keeps its name.

   Values are identified by [vid] (Python id()); [vals] is the top-graph value map as (id, current name). *)
From Coq Require Import List String Bool Arith Lia.
Import ListNotations.

Definition vid := nat.

Fixpoint find_t (v : vid) (m : list (vid * string)) : option string :=
  match m with
  | [] => None
  | (v', t) :: r => if Nat.eqb v v' then Some t else find_t v r
  end.

Inductive name_err := Conflict | NotUnique | Collide.

Fixpoint tbv (pairs acc : list (vid * string)) : option (list (vid * string)) :=
  match pairs with
  | [] => Some acc
  | (v, t) :: r =>
      match find_t v acc with
      | None => tbv r (acc ++ [(v, t)])
      | Some t' => if String.eqb t' t then tbv r acc else None
      end
  end.

Fixpoint nodupb (l : list string) : bool :=
  match l with [] => true | x :: r => negb (existsb (String.eqb x) r) && nodupb r end.

Definition is_renamed (m : list (vid * string)) (v : vid) : bool :=
  match find_t v m with Some _ => true | None => false end.

Definition new_name (m : list (vid * string)) (e : vid * string) : string :=
  match find_t (fst e) m with Some t => t | None => snd e end.

Definition occupied (m vals : list (vid * string)) : list string :=
  map snd (filter (fun e => negb (is_renamed m (fst e))) vals).

Definition apply_names (vals pairs : list (vid * string)) : list (vid * string) + name_err :=
  match tbv pairs [] with
  | None => inr Conflict
  | Some m =>
      let targets := map snd m in
      if negb (nodupb targets) then inr NotUnique
      else if existsb (fun t => existsb (String.eqb t) (occupied m vals)) targets then inr Collide
      else inl (map (fun e => (fst e, new_name m e)) vals)
  end.

(* ------------------------------------------------------------------ small facts *)
Lemma existsb_eqb_In x l : existsb (String.eqb x) l = true <-> In x l.
Proof.
  rewrite existsb_exists. split.
  - intros (y & Hy & E). apply String.eqb_eq in E. subst. exact Hy.
  - intros H. exists x. split; [exact H | apply String.eqb_refl].
Qed.

Lemma nodupb_NoDup l : nodupb l = true -> NoDup l.
Proof.
  induction l as [|x r IH]; simpl; intros H; [constructor|].
  apply andb_prop in H as [H1 H2]. constructor; [|auto].
  intros Hin. apply existsb_eqb_In in Hin. rewrite Hin in H1. discriminate.
Qed.

Lemma NoDup_map_inj {A B} (f : A -> B) l : NoDup (map f l) ->
  forall a b, In a l -> In b l -> f a = f b -> a = b.
Proof.
  induction l as [|x r IH]; simpl; intros ND a b Ha Hb E; [destruct Ha|].
  inversion ND as [|? ? Hnot ND']; subst.
  destruct Ha as [<-|Ha], Hb as [<-|Hb]; auto.
  - exfalso. apply Hnot. rewrite E. apply in_map. exact Hb.
  - exfalso. apply Hnot. rewrite <- E. apply in_map. exact Ha.
Qed.

Lemma inj_on_NoDup_map {A B} (f : A -> B) l : NoDup l ->
  (forall a b, In a l -> In b l -> f a = f b -> a = b) -> NoDup (map f l).
Proof.
  induction l as [|x r IH]; simpl; intros ND Inj; [constructor|].
  inversion ND as [|? ? Hnot ND']; subst. constructor.
  - intros Hin. apply in_map_iff in Hin as (y & E & Hy).
    assert (y = x) by (apply Inj; auto). subst. contradiction.
  - apply IH; auto.
Qed.

Lemma find_t_In v t m : find_t v m = Some t -> In (v, t) m.
Proof.
  induction m as [|[v' t'] r IH]; simpl; [discriminate|].
  destruct (Nat.eqb v v') eqn:E.
  - apply Nat.eqb_eq in E. intros H. injection H as ->. subst. auto.
  - auto.
Qed.

Lemma find_t_app v m e : find_t v (m ++ [e]) =
  match find_t v m with Some t => Some t | None => find_t v [e] end.
Proof.
  induction m as [|[v' t'] r IH]; simpl; [reflexivity|].
  destruct (Nat.eqb v v'); auto.
Qed.

(* what the first-target table holds *)
Lemma tbv_spec pairs : forall acc m, tbv pairs acc = Some m ->
  (forall v t, find_t v acc = Some t -> find_t v m = Some t) /\
  (forall v t, In (v, t) pairs -> find_t v m = Some t) /\
  (forall v t, find_t v m = Some t -> find_t v acc = Some t \/ In (v, t) pairs).
Proof.
  induction pairs as [|[v0 t0] r IH]; simpl; intros acc m H.
  - injection H as <-. repeat split; auto. intros v t [].
  - destruct (find_t v0 acc) as [t'|] eqn:F.
    + destruct (String.eqb t' t0) eqn:E; [|discriminate]. apply String.eqb_eq in E. subst t'.
      apply IH in H as (H1 & H2 & H3). repeat split; auto.
      * intros v t [Eq|Hin]; [injection Eq as <- <-; auto | auto].
      * intros v t Hf. destruct (H3 v t Hf); auto.
    + apply IH in H as (H1 & H2 & H3). repeat split.
      * intros v t Hf. apply H1. rewrite find_t_app, Hf. reflexivity.
      * intros v t [Eq|Hin]; [|auto]. injection Eq as <- <-. apply H1.
        rewrite find_t_app, F. simpl. rewrite Nat.eqb_refl. reflexivity.
      * intros v t Hf. apply H3 in Hf as [Hf|Hin]; [|auto].
        rewrite find_t_app in Hf. destruct (find_t v acc) as [t1|] eqn:F1; [left; congruence|].
        simpl in Hf. destruct (Nat.eqb v v0) eqn:E; [|discriminate].
        apply Nat.eqb_eq in E. injection Hf as <-. subst. right. left. reflexivity.
Qed.

Lemma apply_inl vals pairs vals' : apply_names vals pairs = inl vals' ->
  exists m, tbv pairs [] = Some m /\ NoDup (map snd m) /\
    (forall t, In t (map snd m) -> ~ In t (occupied m vals)) /\
    vals' = map (fun e => (fst e, new_name m e)) vals.
Proof.
  unfold apply_names. destruct (tbv pairs []) as [m|]; [|discriminate].
  destruct (nodupb (map snd m)) eqn:ND; simpl; [|discriminate].
  destruct (existsb _ (map snd m)) eqn:EX; [discriminate|].
  intros H. injection H as <-. exists m. repeat split; auto using nodupb_NoDup.
  intros t Ht Hocc.
  assert (existsb (fun t0 => existsb (String.eqb t0) (occupied m vals)) (map snd m) = true) as C.
  { apply existsb_exists. exists t. split; [exact Ht | apply existsb_eqb_In; exact Hocc]. }
  rewrite C in EX. discriminate.
Qed.

(* ------------------------------------------------------------------ the contracts *)
(* applied exactly: every value named by the user carries exactly that name afterwards *)
Lemma apply_exact vals pairs vals' : apply_names vals pairs = inl vals' ->
  forall v t, In (v, t) pairs -> forall n, In (v, n) vals' -> n = t.
Proof.
  intros H v t Hp n Hin. apply apply_inl in H as (m & Hm & _ & _ & ->).
  apply tbv_spec in Hm as (_ & H2 & _). apply in_map_iff in Hin as ([v1 n1] & E & _).
  simpl in E. injection E as -> <-. unfold new_name. simpl. rewrite (H2 _ _ Hp). reflexivity.
Qed.

(* nothing else is touched: ids in order, values without a user name keep theirs *)
Lemma apply_ids vals pairs vals' : apply_names vals pairs = inl vals' -> map fst vals' = map fst vals.
Proof.
  intros H. apply apply_inl in H as (m & _ & _ & _ & ->). rewrite map_map. reflexivity.
Qed.

Lemma apply_keeps_others vals pairs vals' : apply_names vals pairs = inl vals' ->
  forall v, ~ In v (map fst pairs) -> forall n, In (v, n) vals <-> In (v, n) vals'.
Proof.
  intros H v Hv n. apply apply_inl in H as (m & Hm & _ & _ & ->).
  apply tbv_spec in Hm as (_ & _ & H3).
  assert (find_t v m = None) as Fv.
  { destruct (find_t v m) as [t|] eqn:F; [|reflexivity]. exfalso.
    destruct (H3 _ _ F) as [C|C]; [discriminate|]. apply Hv. apply in_map_iff. exists (v, t). auto. }
  split; intros Hin.
  - apply in_map_iff. exists (v, n). split; [|exact Hin]. unfold new_name. simpl. rewrite Fv. reflexivity.
  - apply in_map_iff in Hin as ([v1 n1] & E & Hin). simpl in E. injection E as -> <-.
    unfold new_name. simpl. rewrite Fv. exact Hin.
Qed.

(* never collide: a graph whose value names were pairwise distinct still has pairwise distinct names *)
Lemma apply_injective vals pairs vals' : apply_names vals pairs = inl vals' ->
  NoDup (map fst vals) -> NoDup (map snd vals) -> NoDup (map snd vals').
Proof.
  intros H NDid NDn. apply apply_inl in H as (m & _ & NDt & Hocc & ->).
  rewrite map_map. simpl.
  apply inj_on_NoDup_map.
  - eapply NoDup_map_inv. exact NDid.
  - intros a b Ha Hb E. unfold new_name in E.
    destruct (find_t (fst a) m) as [ta|] eqn:Fa; destruct (find_t (fst b) m) as [tb|] eqn:Fb.
    + subst tb. apply find_t_In in Fa, Fb.
      assert ((fst a, ta) = (fst b, ta)) as E2 by (apply (NoDup_map_inj snd m NDt); auto).
      injection E2 as E2. apply (NoDup_map_inj fst vals NDid); auto.
    + exfalso. apply (Hocc ta).
      * apply find_t_In in Fa. apply in_map_iff. exists (fst a, ta). auto.
      * rewrite E. unfold occupied. apply in_map. apply filter_In. split; [exact Hb|].
        unfold is_renamed. rewrite Fb. reflexivity.
    + exfalso. apply (Hocc tb).
      * apply find_t_In in Fb. apply in_map_iff. exists (fst b, tb). auto.
      * rewrite <- E. unfold occupied. apply in_map. apply filter_In. split; [exact Ha|].
        unfold is_renamed. rewrite Fa. reflexivity.
    + apply (NoDup_map_inj snd vals NDn); auto.
Qed.

(* the guard that is easy to weaken: a target equal to the name of ANY value that keeps its name is refused,
   not only of inputs / outputs / initializers *)
Lemma apply_refuses_intermediate vals pairs v n t w :
  In (w, t) pairs -> In (v, n) vals -> ~ In v (map fst pairs) -> n = t ->
  forall vals', apply_names vals pairs <> inl vals'.
Proof.
  intros Hp Hv Hnot -> vals' H. apply apply_inl in H as (m & Hm & _ & Hocc & _).
  apply tbv_spec in Hm as (_ & H2 & H3). apply (Hocc t).
  - apply in_map_iff. exists (w, t). split; [reflexivity|]. apply find_t_In. auto.
  - unfold occupied. apply in_map_iff. exists (v, t). split; [reflexivity|]. apply filter_In. split; [exact Hv|].
    unfold is_renamed. simpl. destruct (find_t v m) as [t1|] eqn:F; [|reflexivity]. exfalso.
    destruct (H3 _ _ F) as [C|C]; [discriminate|]. apply Hnot. apply in_map_iff. exists (v, t1). auto.
Qed.

(* non-vacuity: a rename that goes through, and the three refusals *)
Example apply_ok :
  apply_names [(0, "in_0"); (1, "t"); (2, "out_0")]%string [(0, "x"); (2, "y")]%string
  = inl [(0, "x"); (1, "t"); (2, "y")]%string.
Proof. reflexivity. Qed.
Example apply_swap_ok :   (* a target may reuse the OLD name of another renamed value *)
  apply_names [(0, "a"); (1, "b")]%string [(0, "b"); (1, "a")]%string = inl [(0, "b"); (1, "a")]%string.
Proof. reflexivity. Qed.
Example apply_collide :
  apply_names [(0, "in_0"); (1, "t"); (2, "out_0")]%string [(2, "t")]%string = inr Collide.
Proof. reflexivity. Qed.
Example apply_not_unique :
  apply_names [(0, "in_0"); (1, "t"); (2, "out_0")]%string [(0, "x"); (2, "x")]%string = inr NotUnique.
Proof. reflexivity. Qed.
Example apply_conflict :
  apply_names [(0, "in_0")]%string [(0, "x"); (0, "y")]%string = inr Conflict.
Proof. reflexivity. Qed.

(* after the aliasing step (IoAlias.alias_loop_distinct) and the resolution of positional inputs
   (IoResolve.resolve_by_index_NoDup) every renamed value occurs once in [pairs]: then the "Conflicting custom
   names for one value" refusal cannot occur, and the first-target table is the list of pairs itself *)
Lemma find_t_None v m : ~ In v (map fst m) -> find_t v m = None.
Proof.
  induction m as [|[v' t'] r IH]; simpl; intros H; [reflexivity|].
  destruct (Nat.eqb v v') eqn:E.
  - apply Nat.eqb_eq in E. exfalso. apply H. left. symmetry. exact E.
  - apply IH. intros Hin. apply H. right. exact Hin.
Qed.

Lemma tbv_distinct pairs : forall acc, NoDup (map fst (acc ++ pairs)) -> tbv pairs acc = Some (acc ++ pairs).
Proof.
  induction pairs as [|[v t] r IH]; simpl; intros acc ND.
  - rewrite app_nil_r. reflexivity.
  - rewrite find_t_None.
    + rewrite IH; rewrite <- app_assoc; simpl; [reflexivity | exact ND].
    + rewrite map_app in ND. simpl in ND. apply NoDup_remove_2 in ND.
      intros Hin. apply ND. apply in_or_app. left. exact Hin.
Qed.

Lemma apply_no_conflict vals pairs : NoDup (map fst pairs) -> apply_names vals pairs <> inr Conflict.
Proof.
  intros ND. unfold apply_names. rewrite (tbv_distinct pairs []) by exact ND. simpl.
  destruct (negb (nodupb (map snd pairs))); [discriminate|].
  destruct (existsb _ _); discriminate.
Qed.
