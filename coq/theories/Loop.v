(* Loop.v — C06: control flow is preserved for every branch choice and trip count.

   Model (stdlib only, everything total and computable):
     * ONNX `Loop` (optional max trip count M, optional initial condition, loop-carried state,
       per-iteration scan outputs stacked in order) and ONNX `If`, with fuel.  Running out of fuel
       is the distinct outcome `NoFuel`, a runtime error inside a body (Gather out of range) is the
       distinct outcome `Fault`; neither can be confused with a normal result `Done`.
     * JAX `lax.while_loop`, `lax.scan` (forward; with scanned inputs and length-only),
       `lax.fori_loop`, `lax.cond` / `lax.switch` (index clamped into range).
     * the wiring schemes of the four plugins
         jax2onnx/plugins/jax/lax/while_loop.py  (while_scheme, batched_while_scheme)
         jax2onnx/plugins/jax/lax/scan.py        (scan_scheme, scan2_scheme, scan_n_scheme)
         jax2onnx/plugins/jax/lax/fori_loop.py   (fori_scheme)
         jax2onnx/plugins/jax/lax/cond.py        (cond_scheme, cond_plugin)
       as Gallina functions that instantiate onnx_Loop / onnx_if from the JAX-level ingredients.
       The scheme parameters (where M and the initial condition come from, what body output 0 is,
       how scanned inputs are indexed, branch order) are extracted from real exports by
       harness/c06.py and compared with these definitions.
   Theorems: every scheme returns exactly what JAX returns, for EVERY trip count / length / bound /
   predicate (induction on the iteration count; no bound), for every sufficient fuel. *)
From Coq Require Import ZArith List Bool Lia Arith.
Import ListNotations.
Open Scope Z_scope.

(* every automation call is time-bounded *)
Ltac zlia := timeout 20 lia.

(* ------------------------------------------------------------------ outcomes *)
Inductive outcome (A : Type) : Type :=
| Done (a : A)      (* normal termination *)
| Fault             (* runtime error raised inside the body (e.g. Gather index out of range) *)
| NoFuel.           (* the evaluator ran out of fuel: says nothing about the program *)
Arguments Done {A} a.
Arguments Fault {A}.
Arguments NoFuel {A}.

Definition outcome_map {A B} (f : A -> B) (o : outcome A) : outcome B :=
  match o with Done a => Done (f a) | Fault => Fault | NoFuel => NoFuel end.

Definition int64_max : Z := 9223372036854775807.

(* ------------------------------------------------------------------ ONNX Loop / If *)
(* ONNX operator spec (Loop-1..23):
     for (i = 0; (M absent or i < M) && keep; ++i) { (keep, carried..., scan_i...) = body(i, keep, carried...) }
   outputs: final carried values, then every scan output concatenated over the iterations in order
   (zero iterations => empty scan outputs).  An absent `cond` input means true. *)
Definition trip_ok (M : option Z) (i : Z) : bool :=
  match M with None => true | Some m => i <? m end.

Fixpoint onnx_loop {St Y : Type} (fuel : nat) (M : option Z) (i : Z) (keep : bool) (s : St)
         (body : Z -> bool -> St -> option (bool * St * Y)) : outcome (St * list Y) :=
  if keep && trip_ok M i then
    match fuel with
    | O => NoFuel
    | S fuel' =>
        match body i keep s with
        | None => Fault
        | Some (keep', s', y) =>
            match onnx_loop fuel' M (i + 1) keep' s' body with
            | Done (sf, ys) => Done (sf, y :: ys)
            | Fault => Fault
            | NoFuel => NoFuel
            end
        end
    end
  else Done (s, []).

Definition onnx_Loop {St Y : Type} (fuel : nat) (M : option Z) (cond0 : option bool) (s0 : St)
           (body : Z -> bool -> St -> option (bool * St * Y)) : outcome (St * list Y) :=
  onnx_loop fuel M 0 (match cond0 with Some b => b | None => true end) s0 body.

(* ONNX If: then_branch runs when the condition is true *)
Definition onnx_if {B : Type} (c : bool) (then_branch else_branch : unit -> B) : B :=
  if c then then_branch tt else else_branch tt.

(* a Done result does not depend on how much fuel was given *)
Lemma onnx_loop_fuel_mono : forall (St Y : Type) (body : Z -> bool -> St -> option (bool * St * Y))
    fuel M i keep s r,
  onnx_loop fuel M i keep s body = Done r ->
  forall fuel', (fuel <= fuel')%nat -> onnx_loop fuel' M i keep s body = Done r.
Proof.
  intros St Y body fuel. induction fuel as [|f IH]; intros M i keep s r H fuel' Hle.
  - simpl in H. destruct (keep && trip_ok M i) eqn:E; [discriminate|].
    destruct fuel'; simpl; rewrite E; exact H.
  - destruct fuel' as [|f']; [zlia|]. simpl in H |- *.
    destruct (keep && trip_ok M i); [|exact H].
    destruct (body i keep s) as [[[k' s'] y]|]; [|discriminate].
    destruct (onnx_loop f M (i + 1) k' s' body) as [[sf ys]| |] eqn:E; try discriminate.
    rewrite (IH _ _ _ _ _ E f') by zlia. exact H.
Qed.

(* ------------------------------------------------------------------ JAX semantics *)
(* lax.while_loop(cond_fun, body_fun, init):  val = init; while cond_fun(val): val = body_fun(val) *)
Fixpoint jax_while {St : Type} (fuel : nat) (c : St -> bool) (b : St -> St) (s : St) : outcome St :=
  if c s then match fuel with O => NoFuel | S fuel' => jax_while fuel' c b (b s) end
  else Done s.

Fixpoint iter {St : Type} (b : St -> St) (n : nat) (s : St) : St :=
  match n with O => s | S n' => iter b n' (b s) end.

(* the while loop from s0 performs exactly n iterations *)
Definition while_stops_at {St : Type} (c : St -> bool) (b : St -> St) (s0 : St) (n : nat) : Prop :=
  (forall k, (k < n)%nat -> c (iter b k s0) = true) /\ c (iter b n s0) = false.

Lemma while_stops_at_S : forall (St : Type) (c : St -> bool) b s n,
  while_stops_at c b s (S n) -> c s = true /\ while_stops_at c b (b s) n.
Proof.
  intros St c b s n [H1 H2]. split.
  - apply (H1 O). zlia.
  - split; [|exact H2]. intros k Hk. apply (H1 (S k)). zlia.
Qed.

Lemma jax_while_spec : forall (St : Type) (c : St -> bool) b n s,
  while_stops_at c b s n -> forall fuel, (n <= fuel)%nat -> jax_while fuel c b s = Done (iter b n s).
Proof.
  intros St c b n. induction n as [|n IH]; intros s H fuel Hf.
  - destruct H as [_ H]. simpl in H. destruct fuel; simpl; rewrite H; reflexivity.
  - apply while_stops_at_S in H. destruct H as [Hc H]. destruct fuel as [|f]; [zlia|].
    simpl. rewrite Hc. apply IH; [exact H|zlia].
Qed.

Lemma jax_while_inv : forall (St : Type) (c : St -> bool) b fuel s sN,
  jax_while fuel c b s = Done sN ->
  exists n, (n <= fuel)%nat /\ while_stops_at c b s n /\ sN = iter b n s.
Proof.
  intros St c b fuel. induction fuel as [|f IH]; intros s sN H; simpl in H.
  - destruct (c s) eqn:E; [discriminate|]. inversion H; subst. exists O. split; [zlia|].
    split; [|reflexivity]. split; [intros k Hk; zlia|exact E].
  - destruct (c s) eqn:E.
    + destruct (IH _ _ H) as [n [Hn [[H1 H2] Hs]]]. exists (S n). split; [zlia|]. split; [|exact Hs].
      split; [|exact H2]. intros k Hk. destruct k as [|k]; [exact E|]. simpl. apply H1. zlia.
    + inversion H; subst. exists O. split; [zlia|]. split; [|reflexivity].
      split; [intros k Hk; zlia|exact E].
Qed.

(* lax.scan(f, init, xs) forward:  carry = init; ys = []; for x in xs: carry, y = f(carry, x); ys.append(y) *)
Fixpoint jax_scan {C X Y : Type} (f : C -> X -> C * Y) (init : C) (xs : list X) : C * list Y :=
  match xs with
  | [] => (init, [])
  | x :: r => let '(c', y) := f init x in
              let '(cf, ys) := jax_scan f c' r in (cf, y :: ys)
  end.

(* lax.scan(f, init, None, length=n) *)
Definition jax_scan_n {C Y : Type} (f : C -> C * Y) (init : C) (n : nat) : C * list Y :=
  jax_scan (fun c (_ : unit) => f c) init (repeat tt n).

Lemma jax_scan_length : forall (C X Y : Type) (f : C -> X -> C * Y) xs init,
  length (snd (jax_scan f init xs)) = length xs.
Proof.
  intros C X Y f xs. induction xs as [|x r IH]; intros init; simpl; [reflexivity|].
  destruct (f init x) as [c' y]. specialize (IH c'). destruct (jax_scan f c' r) as [cf ys].
  simpl in *. rewrite IH. reflexivity.
Qed.

(* lax.fori_loop(lower, upper, body, init):  val = init; for i in range(lower, upper): val = body(i, val) *)
Definition py_range (lower upper : Z) : list Z :=
  map (fun k => lower + Z.of_nat k) (seq 0 (Z.to_nat (upper - lower))).

Definition jax_fori {St : Type} (lower upper : Z) (body : Z -> St -> St) (init : St) : St :=
  fold_left (fun s i => body i s) (py_range lower upper) init.

(* lax.cond(pred, true_fun, false_fun, x) *)
Definition jax_cond {A B : Type} (p : bool) (true_fun false_fun : A -> B) (x : A) : B :=
  if p then true_fun x else false_fun x.

(* lax.clamp(lo, x, hi) on integers *)
Definition clamp (lo x hi : Z) : Z := Z.max lo (Z.min x hi).

(* lax.switch(index, branches, x): the index is clamped into [0, len(branches)-1] *)
Definition jax_switch {A B : Type} (idx : Z) (branches : list (A -> B)) (x : A) : option B :=
  match nth_error branches (Z.to_nat (clamp 0 idx (Z.of_nat (length branches) - 1))) with
  | Some f => Some (f x)
  | None => None
  end.

(* ------------------------------------------------------------------ scheme: while_loop.py *)
(* WhileLoopPlugin.lower:
     Loop(M = initializer int64 max, cond0 = cond_jaxpr(cond_consts, s0)  [computed OUTSIDE the Loop],
          carried = body_consts ++ cond_consts ++ state)
     body(i, cond_in, consts, s):  s' = body_jaxpr(consts, s); keep' = cond_jaxpr(consts, s');
                                   outputs  keep', Identity(consts), s'      -- no scan outputs
   K = the closed-over constants (both groups), threaded unchanged. *)
Definition while_body {K St : Type} (c : K -> St -> bool) (b : K -> St -> St)
  : Z -> bool -> K * St -> option (bool * (K * St) * unit) :=
  fun _ _ ks => let '(k, s) := ks in let s' := b k s in Some (c k s', (k, s'), tt).

Definition while_scheme {K St : Type} (fuel : nat) (M : Z) (c : K -> St -> bool) (b : K -> St -> St)
           (k : K) (s0 : St) : outcome (K * St) :=
  outcome_map fst (onnx_Loop fuel (Some M) (Some (c k s0)) (k, s0) (while_body c b)).

Lemma while_loop_aux : forall (K St : Type) (c : K -> St -> bool) b k M n i s fuel,
  while_stops_at (c k) (b k) s n -> i + Z.of_nat n <= M -> (n <= fuel)%nat ->
  exists ys, onnx_loop fuel (Some M) i (c k s) (k, s) (while_body c b)
             = Done ((k, iter (b k) n s), ys).
Proof.
  intros K St c b k M n. induction n as [|n IH]; intros i s fuel H HM Hf.
  - destruct H as [_ H]. simpl in H. exists []. destruct fuel; simpl; rewrite H; reflexivity.
  - apply while_stops_at_S in H. destruct H as [Hc H]. destruct fuel as [|f]; [zlia|].
    simpl. rewrite Hc. simpl.
    assert (Hlt : (i <? M) = true) by (apply Z.ltb_lt; zlia). rewrite Hlt.
    destruct (IH (i + 1) (b k s) f H) as [ys Hys]; [zlia|zlia|].
    rewrite Hys. exists (tt :: ys). reflexivity.
Qed.

(* C06 while: if the JAX loop performs n iterations (n = 0 included) and n <= M, the exported Loop
   returns the same final state (and the constants unchanged), for every sufficient fuel *)
Theorem while_scheme_correct : forall (K St : Type) (c : K -> St -> bool) (b : K -> St -> St) k s0 M n,
  while_stops_at (c k) (b k) s0 n -> Z.of_nat n <= M ->
  forall fuel, (n <= fuel)%nat ->
    while_scheme fuel M c b k s0 = Done (k, iter (b k) n s0)
    /\ jax_while fuel (c k) (b k) s0 = Done (iter (b k) n s0).
Proof.
  intros K St c b k s0 M n H HM fuel Hf. split.
  - unfold while_scheme, onnx_Loop.
    destruct (while_loop_aux K St c b k M n 0 s0 fuel H) as [ys Hys]; [zlia|exact Hf|].
    rewrite Hys. reflexivity.
  - apply jax_while_spec; assumption.
Qed.

(* the same, phrased from the JAX evaluator: whatever jax_while returns, the scheme returns *)
Theorem while_scheme_matches_jax : forall (K St : Type) (c : K -> St -> bool) (b : K -> St -> St) k s0 M fuel sN,
  jax_while fuel (c k) (b k) s0 = Done sN -> Z.of_nat fuel <= M ->
  while_scheme fuel M c b k s0 = Done (k, sN).
Proof.
  intros K St c b k s0 M fuel sN H HM.
  destruct (jax_while_inv _ _ _ _ _ _ H) as [n [Hn [Hs HsN]]]. subst sN.
  apply (while_scheme_correct K St c b k s0 M n Hs); zlia.
Qed.

(* why the hypothesis n <= M is needed: a Loop with a small M truncates *)
Example while_scheme_truncates :
  while_scheme 10 2 (fun (_ : unit) s => s <? 5) (fun _ s => s + 1) tt 0 = Done (tt, 2)
  /\ jax_while 10 (fun s => s <? 5) (fun s => s + 1) 0 = Done 5.
Proof. split; reflexivity. Qed.

(* ------------------------------------------------------------------ scheme: vmapped while_loop *)
(* batched predicate (cond_jaxpr output has a non-empty shape):
     Loop(M = int64 max, cond0 = any(p0), carried = p0 ++ consts ++ state)   with p0 = c(s0) per lane
     body: cand = b(s); s' = Where(p_in, cand, s); p' = c(s'); keep' = any(p'); outputs keep', p', s'
   lanes are list positions. *)
Fixpoint zipw {A B C : Type} (f : A -> B -> C) (l1 : list A) (l2 : list B) : list C :=
  match l1, l2 with
  | a :: r1, b :: r2 => f a b :: zipw f r1 r2
  | _, _ => []
  end.

Definition any (l : list bool) : bool := existsb (fun x => x) l.

Definition bw_body {St : Type} (c : St -> bool) (b : St -> St)
  : Z -> bool -> list bool * list St -> option (bool * (list bool * list St) * unit) :=
  fun _ _ st => let '(ps, ss) := st in
    let ss' := zipw (fun (p : bool) s => if p then b s else s) ps ss in
    let ps' := map c ss' in
    Some (any ps', (ps', ss'), tt).

Definition batched_while_scheme {St : Type} (fuel : nat) (M : Z) (c : St -> bool) (b : St -> St)
           (ss0 : list St) : outcome (list St) :=
  let ps0 := map c ss0 in
  outcome_map (fun r => snd (fst r)) (onnx_Loop fuel (Some M) (Some (any ps0)) (ps0, ss0) (bw_body c b)).

(* one lane of the masked loop: advance only while the lane's own predicate holds *)
Definition frozen {St : Type} (c : St -> bool) (b : St -> St) (s : St) : St := if c s then b s else s.

Lemma zipw_map_frozen : forall (St : Type) (c : St -> bool) b ss,
  zipw (fun (p : bool) s => if p then b s else s) (map c ss) ss = map (frozen c b) ss.
Proof. intros St c b ss. induction ss as [|s r IH]; simpl; [reflexivity|]. rewrite IH. reflexivity. Qed.

Lemma any_map : forall (St : Type) (c : St -> bool) ss, any (map c ss) = existsb c ss.
Proof. intros St c ss. induction ss as [|s r IH]; simpl; [reflexivity|]. unfold any in IH. rewrite <- IH. reflexivity. Qed.

Lemma bw_loop_aux : forall (St : Type) (c : St -> bool) b M n i ss fuel,
  while_stops_at (existsb c) (map (frozen c b)) ss n -> i + Z.of_nat n <= M -> (n <= fuel)%nat ->
  exists ps ys, onnx_loop fuel (Some M) i (existsb c ss) (map c ss, ss) (bw_body c b)
                = Done ((ps, iter (map (frozen c b)) n ss), ys).
Proof.
  intros St c b M n. induction n as [|n IH]; intros i ss fuel H HM Hf.
  - destruct H as [_ H]. simpl in H. exists (map c ss), []. destruct fuel; simpl; rewrite H; reflexivity.
  - apply while_stops_at_S in H. destruct H as [Hc H]. destruct fuel as [|f]; [zlia|].
    simpl. rewrite Hc. simpl.
    assert (Hlt : (i <? M) = true) by (apply Z.ltb_lt; zlia). rewrite Hlt.
    rewrite zipw_map_frozen, any_map.
    destruct (IH (i + 1) (map (frozen c b) ss) f H) as [ps [ys Hys]]; [zlia|zlia|].
    rewrite Hys. exists ps, (tt :: ys). reflexivity.
Qed.

Lemma iter_map : forall (St : Type) (g : St -> St) n ss, iter (map g) n ss = map (iter g n) ss.
Proof.
  intros St g n. induction n as [|n IH]; intros ss; simpl.
  - symmetry. apply map_id.
  - rewrite IH, map_map. reflexivity.
Qed.

Lemma iter_frozen_le : forall (St : Type) (c : St -> bool) b n s k,
  while_stops_at c b s n -> (k <= n)%nat -> iter (frozen c b) k s = iter b k s.
Proof.
  intros St c b n. induction n as [|n IH]; intros s k H Hk.
  - assert (k = O) by zlia. subst. reflexivity.
  - destruct k as [|k]; [reflexivity|]. apply while_stops_at_S in H. destruct H as [Hc H].
    simpl. unfold frozen at 2. rewrite Hc. apply IH; [exact H|zlia].
Qed.

Lemma iter_frozen_ge : forall (St : Type) (c : St -> bool) b n s k,
  while_stops_at c b s n -> (n <= k)%nat -> iter (frozen c b) k s = iter b n s.
Proof.
  intros St c b n. induction n as [|n IH]; intros s k H Hk.
  - destruct H as [_ H]. simpl in H. simpl. clear Hk. induction k as [|k IHk]; [reflexivity|].
    simpl. unfold frozen at 2. rewrite H. exact IHk.
  - destruct k as [|k]; [zlia|]. apply while_stops_at_S in H. destruct H as [Hc H].
    simpl. unfold frozen at 2. rewrite Hc. apply IH; [exact H|zlia].
Qed.

(* joint loop = every lane stopped; it stops at the maximum of the per-lane trip counts *)
Lemma joint_stops_at_max : forall (St : Type) (c : St -> bool) b ss ns,
  Forall2 (while_stops_at c b) ss ns ->
  while_stops_at (existsb c) (map (frozen c b)) ss (list_max ns).
Proof.
  intros St c b ss ns HF. split.
  - intros k Hk. rewrite iter_map. rewrite existsb_exists.
    (* some lane has trip count = list_max ns > k *)
    assert (Hex : exists s n, In s ss /\ while_stops_at c b s n /\ (k < n)%nat).
    { clear - HF Hk. induction HF as [|s n ss ns Hs HF IH]; simpl in Hk; [zlia|].
      destruct (Nat.max_spec n (list_max ns)) as [[_ E]|[_ E]]; rewrite E in Hk.
      - destruct (IH Hk) as [s' [n' [Hin Hrest]]]. exists s', n'. split; [right; exact Hin|exact Hrest].
      - exists s, n. split; [left; reflexivity|]. split; [exact Hs|exact Hk]. }
    destruct Hex as [s [n [Hin [Hs Hkn]]]]. exists (iter (frozen c b) k s). split.
    + apply in_map. exact Hin.
    + rewrite (iter_frozen_le St c b n s k Hs) by zlia. destruct Hs as [H1 _]. apply H1. exact Hkn.
  - rewrite iter_map. apply not_true_is_false. intros Hex. rewrite existsb_exists in Hex.
    destruct Hex as [x [Hin Hx]]. rewrite in_map_iff in Hin. destruct Hin as [s [Hxs Hin]]. subst x.
    assert (Hl : exists n, while_stops_at c b s n /\ (n <= list_max ns)%nat).
    { clear - HF Hin. induction HF as [|s' n ss ns Hs HF IH]; [destruct Hin|]. simpl.
      destruct Hin as [E|Hin].
      - subst s'. exists n. split; [exact Hs|zlia].
      - destruct (IH Hin) as [n' [H1 H2]]. exists n'. split; [exact H1|zlia]. }
    destruct Hl as [n [Hs Hn]]. rewrite (iter_frozen_ge St c b n s _ Hs Hn) in Hx.
    destruct Hs as [_ H2]. rewrite H2 in Hx. discriminate.
Qed.

Lemma map_iter_lanes : forall (St : Type) (c : St -> bool) b ss ns N,
  Forall2 (while_stops_at c b) ss ns -> (list_max ns <= N)%nat ->
  map (iter (frozen c b) N) ss = zipw (fun s n => iter b n s) ss ns.
Proof.
  intros St c b ss ns N HF. induction HF as [|s n ss ns Hs HF IH]; intros HN; simpl; [reflexivity|].
  simpl in HN. rewrite (iter_frozen_ge St c b n s N Hs) by zlia. rewrite IH by zlia. reflexivity.
Qed.

(* C06 batched while (vmap of a while_loop): every lane ends in exactly the state its own
   independent JAX while loop ends in — lanes that finished early stay frozen *)
Theorem batched_while_correct : forall (St : Type) (c : St -> bool) (b : St -> St) ss0 ns M,
  Forall2 (while_stops_at c b) ss0 ns -> Z.of_nat (list_max ns) <= M ->
  forall fuel, (list_max ns <= fuel)%nat ->
    batched_while_scheme fuel M c b ss0 = Done (zipw (fun s n => iter b n s) ss0 ns)
    /\ Forall2 (fun s n => jax_while fuel c b s = Done (iter b n s)) ss0 ns.
Proof.
  intros St c b ss0 ns M HF HM fuel Hf. split.
  - unfold batched_while_scheme, onnx_Loop. rewrite any_map.
    destruct (bw_loop_aux St c b M (list_max ns) 0 ss0 fuel (joint_stops_at_max St c b ss0 ns HF))
      as [ps [ys Hys]]; [zlia|exact Hf|].
    rewrite Hys. simpl. rewrite iter_map. f_equal. apply map_iter_lanes; [exact HF|zlia].
  - clear HM. induction HF as [|s n ss ns Hs HF IH]; constructor.
    + apply jax_while_spec; [exact Hs|]. simpl in Hf. zlia.
    + apply IH. simpl in Hf. zlia.
Qed.

(* ------------------------------------------------------------------ scheme: scan.py *)
(* ScanPlugin._lower_with_scan_inputs:
     Loop(M = length (constant when static, else Gather(Shape(xs_0), 0)), cond0 = initializer true,
          carried = consts ++ carry ++ xs)           -- the scanned arrays travel as carried values
     body(i, cond_in, consts, carry, xs):  x = Gather(xs, i, axis=0); (carry', y) = jaxpr(consts, carry, x)
          outputs  Identity(cond_in), Identity(consts), carry', Identity(xs), y     -- y: scan outputs
   The sequence container is abstract (XS with a Gather `get`), so that one theorem covers one
   scanned array and several scanned arrays. *)
Definition scan_body {K C XS X Y : Type} (get : XS -> Z -> option X) (f : K -> C -> X -> C * Y)
  : Z -> bool -> K * C * XS -> option (bool * (K * C * XS) * Y) :=
  fun i keep st => let '(k, c, xs) := st in
    match get xs i with
    | None => None
    | Some x => let '(c', y) := f k c x in Some (keep, (k, c', xs), y)
    end.

Definition scan_scheme_g {K C XS X Y : Type} (fuel : nat) (get : XS -> Z -> option X) (len : Z)
           (f : K -> C -> X -> C * Y) (k : K) (init : C) (xs : XS) : outcome (C * list Y) :=
  outcome_map (fun r => (snd (fst (fst r)), snd r))
              (onnx_Loop fuel (Some len) (Some true) (k, init, xs) (scan_body get f)).

Lemma skipn_nth_error : forall (X : Type) (l : list X) j x,
  nth_error l j = Some x -> skipn j l = x :: skipn (S j) l.
Proof.
  intros X l. induction l as [|a r IH]; intros j x H; destruct j; simpl in *; try discriminate.
  - inversion H; reflexivity.
  - apply IH. exact H.
Qed.

Lemma scan_loop_aux : forall (K C XS X Y : Type) (get : XS -> Z -> option X) (f : K -> C -> X -> C * Y)
    k xs (l : list X),
  (forall j, (j < length l)%nat -> get xs (Z.of_nat j) = nth_error l j) ->
  forall m j c fuel, (j + m = length l)%nat -> (m <= fuel)%nat ->
    onnx_loop fuel (Some (Z.of_nat (length l))) (Z.of_nat j) true (k, c, xs) (scan_body get f)
    = Done ((k, fst (jax_scan (f k) c (skipn j l)), xs), snd (jax_scan (f k) c (skipn j l))).
Proof.
  intros K C XS X Y get f k xs l Hget m. induction m as [|m IH]; intros j c fuel Hj Hf.
  - assert (j = length l) by zlia. subst j. rewrite skipn_all. simpl.
    assert (E : (Z.of_nat (length l) <? Z.of_nat (length l)) = false) by (apply Z.ltb_ge; zlia).
    destruct fuel; simpl; rewrite E; reflexivity.
  - destruct fuel as [|fu]; [zlia|]. simpl.
    assert (E : (Z.of_nat j <? Z.of_nat (length l)) = true) by (apply Z.ltb_lt; zlia). rewrite E.
    assert (Hjl : (j < length l)%nat) by zlia.
    rewrite (Hget j Hjl).
    destruct (nth_error l j) as [x|] eqn:En; [|apply nth_error_None in En; zlia].
    rewrite (skipn_nth_error X l j x En).
    specialize (IH (S j)). remember (skipn (S j) l) as tl eqn:Etl.
    replace (Z.of_nat (S j)) with (Z.of_nat j + 1) in IH by zlia. simpl.
    destruct (f k c x) as [c' y].
    rewrite (IH c' fu) by zlia.
    destruct (jax_scan (f k) c' tl) as [cf ys]. reflexivity.
Qed.

Theorem scan_scheme_g_correct : forall (K C XS X Y : Type) (get : XS -> Z -> option X)
    (f : K -> C -> X -> C * Y) k init xs (l : list X),
  (forall j, (j < length l)%nat -> get xs (Z.of_nat j) = nth_error l j) ->
  forall fuel, (length l <= fuel)%nat ->
    scan_scheme_g fuel get (Z.of_nat (length l)) f k init xs = Done (jax_scan (f k) init l).
Proof.
  intros K C XS X Y get f k init xs l Hget fuel Hf. unfold scan_scheme_g, onnx_Loop.
  change 0 with (Z.of_nat 0).
  rewrite (scan_loop_aux K C XS X Y get f k xs l Hget (length l) O init fuel) by zlia.
  simpl. destruct (jax_scan (f k) init l); reflexivity.
Qed.

(* one scanned array: Gather(xs, i, axis=0); an index outside [0, len) is a runtime error.
   (ONNX Gather also accepts negative indices; the Loop counter starts at 0 and only increases.) *)
Definition gather0 {X : Type} (xs : list X) (i : Z) : option X :=
  if i <? 0 then None else nth_error xs (Z.to_nat i).

Definition scan_scheme {K C X Y : Type} (fuel : nat) (f : K -> C -> X -> C * Y) (k : K) (init : C)
           (xs : list X) : outcome (C * list Y) :=
  scan_scheme_g fuel gather0 (Z.of_nat (length xs)) f k init xs.

(* C06 scan: for every f, init and xs of ANY length (0 included) the exported Loop returns JAX's
   final carry and JAX's stacked ys, in order *)
Theorem scan_scheme_correct : forall (K C X Y : Type) (f : K -> C -> X -> C * Y) k init (xs : list X) fuel,
  (length xs <= fuel)%nat ->
  scan_scheme fuel f k init xs = Done (jax_scan (f k) init xs).
Proof.
  intros K C X Y f k init xs fuel Hf. unfold scan_scheme.
  apply scan_scheme_g_correct; [|exact Hf].
  intros j Hj. unfold gather0.
  assert (E : (Z.of_nat j <? 0) = false) by (apply Z.ltb_ge; zlia). rewrite E.
  rewrite Nat2Z.id. reflexivity.
Qed.

Corollary scan_scheme_zero_length : forall (K C X Y : Type) (f : K -> C -> X -> C * Y) k init fuel,
  scan_scheme fuel f k init (@nil X) = Done (init, @nil Y).
Proof. intros. apply (scan_scheme_correct K C X Y f k init [] fuel). simpl. zlia. Qed.

Corollary scan_scheme_ys_length : forall (K C X Y : Type) (f : K -> C -> X -> C * Y) k init (xs : list X) fuel c ys,
  scan_scheme fuel f k init xs = Done (c, ys) -> (length xs <= fuel)%nat -> length ys = length xs.
Proof.
  intros K C X Y f k init xs fuel c ys H Hf. rewrite scan_scheme_correct in H by exact Hf.
  inversion H as [E]. pose proof (jax_scan_length C X Y (f k) xs init) as L. rewrite E in L. exact L.
Qed.

(* two scanned arrays: M is the leading extent of the FIRST one, both are gathered with the counter *)
Definition gather0_2 {A B : Type} (xs : list A * list B) (i : Z) : option (A * B) :=
  match gather0 (fst xs) i, gather0 (snd xs) i with
  | Some a, Some b => Some (a, b)
  | _, _ => None
  end.

Definition scan2_scheme {K C A B Y : Type} (fuel : nat) (f : K -> C -> A * B -> C * Y) (k : K) (init : C)
           (xs1 : list A) (xs2 : list B) : outcome (C * list Y) :=
  scan_scheme_g fuel gather0_2 (Z.of_nat (length xs1)) f k init (xs1, xs2).

Theorem scan2_scheme_correct : forall (K C A B Y : Type) (f : K -> C -> A * B -> C * Y) k init
    (xs1 : list A) (xs2 : list B) fuel,
  length xs1 = length xs2 -> (length xs1 <= fuel)%nat ->
  scan2_scheme fuel f k init xs1 xs2 = Done (jax_scan (f k) init (combine xs1 xs2)).
Proof.
  intros K C A B Y f k init xs1 xs2 fuel Hlen Hf. unfold scan2_scheme.
  assert (Hc : length (combine xs1 xs2) = length xs1) by (rewrite combine_length; zlia).
  rewrite <- Hc. apply scan_scheme_g_correct; [|zlia].
  intros j Hj. unfold gather0_2, gather0. simpl.
  assert (E : (Z.of_nat j <? 0) = false) by (apply Z.ltb_ge; zlia). rewrite E.
  rewrite Nat2Z.id. clear E Hf fuel.
  revert xs2 j Hlen Hc Hj. induction xs1 as [|a r IH]; intros xs2 j Hlen Hc Hj; destruct xs2 as [|b r2];
    simpl in *; try discriminate; try zlia.
  destruct j as [|j]; simpl; [reflexivity|].
  apply IH; zlia.
Qed.

(* ScanPlugin._lower_without_scan_inputs (xs=None, static length):
     Loop(M = constant length, cond0 = true, carried = consts ++ carry)
     body: (carry', y) = jaxpr(consts, carry); outputs Identity(cond_in), Identity(consts), carry', y *)
Definition scan_n_body {K C Y : Type} (f : K -> C -> C * Y)
  : Z -> bool -> K * C -> option (bool * (K * C) * Y) :=
  fun _ keep st => let '(k, c) := st in let '(c', y) := f k c in Some (keep, (k, c'), y).

Definition scan_n_scheme {K C Y : Type} (fuel : nat) (f : K -> C -> C * Y) (k : K) (init : C) (n : nat)
  : outcome (C * list Y) :=
  outcome_map (fun r => (snd (fst r), snd r))
              (onnx_Loop fuel (Some (Z.of_nat n)) (Some true) (k, init) (scan_n_body f)).

Lemma scan_n_loop_aux : forall (K C Y : Type) (f : K -> C -> C * Y) k M m i c fuel,
  M = i + Z.of_nat m -> (m <= fuel)%nat ->
  onnx_loop fuel (Some M) i true (k, c) (scan_n_body f)
  = Done ((k, fst (jax_scan_n (f k) c m)), snd (jax_scan_n (f k) c m)).
Proof.
  intros K C Y f k M m. induction m as [|m IH]; intros i c fuel HM Hf.
  - assert (E : (i <? M) = false) by (apply Z.ltb_ge; zlia).
    destruct fuel; simpl; rewrite E; reflexivity.
  - destruct fuel as [|fu]; [zlia|]. simpl.
    assert (E : (i <? M) = true) by (apply Z.ltb_lt; zlia). rewrite E.
    unfold jax_scan_n. simpl. destruct (f k c) as [c' y].
    rewrite (IH (i + 1) c' fu) by zlia. unfold jax_scan_n.
    destruct (jax_scan (fun c0 (_ : unit) => f k c0) c' (repeat tt m)) as [cf ys]. reflexivity.
Qed.

Theorem scan_n_scheme_correct : forall (K C Y : Type) (f : K -> C -> C * Y) k init n fuel,
  (n <= fuel)%nat -> scan_n_scheme fuel f k init n = Done (jax_scan_n (f k) init n).
Proof.
  intros K C Y f k init n fuel Hf. unfold scan_n_scheme, onnx_Loop.
  rewrite (scan_n_loop_aux K C Y f k (Z.of_nat n) n 0 init fuel) by zlia.
  simpl. destruct (jax_scan_n (f k) init n); reflexivity.
Qed.

(* ------------------------------------------------------------------ scheme: fori_loop.py *)
(* ForiLoopPlugin (static Python-int bounds only):
     trip_count = max(0, upper - lower)
     Loop(M = initializer trip_count, cond0 = initializer true, carried = state)
     body(i, cond_in, s): idx = Cast(i + lower); s' = body_jaxpr(idx, s); outputs Identity(cond_in), s' *)
Definition fori_body {St : Type} (lower : Z) (body : Z -> St -> St)
  : Z -> bool -> St -> option (bool * St * unit) :=
  fun i keep s => Some (keep, body (lower + i) s, tt).

Definition fori_scheme {St : Type} (fuel : nat) (lower upper : Z) (body : Z -> St -> St) (init : St)
  : outcome St :=
  outcome_map fst (onnx_Loop fuel (Some (Z.max 0 (upper - lower))) (Some true) init (fori_body lower body)).

Lemma fori_loop_aux : forall (St : Type) (lower : Z) (body : Z -> St -> St) M m j s fuel,
  M = Z.of_nat (j + m) -> (m <= fuel)%nat ->
  exists ys, onnx_loop fuel (Some M) (Z.of_nat j) true s (fori_body lower body)
   = Done (fold_left (fun s i => body i s) (map (fun k => lower + Z.of_nat k) (seq j m)) s, ys).
Proof.
  intros St lower body M m. induction m as [|m IH]; intros j s fuel HM Hf.
  - assert (E : (Z.of_nat j <? M) = false) by (apply Z.ltb_ge; zlia). exists [].
    destruct fuel; simpl; rewrite E; reflexivity.
  - destruct fuel as [|fu]; [zlia|]. simpl.
    assert (E : (Z.of_nat j <? M) = true) by (apply Z.ltb_lt; zlia). rewrite E.
    replace (Z.of_nat j + 1) with (Z.of_nat (S j)) by zlia.
    destruct (IH (S j) (body (lower + Z.of_nat j) s) fu) as [ys Hys]; [zlia|zlia|].
    rewrite Hys. exists (tt :: ys). reflexivity.
Qed.

(* C06 fori: for ALL integer bounds (upper <= lower included: zero iterations) *)
Theorem fori_scheme_correct : forall (St : Type) (lower upper : Z) (body : Z -> St -> St) init fuel,
  (Z.to_nat (upper - lower) <= fuel)%nat ->
  fori_scheme fuel lower upper body init = Done (jax_fori lower upper body init).
Proof.
  intros St lower upper body init fuel Hf. unfold fori_scheme, onnx_Loop, jax_fori, py_range.
  change 0 with (Z.of_nat 0) at 2.
  destruct (fori_loop_aux St lower body (Z.max 0 (upper - lower)) (Z.to_nat (upper - lower)) O init fuel)
    as [ys Hys]; [zlia|exact Hf|].
  rewrite Hys. reflexivity.
Qed.

Corollary fori_scheme_zero_trips : forall (St : Type) (lower upper : Z) (body : Z -> St -> St) init fuel,
  upper <= lower -> fori_scheme fuel lower upper body init = Done init.
Proof.
  intros St lower upper body init fuel H.
  rewrite fori_scheme_correct by (replace (Z.to_nat (upper - lower)) with O by zlia; zlia).
  unfold jax_fori, py_range. replace (Z.to_nat (upper - lower)) with O by zlia. reflexivity.
Qed.

(* JAX lowers a fori_loop with non-static bounds to while_loop((i, x) -> i < upper): same function *)
Lemma fori_as_while_aux : forall (St : Type) (upper : Z) (body : Z -> St -> St) m lower s fuel,
  m = Z.to_nat (upper - lower) -> (m <= fuel)%nat ->
  jax_while fuel (fun st : Z * St => fst st <? upper) (fun st => (fst st + 1, body (fst st) (snd st))) (lower, s)
  = Done (Z.max lower upper, fold_left (fun s i => body i s) (py_range lower upper) s).
Proof.
  intros St upper body m. induction m as [|m IH]; intros lower s fuel Hm Hf.
  - unfold py_range. rewrite <- Hm. simpl.
    assert (E : (lower <? upper) = false) by (apply Z.ltb_ge; zlia).
    replace (Z.max lower upper) with lower by zlia.
    destruct fuel; simpl; rewrite E; reflexivity.
  - destruct fuel as [|fu]; [zlia|]. simpl.
    assert (E : (lower <? upper) = true) by (apply Z.ltb_lt; zlia). rewrite E.
    rewrite (IH (lower + 1) (body lower s) fu) by zlia.
    unfold py_range. rewrite <- Hm.
    replace (Z.to_nat (upper - (lower + 1))) with m by zlia.
    replace (Z.max (lower + 1) upper) with (Z.max lower upper) by zlia.
    simpl. rewrite <- seq_shift, map_map.
    replace (lower + 0) with lower by zlia.
    rewrite (map_ext (fun x : nat => lower + Z.of_nat (S x)) (fun k : nat => lower + 1 + Z.of_nat k))
      by (intros a; zlia).
    reflexivity.
Qed.

Lemma jax_fori_as_while : forall (St : Type) (lower upper : Z) (body : Z -> St -> St) init fuel,
  (Z.to_nat (upper - lower) <= fuel)%nat ->
  outcome_map snd (jax_while fuel (fun st : Z * St => fst st <? upper)
                             (fun st => (fst st + 1, body (fst st) (snd st))) (lower, init))
  = Done (jax_fori lower upper body init).
Proof.
  intros St lower upper body init fuel Hf.
  rewrite (fori_as_while_aux St upper body _ lower init fuel eq_refl Hf). reflexivity.
Qed.

(* ------------------------------------------------------------------ scheme: cond.py *)
(* lax.cond(pred, true_fun, false_fun, x) binds cond_p with branches = (false_fun, true_fun) and the
   predicate as selector; lax.switch(i, [b0; b1], x) binds cond_p with branches = (b0, b1) and selector
   clamp(0, i, 1).  CondPlugin.lower:  (false_closed, true_closed) = branches   -- exactly two, else raises
     If(Cast<BOOL>(selector) unless it is already bool, then_branch = true_closed, else_branch = false_closed)
   outer values are captured implicitly by the branch graphs. *)
Definition cast_bool (z : Z) : bool := negb (z =? 0).

Definition cond_scheme {A B : Type} (sel : bool) (branch0 branch1 : A -> B) (x : A) : B :=
  onnx_if sel (fun _ => branch1 x) (fun _ => branch0 x).

(* the dispatcher: None = raises at export time *)
Definition cond_plugin {A B : Type} (sel : bool) (branches : list (A -> B)) (x : A) : option B :=
  match branches with
  | [b0; b1] => Some (cond_scheme sel b0 b1 x)
  | _ => None
  end.

(* C06 cond: both predicate values *)
Theorem cond_scheme_correct : forall (A B : Type) (p : bool) (true_fun false_fun : A -> B) x,
  cond_plugin p [false_fun; true_fun] x = Some (jax_cond p true_fun false_fun x).
Proof. intros A B p tf ff x. destruct p; reflexivity. Qed.

(* lax.cond converts a traced predicate to int32 before binding cond_p; the plugin casts it back *)
Lemma cast_bool_b2z : forall p : bool, cast_bool (Z.b2z p) = p.
Proof. intros p. destruct p; reflexivity. Qed.

Theorem cond_scheme_correct_int_pred : forall (A B : Type) (p : bool) (true_fun false_fun : A -> B) x,
  cond_plugin (cast_bool (Z.b2z p)) [false_fun; true_fun] x = Some (jax_cond p true_fun false_fun x).
Proof. intros A B p tf ff x. rewrite cast_bool_b2z. apply cond_scheme_correct. Qed.

(* C06 two-way switch: EVERY integer index, in range or not *)
Theorem switch2_scheme_correct : forall (A B : Type) (idx : Z) (b0 b1 : A -> B) x,
  cond_plugin (cast_bool (clamp 0 idx 1)) [b0; b1] x = jax_switch idx [b0; b1] x.
Proof.
  intros A B idx b0 b1 x. unfold jax_switch, cond_plugin, cond_scheme, onnx_if, cast_bool, clamp. simpl length.
  destruct (Z_le_gt_dec idx 0) as [H|H].
  - replace (Z.max 0 (Z.min idx (Z.of_nat 2 - 1))) with 0 by zlia.
    replace (Z.max 0 (Z.min idx 1)) with 0 by zlia. reflexivity.
  - replace (Z.max 0 (Z.min idx (Z.of_nat 2 - 1))) with 1 by zlia.
    replace (Z.max 0 (Z.min idx 1)) with 1 by zlia. reflexivity.
Qed.

(* constructs the plugin cannot represent are rejected, not exported with different semantics *)
Theorem cond_plugin_rejects_other_arity : forall (A B : Type) sel (branches : list (A -> B)) x,
  length branches <> 2%nat -> cond_plugin sel branches x = None.
Proof.
  intros A B sel branches x H. destruct branches as [|b0 [|b1 [|b2 r]]]; simpl in *; try reflexivity.
  exfalso. apply H. reflexivity.
Qed.

(* the clamp emitted by lax.switch is load-bearing: a bare Cast-to-bool of the index would send -1 to
   branch 1 where JAX takes branch 0 *)
Example switch_needs_clamp :
  cond_plugin (cast_bool (-1)) [fun x : Z => x * 3; fun x => x + 10] 2 = Some 12
  /\ jax_switch (-1) [fun x : Z => x * 3; fun x => x + 10] 2 = Some 6.
Proof. split; reflexivity. Qed.

(* ------------------------------------------------------------------ non-vacuity *)
(* while: count up to 3 while doubling an accumulator that also adds the captured constant k = 10 *)
Definition ex_c (k : Z) (s : Z * Z) : bool := fst s <? 3.
Definition ex_b (k : Z) (s : Z * Z) : Z * Z := (fst s + 1, 2 * snd s + k).

Example ex_while_stops_0 : while_stops_at (ex_c 10) (ex_b 10) (3, 1) 0.
Proof. split; [intros k H; zlia|reflexivity]. Qed.
Example ex_while_stops_1 : while_stops_at (ex_c 10) (ex_b 10) (2, 1) 1.
Proof. split; [intros k H; assert (k = O) by zlia; subst; reflexivity|reflexivity]. Qed.
Example ex_while_stops_3 : while_stops_at (ex_c 10) (ex_b 10) (0, 1) 3.
Proof.
  split; [|reflexivity]. intros k H.
  destruct k as [|[|[|k]]]; try reflexivity. zlia.
Qed.
Example ex_while_0 : while_scheme 0 int64_max ex_c ex_b 10 (3, 1) = Done (10, (3, 1)).
Proof. reflexivity. Qed.
Example ex_while_1 : while_scheme 1 int64_max ex_c ex_b 10 (2, 1) = Done (10, (3, 12)).
Proof. reflexivity. Qed.
Example ex_while_3 : while_scheme 3 int64_max ex_c ex_b 10 (0, 1) = Done (10, (3, 78)).
Proof. reflexivity. Qed.
Example ex_while_nofuel : while_scheme 2 int64_max ex_c ex_b 10 (0, 1) = NoFuel.
Proof. reflexivity. Qed.

(* scan: running sum, emitting carry * x *)
Definition ex_f (k : Z) (c x : Z) : Z * Z := (c + x, k * c * x).
Example ex_scan_0 : scan_scheme 0 ex_f 2 5 [] = Done (5, []).
Proof. reflexivity. Qed.
Example ex_scan_1 : scan_scheme 1 ex_f 2 5 [7] = Done (12, [70]).
Proof. reflexivity. Qed.
Example ex_scan_3 : scan_scheme 3 ex_f 2 5 [1; 2; 3] = Done (11, [10; 24; 48]).
Proof. reflexivity. Qed.
Example ex_scan_fault : (* a Loop told to run longer than the sequence faults; it is not silently padded *)
  scan_scheme_g 5 gather0 4 ex_f 2 5 [1; 2; 3] = Fault.
Proof. reflexivity. Qed.
Example ex_scan_n_3 : scan_n_scheme 3 (fun (k c : Z) => (2 * c, c + k)) 1 3 3 = Done (24, [4; 7; 13]).
Proof. reflexivity. Qed.

(* fori: v = 2 v + i *)
Example ex_fori_5 : fori_scheme 5 2 7 (fun i v => 2 * v + i) 1 = Done 120.
Proof. reflexivity. Qed.
Example ex_fori_0 : fori_scheme 0 5 2 (fun i v => 2 * v + i) 1 = Done 1.
Proof. reflexivity. Qed.
Example ex_fori_neg : fori_scheme 2 (-3) (-1) (fun i v => 2 * v + i) 1 = Done (-4).
Proof. reflexivity. Qed.

(* batched while: lanes stop after 3, 0 and 1 iterations *)
Example ex_batched : batched_while_scheme 3 int64_max (fun s => s <? 3) (fun s => s + 1) [0; 7; 2]
                     = Done [3; 7; 3].
Proof. reflexivity. Qed.
