(* LiftCall (C01): nested jit / pjit INSIDE the program-level theorem.
   A call equation (jit, pjit, closed_call) carries its body as a parameter.  The converter lowers it by lowering the body in
   place, in a fresh variable scope whose only bindings are the body's invars -> the graph values of the operands, and then
   binds the equation's outvar to the graph value of the body's outvar.  call_plugin is that lowering over the dispatcher
   model of LoweringSem (the body is lowered by the SAME dispatcher slower_jaxpr); psem_call is the JAX meaning of the call
   (evaluate the body on the operand values).
     call_clause      the call plugin meets the per-equation contract whenever the registry it lowers the body with does;
     extend_contract  adding a call under a new key to a registry that meets LoweringSem.eqn_contract gives a registry that
                      meets it (nested calls: extend innermost first; an already used key is ignored);
   so LoweringSem.lower_jaxpr_correct — and with it LiftStruct.struct_program_correct — covers programs with nested jit
   without any flattening outside Coq.  Generic in the value type and both semantics.  One result per call (the shape of
   every call in the corpus); operands are variables (literal operands are constant equations, as everywhere in LiftStruct). *)
From Coq Require Import String List Bool Arith Lia.
From J2O Require Import Graph Lowering LoweringSem.
Import ListNotations.

Record call := mkCall { cl_body : jaxpr; cl_ins : list var; cl_out : var }.

Fixpoint cresolve (s : sctx) (ins : list invar) : option (list vname) :=
  match ins with
  | [] => Some []
  | IVar v :: r => match bound (erase s) v, cresolve s r with Some n, Some ar => Some (n :: ar) | _, _ => None end
  | ILit :: _ => None
  end.
(* the fresh scope of the body *)
Definition inner_ctx (s : sctx) (c : call) (args : list vname) : sctx := mkS (combine (cl_ins c) args) (s_inputs s) (s_nodes s).
Definition call_plugin (reg : sregistry) (c : call) : splugin := fun s e =>
  if negb (Nat.eqb (length (e_ins e)) (length (cl_ins c))) then Err EPlugin else
  match e_outs e with
  | [o] =>
      match cresolve s (e_ins e) with
      | None => Err EUnboundInput
      | Some args =>
          match slower_jaxpr reg (inner_ctx s c args) (cl_body c) with
          | Err x => Err x
          | Ok si' =>
              match bound (erase si') (cl_out c) with
              | None => Err EUnboundOutput
              | Some n => Ok (mkS (match o with Some v => (v, n) :: s_bind s | None => s_bind s end) (s_inputs s) (s_nodes si'), RNone)
              end
          end
      end
  | _ => Err EPlugin
  end.

Lemma bind_returned_RNone' c e : bind_returned c e RNone = Ok c.
Proof. unfold bind_returned. now destruct (filter (needs_binding c) (non_drop e)). Qed.

Section Call.
  Variable V : Type.
  Variable gsem : string -> list nat -> list V -> option (list V).
  Notation genv := (env V).
  Notation geval := (eval V gsem).

  (* the environment of the body: its invars carry the operand values *)
  Fixpoint env_of (ivs : list var) (vals : list V) : jenv V :=
    match ivs, vals with
    | v :: ir, a :: vr => fun w => if Nat.eqb w v then Some a else env_of ir vr w
    | _, _ => fun _ => None
    end.
  (* JAX: a call evaluates its body *)
  Definition psem_call (psem : string -> list V -> option (list V)) (lit : V) (c : call) (vals : list V) : option (list V) :=
    if Nat.eqb (length vals) (length (cl_ins c)) then
      match jeval V psem lit (cl_body c) (env_of (cl_ins c) vals) with
      | Some r' => match r' (cl_out c) with Some a => Some [a] | None => None end
      | None => None
      end
    else None.

  Section One.
    Variable psem : string -> list V -> option (list V).
    Variable reg : sregistry.
    Variable lit : V.
    Hypothesis Hreg : eqn_contract V psem gsem reg lit.

    (* structure of what the dispatcher emits for a whole jaxpr, from the contract alone *)
    Lemma slower_jaxpr_shape : forall jp s s', slower_jaxpr reg s jp = Ok s' ->
      exists new, s_nodes s' = s_nodes s ++ new /\ s_inputs s' = s_inputs s.
    Proof.
      induction jp as [|e t IH]; simpl; intros s s' H.
      - injection H as <-. exists []. now rewrite app_nil_r.
      - destruct (slower_eqn reg s e) as [s1|x] eqn:E1; [|discriminate].
        destruct (Hreg s e s1 E1) as (n1 & Hn1 & Hi1 & _). destruct (IH s1 s' H) as (n2 & Hn2 & Hi2).
        exists (n1 ++ n2). split; [rewrite Hn2, Hn1; now rewrite app_assoc | congruence].
    Qed.

    Lemma cresolve_related s r g : related V s r g ->
      forall ins args vals, cresolve s ins = Some args -> jreads V r lit ins = Some vals ->
      length args = length ins /\ length vals = length ins /\
      forall i n, nth_error args i = Some n -> exists a, nth_error vals i = Some a /\ g n = Some a.
    Proof.
      intros [Hr1 Hr2]. induction ins as [|[v|] ins IH]; intros args vals Hres Hread; simpl in *.
      - injection Hres as <-. injection Hread as <-. repeat split; auto. intros [|i] n H; discriminate.
      - destruct (bound (erase s) v) as [n0|] eqn:Eb; [|discriminate].
        destruct (cresolve s ins) as [ar|] eqn:Er; [|discriminate]. injection Hres as <-.
        destruct (r v) as [a0|] eqn:Erv; [|discriminate].
        destruct (jreads V r lit ins) as [vs|] eqn:Ejr; [|discriminate]. injection Hread as <-.
        destruct (IH ar vs eq_refl eq_refl) as (L1 & L2 & Hn). simpl. repeat split; try lia.
        intros [|i] n H; simpl in *.
        + injection H as <-. destruct (Hr1 v n0 Eb) as (a' & Ha' & Hg). rewrite Erv in Ha'. injection Ha' as <-. eauto.
        + now apply Hn.
      - discriminate.
    Qed.

    (* the fresh scope is related to the body's environment *)
    Lemma inner_related s r g c args vals : related V s r g ->
      length args = length (cl_ins c) -> length vals = length (cl_ins c) ->
      (forall i n, nth_error args i = Some n -> exists a, nth_error vals i = Some a /\ g n = Some a) ->
      related V (inner_ctx s c args) (env_of (cl_ins c) vals) g.
    Proof.
      intros [Hr1 Hr2] La Lv Hn. split; [|exact Hr2].
      unfold inner_ctx, bound, erase. simpl. generalize dependent vals. generalize dependent args.
      induction (cl_ins c) as [|iv ivs IH]; intros [|n0 args] La [|a0 vals] Lv Hn v n Hb; simpl in *; try discriminate.
      destruct (Nat.eqb_spec iv v) as [->|Hne].
      - injection Hb as <-. rewrite Nat.eqb_refl. destruct (Hn 0 n0 eq_refl) as (a & Ha & Hg). simpl in Ha. injection Ha as <-. eauto.
      - destruct (Nat.eqb_spec v iv) as [->|_]; [contradiction|].
        apply (IH args ltac:(lia) vals ltac:(lia)); [|exact Hb]. intros i n1 H. exact (Hn (S i) n1 H).
    Qed.

    (* ---- adding a call under a key (ignored when the key is already taken) *)
    Variable key : string.
    Variable c : call.
    Definition ext_reg : sregistry := fun q =>
      if String.eqb q key then match reg q with Some p => Some p | None => Some (call_plugin reg c) end else reg q.
    Definition ext_psem : string -> list V -> option (list V) := fun q vals =>
      if String.eqb q key then match reg q with Some _ => psem q vals | None => psem_call psem lit c vals end else psem q vals.

    Lemma slower_eqn_ext_old s e : (String.eqb (e_prim e) key = false \/ reg (e_prim e) <> None) ->
      slower_eqn ext_reg s e = slower_eqn reg s e /\ ext_psem (e_prim e) = psem (e_prim e).
    Proof.
      intro H. unfold slower_eqn, ext_reg, ext_psem. destruct (String.eqb (e_prim e) key) eqn:E; [|now split].
      destruct H as [H|H]; [discriminate|]. destruct (reg (e_prim e)) as [p|]; [now split | contradiction].
    Qed.

    Theorem extend_contract : eqn_contract V ext_psem gsem ext_reg lit.
    Proof.
      intros s e s' H.
      destruct (String.eqb (e_prim e) key) eqn:Ek.
      2:{ destruct (slower_eqn_ext_old s e (or_introl Ek)) as [E1 E2]. rewrite E1 in H. rewrite E2. exact (Hreg s e s' H). }
      destruct (reg (e_prim e)) as [p0|] eqn:Er.
      { assert (Hne : reg (e_prim e) <> None) by (rewrite Er; discriminate).
        destruct (slower_eqn_ext_old s e (or_intror Hne)) as [E1 E2]. rewrite E1 in H. rewrite E2.
        exact (Hreg s e s' H). }
      (* the call *)
      assert (Hps : ext_psem (e_prim e) = psem_call psem lit c) by (unfold ext_psem; now rewrite Ek, Er).
      rewrite Hps. clear Hps.
      unfold slower_eqn, ext_reg in H. rewrite Ek, Er in H.
      destruct (negb (inputs_bound (erase s) e)); [discriminate|].
      unfold call_plugin in H.
      destruct (negb (Nat.eqb (length (e_ins e)) (length (cl_ins c)))) eqn:Ear; [discriminate|].
      apply negb_false_iff, Nat.eqb_eq in Ear.
      destruct (e_outs e) as [|o [|? ?]] eqn:Eo; try discriminate.
      destruct (cresolve s (e_ins e)) as [args|] eqn:Ecr; [|discriminate].
      destruct (slower_jaxpr reg (inner_ctx s c args) (cl_body c)) as [si'|x] eqn:Ebody; [|discriminate].
      destruct (bound (erase si') (cl_out c)) as [nout|] eqn:Eout; [|discriminate].
      set (s1 := mkS (match o with Some v => (v, nout) :: s_bind s | None => s_bind s end) (s_inputs s) (s_nodes si')) in *.
      rewrite bind_returned_RNone' in H.
      destruct (outputs_ok (erase s1) (non_drop e)) as [[]|x] eqn:Eok; [|discriminate].
      injection H as <-.
      destruct (slower_jaxpr_shape _ _ _ Ebody) as (new & Hnew & Hinp). simpl in Hnew, Hinp.
      exists new. split; [exact Hnew|]. split; [reflexivity|]. split.
      - intros w Hw. unfold non_drop in Hw. rewrite Eo in Hw. unfold bound. simpl.
        destruct o as [v|]; simpl in *; [|reflexivity].
        destruct (Nat.eqb_spec v w) as [->|]; [exfalso; apply Hw; now left | reflexivity].
      - intros r g vals outs Hrel Hread Hsem Hlen.
        unfold psem_call in Hsem.
        destruct (Nat.eqb (length vals) (length (cl_ins c))) eqn:Elv; [|discriminate]. apply Nat.eqb_eq in Elv.
        destruct (jeval V psem lit (cl_body c) (env_of (cl_ins c) vals)) as [ri'|] eqn:Ej; [|discriminate].
        destruct (ri' (cl_out c)) as [aout|] eqn:Eri; [|discriminate]. injection Hsem as <-.
        destruct (cresolve_related s r g Hrel (e_ins e) args vals Ecr Hread) as (La & Lv & Hn).
        assert (Hrin : related V (inner_ctx s c args) (env_of (cl_ins c) vals) g)
          by (apply (inner_related s r g c args vals Hrel); [exact (eq_trans La Ear) | exact Elv | exact Hn]).
        destruct (lower_jaxpr_correct V psem gsem reg lit Hreg (cl_body c) _ si' Ebody _ g ri' Hrin Ej)
          as (new' & g' & Hnew' & Hev & Hle & Hrel').
        simpl in Hnew'. assert (new' = new) by (apply (app_inv_head (s_nodes s)); congruence). subst new'.
        exists g'. split; [exact Hev|]. split; [exact Hle|].
        destruct Hrel as [Hr1 Hr2]. destruct Hrel' as [Hi1 Hi2]. split.
        + intros w n Hb. unfold bound in Hb. simpl in Hb.
          destruct o as [v|]; simpl in *.
          * destruct (Nat.eqb_spec v w) as [->|Hne].
            -- injection Hb as <-. rewrite Nat.eqb_refl. destruct (Hi1 (cl_out c) nout Eout) as (a & Ha & Hg).
               rewrite Eri in Ha. injection Ha as <-. eauto.
            -- destruct (Hr1 w n Hb) as (a & Hra & Hga). exists a.
               destruct (Nat.eqb_spec w v) as [->|]; [contradiction|]. split; [exact Hra | now apply Hle].
          * destruct (Hr1 w n Hb) as (a & Hra & Hga). exists a. split; [exact Hra | now apply Hle].
        + intros n a Hn'. specialize (Hi2 n a Hn'). unfold connected, erase in *. simpl in *. now rewrite Hinp in Hi2.
    Qed.
  End One.

  (* nested calls: a list of (key, call), innermost first; each body is lowered with the registry built so far *)
  Fixpoint ext_all (psem : string -> list V -> option (list V)) (reg : sregistry) (lit : V) (cs : list (string * call))
    : (string -> list V -> option (list V)) * sregistry :=
    match cs with
    | [] => (psem, reg)
    | (k, c) :: r => ext_all (ext_psem psem reg lit k c) (ext_reg reg k c) lit r
    end.
  Theorem ext_all_contract : forall cs psem reg lit, eqn_contract V psem gsem reg lit ->
    eqn_contract V (fst (ext_all psem reg lit cs)) gsem (snd (ext_all psem reg lit cs)) lit.
  Proof.
    induction cs as [|[k c] cs IH]; intros psem reg lit H; simpl; [exact H|]. apply IH. now apply extend_contract.
  Qed.
  (* PROGRAMS WITH NESTED JIT: the glue theorem over the extended registry *)
  Theorem nested_program_correct cs psem reg lit : eqn_contract V psem gsem reg lit ->
    forall jp s s', slower_jaxpr (snd (ext_all psem reg lit cs)) s jp = Ok s' ->
    forall r g r', related V s r g -> jeval V (fst (ext_all psem reg lit cs)) lit jp r = Some r' ->
    exists new g', s_nodes s' = s_nodes s ++ new /\ geval new g = Some g' /\ genv_le V g g' /\ related V s' r' g'.
  Proof. intro H. exact (lower_jaxpr_correct V _ gsem _ lit (ext_all_contract cs psem reg lit H)). Qed.
End Call.
