(* IoResolve (C05): jax2onnx.user_interface._resolve_positional_inputs, which decides WHICH graph inputs the
   user's input_names are applied to (the pairs then go through IoNames.apply_names).

     if n == 0: return []
     indexed = {}
     for value in graph.inputs:                       # name parsed by ^in_(\d+)(?:_nchw)?$
         if parse(value.name) = Some idx: indexed.setdefault(idx, value)
     if all(idx in indexed for idx in range(n)): return [indexed[idx] for idx in range(n)]
     fallback = list(graph.inputs)[:n]
     if len(fallback) != n: raise ValueError
     return fallback

   A graph input is (value id, parsed positional index or None); the regular-expression parse itself is done by
   the harness with the module's own compiled pattern (glue). *)
From Coq Require Import List Bool Arith Lia.
Import ListNotations.

Definition vid := nat.
Definition ginp := (vid * option nat)%type.

(* indexed.setdefault over the inputs in order: the FIRST input carrying index i *)
Fixpoint first_with (i : nat) (ins : list ginp) : option vid :=
  match ins with
  | [] => None
  | (v, Some j) :: r => if Nat.eqb i j then Some v else first_with i r
  | (_, None) :: r => first_with i r
  end.

Fixpoint collect (ins : list ginp) (idxs : list nat) : option (list vid) :=
  match idxs with
  | [] => Some []
  | i :: r => match first_with i ins, collect ins r with
              | Some v, Some l => Some (v :: l)
              | _, _ => None
              end
  end.

Definition resolve (ins : list ginp) (n : nat) : option (list vid) :=
  match n with
  | 0 => Some []
  | _ => match collect ins (seq 0 n) with
         | Some l => Some l
         | None => if Nat.eqb (List.length (firstn n ins)) n then Some (map fst (firstn n ins)) else None
         end
  end.

(* ------------------------------------------------------------------ facts *)
Lemma first_with_In i ins v : first_with i ins = Some v -> In (v, Some i) ins.
Proof.
  induction ins as [|[w [j|]] r IH]; simpl; try discriminate.
  - destruct (Nat.eqb i j) eqn:E.
    + apply Nat.eqb_eq in E. intros H. injection H as ->. subst. left. reflexivity.
    + intros H. right. auto.
  - intros H. right. auto.
Qed.

Lemma collect_length ins : forall idxs l, collect ins idxs = Some l -> List.length l = List.length idxs.
Proof.
  induction idxs as [|i r IH]; simpl; intros l H.
  - injection H as <-. reflexivity.
  - destruct (first_with i ins); [|discriminate]. destruct (collect ins r) as [l'|]; [|discriminate].
    injection H as <-. simpl. f_equal. auto.
Qed.

Lemma collect_nth ins : forall idxs l, collect ins idxs = Some l ->
  forall k i, nth_error idxs k = Some i -> exists v, nth_error l k = Some v /\ first_with i ins = Some v.
Proof.
  induction idxs as [|i0 r IH]; simpl; intros l H k i Hk.
  - destruct k; discriminate.
  - destruct (first_with i0 ins) as [v0|] eqn:F; [|discriminate].
    destruct (collect ins r) as [l'|] eqn:C; [|discriminate]. injection H as <-.
    destruct k as [|k]; simpl in *.
    + injection Hk as <-. eauto.
    + eapply IH; eauto.
Qed.

(* exactly one value per positional argument *)
Lemma resolve_length ins n l : resolve ins n = Some l -> List.length l = n.
Proof.
  unfold resolve. destruct n as [|n]; [intros H; injection H as <-; reflexivity|].
  destruct (collect ins (seq 0 (S n))) as [l'|] eqn:C.
  - intros H. injection H as <-. apply collect_length in C. rewrite seq_length in C. exact C.
  - destruct (Nat.eqb _ _) eqn:E; [|discriminate]. apply Nat.eqb_eq in E.
    intros H. injection H as <-. rewrite map_length. exact E.
Qed.

(* when every positional index 0..n-1 is present among the inputs (in ANY order, with anything else in between),
   argument k is the input that carries index k: the user's k-th name lands on the k-th positional argument *)
Lemma resolve_by_index ins n l :
  (forall k, k < n -> exists v, first_with k ins = Some v) ->
  resolve ins n = Some l ->
  forall k, k < n -> exists v, nth_error l k = Some v /\ In (v, Some k) ins.
Proof.
  intros Hall H k Hk. unfold resolve in H. destruct n as [|n]; [lia|].
  destruct (collect ins (seq 0 (S n))) as [l'|] eqn:C.
  - injection H as <-.
    destruct (collect_nth _ _ _ C k k) as (v & Hn & Hf).
    { rewrite nth_error_nth' with (d := 0) by (rewrite seq_length; lia). rewrite seq_nth by lia. reflexivity. }
    exists v. split; [exact Hn | apply first_with_In; exact Hf].
  - exfalso. clear H.
    assert (forall idxs, (forall i, In i idxs -> i < S n) -> collect ins idxs <> None) as G.
    { induction idxs as [|i r IH]; simpl; intros Hi; [discriminate|].
      destruct (Hall i) as [v Hv]; [apply Hi; left; reflexivity|]. rewrite Hv.
      destruct (collect ins r) eqn:Cr; [discriminate|]. exfalso. apply IH; [|reflexivity].
      intros j Hj. apply Hi. right. exact Hj. }
    apply (G (seq 0 (S n))); [|exact C]. intros i Hi. apply in_seq in Hi. lia.
Qed.

(* distinct positional arguments get distinct values (needed so that two names never meet on one value) *)
Lemma resolve_by_index_NoDup ins n l :
  NoDup (map fst ins) ->
  (forall k, k < n -> exists v, first_with k ins = Some v) ->
  resolve ins n = Some l -> NoDup l.
Proof.
  intros ND Hall H.
  pose proof (resolve_length _ _ _ H) as HL.
  apply NoDup_nth_error. intros a b Ha E.
  assert (a < n) as Ha' by lia.
  destruct (resolve_by_index _ _ _ Hall H a Ha') as (va & Hna & Hia).
  rewrite Hna in E. symmetry in E.
  assert (b < n) as Hb' by (rewrite <- HL; apply nth_error_Some; congruence).
  destruct (resolve_by_index _ _ _ Hall H b Hb') as (vb & Hnb & Hib).
  rewrite Hnb in E. injection E as ->.
  (* (va, Some a) and (va, Some b) are both inputs; ids are unique, so the entries coincide *)
  assert (forall (l0 : list ginp) x y z, NoDup (map fst l0) -> In (x, y) l0 -> In (x, z) l0 -> y = z) as U.
  { induction l0 as [|[p q] r IH]; simpl; intros x y z N I1 I2; [destruct I1|].
    inversion N as [|? ? Hnot N']; subst.
    destruct I1 as [E1|I1], I2 as [E2|I2].
    - congruence.
    - injection E1 as -> ->. exfalso. apply Hnot. apply in_map_iff. exists (x, z). auto.
    - injection E2 as -> ->. exfalso. apply Hnot. apply in_map_iff. exists (x, y). auto.
    - eauto. }
  pose proof (U _ _ _ _ ND Hia Hib) as E. congruence.
Qed.

(* otherwise the first n graph inputs are taken, and the call fails when there are fewer *)
Lemma resolve_fallback ins n :
  0 < n -> collect ins (seq 0 n) = None ->
  resolve ins n = if Nat.leb n (List.length ins) then Some (map fst (firstn n ins)) else None.
Proof.
  intros Hn C. unfold resolve. destruct n as [|n]; [lia|]. rewrite C.
  rewrite firstn_length. destruct (Nat.leb (S n) (List.length ins)) eqn:E.
  - apply Nat.leb_le in E. rewrite Nat.min_l by lia. rewrite Nat.eqb_refl. reflexivity.
  - apply Nat.leb_gt in E. rewrite Nat.min_r by lia.
    destruct (Nat.eqb (List.length ins) (S n)) eqn:E2; [apply Nat.eqb_eq in E2; lia | reflexivity].
Qed.

(* non-vacuity: inputs reordered by an earlier pass, a keyword-parameter input in between *)
Example resolve_reordered :
  resolve [(7, Some 1); (3, None); (5, Some 0); (9, Some 2)] 3 = Some [5; 7; 9].
Proof. reflexivity. Qed.
Example resolve_fallback_ex : resolve [(7, None); (3, Some 0); (5, None)] 2 = Some [7; 3].
Proof. reflexivity. Qed.
Example resolve_fails : resolve [(7, None)] 2 = None.
Proof. reflexivity. Qed.
