(* OnnxInt: exact scalar semantics of the integer / boolean ONNX operators the exact kernels of C01 lower to
   (theories/Kernels.v).  An integer tensor element of type sb = (signed?, bits) is the mathematical integer it
   denotes; every operator returns the two's-complement wrap (Dtype.wrap) of the mathematical result.
   Booleans are Coq bools.  Floor / Ceil / Round act on exact fractions n/d (d > 0) — every finite binary
   float is such a fraction, and the three results are integers the format represents exactly.
   Validated against onnxruntime on a boundary grid per dtype on every run (harness/c01k.py, tie D1). *)
From Coq Require Import ZArith QArith Qround Bool Lia List.
From J2O Require Import PyLib Dtype.
Import ListNotations.
Local Open Scope Z_scope.

Ltac Zify.zify_post_hook ::= Z.to_euclidean_division_equations.

Definition ity := (bool * Z)%type.          (* signed?, bit width *)
Definition I8 : ity := (true, 8).    Definition U8 : ity := (false, 8).
Definition I16 : ity := (true, 16).  Definition U16 : ity := (false, 16).
Definition I32 : ity := (true, 32).  Definition U32 : ity := (false, 32).
Definition I64 : ity := (true, 64).  Definition U64 : ity := (false, 64).
Definition std_itys : list ity := [I8; I16; I32; I64; U8; U16; U32; U64].
Definition is_signed (sb : ity) : bool := fst sb.
Definition bits (sb : ity) : Z := snd sb.

(* ---------------------------------------------------------------- arithmetic *)
Definition o_add (sb : ity) (x y : Z) : Z := wrap sb (x + y).
Definition o_sub (sb : ity) (x y : Z) : Z := wrap sb (x - y).
Definition o_mul (sb : ity) (x y : Z) : Z := wrap sb (x * y).
Definition o_neg (sb : ity) (x : Z) : Z := wrap sb (- x).            (* ONNX: signed types only *)
Definition o_abs (sb : ity) (x : Z) : Z := wrap sb (Z.abs x).
Definition o_sign (sb : ity) (x : Z) : Z := wrap sb (Z.sgn x).
(* ONNX integer Div truncates toward zero (C semantics); y = 0 and INT_MIN / -1 are outside the domain
   (onnxruntime: error / trap) *)
Definition o_div (sb : ity) (x y : Z) : Z := wrap sb (Z.quot x y).
(* Mod: fmod = 0 -> sign of the divisor (Python %), fmod = 1 -> C fmod, sign of the dividend *)
Definition o_mod (sb : ity) (fmod : bool) (x y : Z) : Z :=
  if fmod then wrap sb (Z.rem x y) else wrap sb (x mod y).
Definition o_pow (sb : ity) (x n : Z) : Z := wrap sb (x ^ n).
Definition o_max (x y : Z) : Z := Z.max x y.
Definition o_min (x y : Z) : Z := Z.min x y.
Definition o_relu (x : Z) : Z := Z.max x 0.
(* Clip(x, lo, hi) = Min(Max(x, lo), hi) (ONNX reference implementation; lo > hi gives hi) *)
Definition o_clip (x lo hi : Z) : Z := Z.min (Z.max x lo) hi.

(* ---------------------------------------------------------------- logic *)
Definition o_and (a b : bool) : bool := a && b.
Definition o_or (a b : bool) : bool := a || b.
Definition o_xor (a b : bool) : bool := xorb a b.
Definition o_not (a : bool) : bool := negb a.

(* bitwise operators on two's-complement integers (Z.land etc. are the infinite two's-complement operations) *)
Definition o_bitand (sb : ity) (x y : Z) : Z := wrap sb (Z.land x y).
Definition o_bitor (sb : ity) (x y : Z) : Z := wrap sb (Z.lor x y).
Definition o_bitxor (sb : ity) (x y : Z) : Z := wrap sb (Z.lxor x y).
Definition o_bitnot (sb : ity) (x : Z) : Z := wrap sb (Z.lnot x).

(* BitShift: UNSIGNED types only.  onnxruntime yields 0 for amounts >= bit width (measured, tie D1);
   the guard also keeps the definition computable for amounts like 2^64 - 1 *)
Definition o_shl (sb : ity) (x s : Z) : Z := if s <? bits sb then wrap sb (Z.shiftl x s) else 0.
Definition o_shr (sb : ity) (x s : Z) : Z := if s <? bits sb then Z.shiftr x s else 0.
Definition shift_dom (sb : ity) : Prop := is_signed sb = false.

(* ---------------------------------------------------------------- comparison / selection *)
Definition o_equal (x y : Z) : bool := x =? y.
Definition o_less (x y : Z) : bool := x <? y.
Definition o_le (x y : Z) : bool := x <=? y.
Definition o_greater (x y : Z) : bool := x >? y.
Definition o_ge (x y : Z) : bool := x >=? y.
Definition o_equal_b (a b : bool) : bool := Bool.eqb a b.
Definition o_where (c : bool) (x y : Z) : Z := if c then x else y.
Definition o_where_b (c : bool) (x y : bool) : bool := if c then x else y.

(* ---------------------------------------------------------------- Cast *)
Definition o_cast (t : ity) (x : Z) : Z := wrap t x.                       (* int -> int: wraps *)
Definition o_cast_to_bool (x : Z) : bool := negb (x =? 0).
Definition o_cast_of_bool (t : ity) (b : bool) : Z := if b then 1 else 0.
(* int -> float of an integer the format represents (|x| <= 2^24 resp. 2^53), and float constants with an
   integral value: the value itself *)
Definition o_cast_float (x : Z) : Z := x.
(* Identity *)
Definition o_identity (x : Z) : Z := x.

(* ---------------------------------------------------------------- rounding on exact fractions *)
Definition frac := (Z * Z)%type.             (* n / d with d > 0 *)
Definition frac_ok (q : frac) : Prop := 0 < snd q.
Definition frac_of_Q (q : Q) : frac := (Qnum q, Zpos (Qden q)).
Definition o_floor (q : frac) : Z := fst q / snd q.
Definition o_ceil (q : frac) : Z := - ((- fst q) / snd q).
(* ONNX Round: round half to EVEN *)
Definition o_round (q : frac) : Z :=
  let f := fst q / snd q in
  let r := fst q mod snd q in
  if 2 * r <? snd q then f else if snd q <? 2 * r then f + 1 else if Z.even f then f else f + 1.

(* exact float arithmetic used around the rounding operators: Abs / Sign of a fraction, fraction minus an
   integer-valued float (exact whenever the true difference is representable, e.g. |x| - floor |x|), comparison of
   two fractions; Add / Mul of integer-valued floats are the integer operations (exact while the result is
   representable) *)
Definition q_abs (q : frac) : frac := (Z.abs (fst q), snd q).
Definition q_sign (q : frac) : Z := Z.sgn (fst q).
Definition q_sub_z (q : frac) (z : Z) : frac := (fst q - z * snd q, snd q).
Definition q_eqb (a b : frac) : bool := fst a * snd b =? fst b * snd a.
Definition z_add (x y : Z) : Z := x + y.
Definition z_mul (x y : Z) : Z := x * y.

(* ---------------------------------------------------------------- OneHot / Slice (index arithmetic) *)
(* OneHot(indices, depth, [off, on]) along the class axis, class j: indices in [-depth, depth-1], a negative
   index counts from the end, anything else gives all-off *)
Definition o_onehot (depth off on i j : Z) : Z :=
  if (- depth <=? i) && (i <? depth) then
    (if (if i <? 0 then i + depth else i) =? j then on else off)
  else off.
(* Slice on one axis of extent dim, step 1: negative start/end count from the end, then both are clamped into
   [0, dim]; the result is (first index, number of elements) *)
Definition slice_norm (dim v : Z) : Z := Z.min dim (Z.max 0 (if v <? 0 then v + dim else v)).
Definition o_slice1 (dim s e : Z) : Z * Z :=
  let s' := slice_norm dim s in let e' := slice_norm dim e in (s', Z.max 0 (e' - s')).

(* ================================================================ sanity lemmas *)
Lemma pow2_pos b : 0 <= b -> 0 < 2 ^ b.
Proof. intro; apply Z.pow_pos_nonneg; lia. Qed.

Lemma pow2_split b : 0 < b -> 2 ^ b = 2 * 2 ^ (b - 1).
Proof. intro H. replace b with (1 + (b - 1)) at 1 by lia. rewrite Z.pow_add_r by lia. reflexivity. Qed.

Lemma wrap_range sb v : 0 < snd sb -> in_int sb (wrap sb v).
Proof.
  destruct sb as [s b]; unfold in_int, int_lo, int_hi, wrap; simpl; intro Hb.
  pose proof (pow2_split b Hb) as Hp. pose proof (pow2_pos (b - 1) ltac:(lia)) as Hq.
  destruct s.
  - pose proof (Z.mod_pos_bound (v + 2 ^ (b - 1)) (2 ^ b) ltac:(lia)). lia.
  - pose proof (Z.mod_pos_bound v (2 ^ b) ltac:(lia)). lia.
Qed.

Lemma wrap_mod sb v : 0 < snd sb -> (wrap sb v) mod 2 ^ snd sb = v mod 2 ^ snd sb.
Proof.
  destruct sb as [s b]; unfold wrap; simpl; intro Hb.
  pose proof (pow2_split b Hb) as Hp. pose proof (pow2_pos (b - 1) ltac:(lia)) as Hq.
  destruct s.
  - rewrite <- Zminus_mod_idemp_l. rewrite Z.mod_mod by lia.
    rewrite Zminus_mod_idemp_l. f_equal. lia.
  - apply Z.mod_mod. lia.
Qed.

(* wrap only depends on the residue modulo 2^bits *)
Lemma wrap_congr sb a a' : 0 < snd sb -> a mod 2 ^ snd sb = a' mod 2 ^ snd sb -> wrap sb a = wrap sb a'.
Proof.
  destruct sb as [s b]; unfold wrap; simpl; intros Hb H.
  pose proof (pow2_pos b ltac:(lia)).
  destruct s; [|exact H].
  f_equal. rewrite <- (Zplus_mod_idemp_l a), <- (Zplus_mod_idemp_l a'), H. reflexivity.
Qed.

Lemma wrap_wrap sb a : 0 < snd sb -> wrap sb (wrap sb a) = wrap sb a.
Proof. intro Hb. apply wrap_congr; auto. now apply wrap_mod. Qed.

Lemma wrap_add_l sb a c : 0 < snd sb -> wrap sb (wrap sb a + c) = wrap sb (a + c).
Proof.
  intro Hb. apply wrap_congr; auto.
  rewrite <- Zplus_mod_idemp_l, wrap_mod, Zplus_mod_idemp_l by auto. reflexivity.
Qed.
Lemma wrap_add_r sb a c : 0 < snd sb -> wrap sb (a + wrap sb c) = wrap sb (a + c).
Proof. intro Hb. rewrite (Z.add_comm a), wrap_add_l by auto. f_equal; lia. Qed.
Lemma wrap_sub_l sb a c : 0 < snd sb -> wrap sb (wrap sb a - c) = wrap sb (a - c).
Proof. intro Hb. unfold Z.sub. now apply wrap_add_l. Qed.
Lemma wrap_sub_r sb a c : 0 < snd sb -> wrap sb (a - wrap sb c) = wrap sb (a - c).
Proof.
  intro Hb. apply wrap_congr; auto.
  rewrite <- Zminus_mod_idemp_r, wrap_mod, Zminus_mod_idemp_r by auto. reflexivity.
Qed.
Lemma wrap_mul_l sb a c : 0 < snd sb -> wrap sb (wrap sb a * c) = wrap sb (a * c).
Proof.
  intro Hb. apply wrap_congr; auto.
  rewrite <- Zmult_mod_idemp_l, wrap_mod, Zmult_mod_idemp_l by auto. reflexivity.
Qed.
Lemma wrap_mul_r sb a c : 0 < snd sb -> wrap sb (a * wrap sb c) = wrap sb (a * c).
Proof. intro Hb. rewrite (Z.mul_comm a), wrap_mul_l by auto. f_equal; lia. Qed.

(* truncating division / remainder (Z.quot / Z.rem) vs floor division / modulo (Z.div / Z.modulo) *)
Lemma quot_rem_eq x y : x = y * Z.quot x y + Z.rem x y.
Proof. apply Z.quot_rem'. Qed.

Lemma rem_sign_of_dividend x y : y <> 0 -> 0 <= x -> 0 <= Z.rem x y < Z.abs y.
Proof. intros. lia. Qed.
Lemma rem_sign_of_dividend_neg x y : y <> 0 -> x <= 0 -> - Z.abs y < Z.rem x y <= 0.
Proof. intros. lia. Qed.
Lemma mod_sign_of_divisor x y : 0 < y -> 0 <= x mod y < y.
Proof. intros. lia. Qed.
Lemma mod_sign_of_divisor_neg x y : y < 0 -> y < x mod y <= 0.
Proof. intros. lia. Qed.

(* floor-mod from truncating rem: the correction jnp.mod applies *)
Lemma mod_from_rem x y : y <> 0 ->
  x mod y = if negb (Z.rem x y =? 0) && negb (Bool.eqb (Z.rem x y <? 0) (y <? 0)) then Z.rem x y + y else Z.rem x y.
Proof.
  intro Hy.
  pose proof (Z.quot_rem' x y) as Hq. pose proof (Z.rem_bound_abs x y Hy) as Hb.
  destruct (Z.rem x y =? 0) eqn:E0; simpl.
  - apply Z.eqb_eq in E0. symmetry. apply Z.mod_unique with (q := Z.quot x y); lia.
  - apply Z.eqb_neq in E0.
    destruct (Z.rem x y <? 0) eqn:E1, (y <? 0) eqn:E2; simpl; symmetry.
    + apply Z.mod_unique with (q := Z.quot x y); lia.
    + apply Z.mod_unique with (q := Z.quot x y - 1); lia.
    + apply Z.mod_unique with (q := Z.quot x y - 1); lia.
    + apply Z.mod_unique with (q := Z.quot x y); lia.
Qed.

(* floor division from truncating quot: the correction jnp.floor_divide applies *)
Lemma div_from_quot x y : y <> 0 ->
  x / y = if negb (Z.sgn x =? Z.sgn y) && negb (Z.rem x y =? 0) then Z.quot x y - 1 else Z.quot x y.
Proof.
  intro Hy.
  pose proof (Z.quot_rem' x y) as Hq. pose proof (Z.rem_bound_abs x y Hy) as Hb.
  assert (Hs : Z.rem x y <> 0 -> Z.sgn (Z.rem x y) = Z.sgn x) by (apply Z.rem_sign_nz; auto).
  destruct (Z.rem x y =? 0) eqn:E1.
  - apply Z.eqb_eq in E1. rewrite andb_false_r. symmetry.
    apply Z.div_unique with (r := 0); lia.
  - apply Z.eqb_neq in E1. specialize (Hs E1). rewrite andb_true_r.
    destruct (Z.sgn x =? Z.sgn y) eqn:E0; simpl; symmetry.
    + apply Z.eqb_eq in E0. apply Z.div_unique with (r := Z.rem x y); lia.
    + apply Z.eqb_neq in E0. apply Z.div_unique with (r := Z.rem x y + y); lia.
Qed.

(* ONNX Mod with fmod = 0 is Python's %, i.e. Z.modulo; with fmod = 1 it is C's fmod, i.e. Z.rem *)
Lemma o_mod_floor sb x y : 0 < snd sb -> in_int sb x -> in_int sb y -> y <> 0 -> o_mod sb false x y = x mod y.
Proof.
  intros Hb Hx Hy Hy0. unfold o_mod. apply wrap_id; auto.
  destruct sb as [s b]; unfold in_int, int_lo, int_hi in *; simpl in *.
  pose proof (pow2_pos (b - 1) ltac:(lia)). pose proof (pow2_split b Hb).
  destruct s; lia.
Qed.
Lemma o_mod_trunc sb x y : 0 < snd sb -> in_int sb x -> in_int sb y -> y <> 0 -> o_mod sb true x y = Z.rem x y.
Proof.
  intros Hb Hx Hy Hy0. unfold o_mod. apply wrap_id; auto.
  destruct sb as [s b]; unfold in_int, int_lo, int_hi in *; simpl in *.
  pose proof (pow2_pos (b - 1) ltac:(lia)). pose proof (pow2_split b Hb).
  destruct s; lia.
Qed.

(* Floor / Ceil / Round specifications *)
Lemma o_floor_spec n d : 0 < d -> o_floor (n, d) * d <= n < (o_floor (n, d) + 1) * d.
Proof. unfold o_floor; cbn [fst snd]; intro. nia. Qed.
Lemma o_ceil_spec n d : 0 < d -> (o_ceil (n, d) - 1) * d < n <= o_ceil (n, d) * d.
Proof. unfold o_ceil; cbn [fst snd]; intro. nia. Qed.
Lemma o_floor_Q q : o_floor (frac_of_Q q) = Qfloor q.
Proof. destruct q; reflexivity. Qed.
Lemma o_ceil_Q q : o_ceil (frac_of_Q q) = Qceiling q.
Proof. destruct q; reflexivity. Qed.
(* Round is a nearest integer: |n/d - round| <= 1/2 *)
Lemma o_round_nearest n d : 0 < d -> -d <= 2 * (n - o_round (n, d) * d) <= d.
Proof.
  unfold o_round; cbn [fst snd]; intro Hd.
  pose proof (Z.div_mod n d ltac:(lia)) as H. pose proof (Z.mod_pos_bound n d Hd) as Hr.
  set (q := n / d) in *. set (r := n mod d) in *. clearbody q r.
  destruct (2 * r <? d) eqn:E1; [apply Z.ltb_lt in E1; nia|]. apply Z.ltb_ge in E1.
  destruct (d <? 2 * r) eqn:E2; [apply Z.ltb_lt in E2; nia|]. apply Z.ltb_ge in E2.
  destruct (Z.even q); nia.
Qed.
Lemma o_round_tie_even n d : 0 < d -> 2 * (n mod d) = d -> Z.even (o_round (n, d)) = true.
Proof.
  unfold o_round; cbn [fst snd]; intros Hd Ht.
  rewrite (proj2 (Z.ltb_ge _ _)) by lia. rewrite (proj2 (Z.ltb_ge _ _)) by lia.
  destruct (Z.even (n / d)) eqn:E; [exact E|].
  rewrite Z.even_add, E. reflexivity.
Qed.

Example o_round_halves : map o_round [(-5, 2); (-3, 2); (-1, 2); (1, 2); (3, 2); (5, 2); (7, 3)] = [-2; -2; 0; 0; 2; 2; 2].
Proof. reflexivity. Qed.
Example o_div_trunc : (o_div I32 (-7) 2, o_div I32 7 (-2), o_mod I32 false (-7) 2, o_mod I32 true (-7) 2) = (-3, -3, 1, -1).
Proof. reflexivity. Qed.
Example o_shl_sat : (o_shl U8 3 7, o_shl U8 3 8, o_shr U32 (2 ^ 32 - 1) 31, o_shr U32 (2 ^ 32 - 1) 32) = (128, 0, 1, 0).
Proof. reflexivity. Qed.
Example o_abs_min : o_abs I32 (- 2 ^ 31) = - 2 ^ 31. Proof. reflexivity. Qed.
