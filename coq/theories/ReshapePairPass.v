(* ReshapePairPass (C02): a faithful model of remove_redundant_reshape_pairs_ir
     Reshape T1 -> chain of <= 7 default-domain ALLOWED_ELEMWISE nodes -> Reshape T2, _shapes_compatible(src, dst)
   (backward walk over first inputs, isolation tests, the two replace_all_uses_with, the shape refresh of the chain
   nodes, the removal of T1 and T2, the while-changed loop) and its soundness for annotated SSA graphs over tensors
   of any element type.
   Encoding (harness/c02_passes.py): n_op is the operator name for domain "", "dom::op" otherwise (so only
   default-domain nodes match, as _is_standard_onnx_node / the domain test of the pass demand); absent optional
   inputs occur only at the end of an input list and are dropped.
   Domain restrictions of the MODEL (the real pass does not test them; they hold in every schema-valid acyclic ONNX
   graph, and the model takes no action otherwise): Reshape and chain nodes have exactly one output, chain nodes
   have no nested graphs, and src, T1's output, the chain outputs and T2's output are pairwise distinct names. *)
From Coq Require Import ZArith String List Bool Arith Lia.
From J2O Require Import PyLib Tensor Graph Redirect Reshape ElemCommute ChainSim C02Opt.
From J2OGen Require Import GenOpt.
Import ListNotations.

(* ---------------------------------------------------------------- annotated graphs *)
Inductive dim := DInt (n : nat) | DSym (s : string) | DUnk.

Record pgraph := mkPG {
  pg_nodes : list node; pg_outputs : list name;
  pg_shape : name -> option (list dim);      (* declared shape (None: unknown rank) *)
  pg_scalar : name -> bool }.                 (* _is_scalar_const_value *)
Definition pg_graph (g : pgraph) : graph := mkGraph (pg_nodes g) (pg_outputs g).

(* _shapes_compatible *)
Definition dim_compat (a b : dim) : bool :=
  match a, b with DInt x, DInt y => Nat.eqb x y | DSym s, DSym t => String.eqb s t | _, _ => false end.
Definition shapes_compatible (a b : option (list dim)) : bool :=
  match a, b with Some x, Some y => list_eqb dim_compat x y | _, _ => false end.

(* ---------------------------------------------------------------- _refresh_elementwise_output_shape *)
Definition dim_eqb (a b : dim) : bool :=       (* _dim_token equality *)
  match a, b with DInt x, DInt y => Nat.eqb x y | DSym s, DSym t => String.eqb s t | DUnk, DUnk => true | _, _ => false end.

Definition bc_dim (resolved d : dim) : option dim :=
  match d with
  | DInt n => if Nat.eqb n 1 then Some resolved else
              match resolved with
              | DInt r => if Nat.eqb r 1 then Some (DInt n) else if Nat.eqb r n then Some resolved else None
              | _ => Some (DInt n)
              end
  | _ => match resolved with
         | DInt r => if Nat.eqb r 1 then Some d else Some resolved
         | _ => if dim_eqb resolved d then Some resolved else None
         end
  end.
Fixpoint fold_opt {B C} (f : B -> C -> option B) (acc : B) (l : list C) : option B :=
  match l with [] => Some acc | d :: r => match f acc d with Some a => fold_opt f a r | None => None end end.
Definition broadcast_dims (shapes : list (list dim)) : option (list dim) :=
  match shapes with
  | [] => None
  | _ => let r := fold_right (fun s m => Nat.max (length s) m) 0 shapes in
         let padded := map (fun s => repeat (DInt 1) (r - length s) ++ s) shapes in
         mapM (fun axis => fold_opt bc_dim (DInt 1) (map (fun s => nth axis s (DInt 1)) padded)) (seq 0 r)
  end.

Definition set_shape (g : pgraph) (y : name) (s : list dim) : pgraph :=
  mkPG (pg_nodes g) (pg_outputs g) (fun x => if Nat.eqb x y then Some s else pg_shape g x) (pg_scalar g).

(* _elementwise_shape_source *)
Definition shape_source (g : pgraph) (ins : list name) : option name :=
  match find (fun x => negb (pg_scalar g x)) ins with Some x => Some x | None => hd_error ins end.

Definition refresh (g : pgraph) (n : node) : pgraph :=
  match n_outs n with
  | [] => g
  | y :: _ =>
      if String.eqb (n_op n) "CastLike" then
        match n_ins n with
        | x :: _ => match pg_shape g x with Some s => set_shape g y s | None => g end
        | [] => g
        end
      else
        match shape_source g (n_ins n) with
        | None => g
        | Some src =>
            let g1 := match pg_shape g src with Some s => set_shape g y s | None => g end in
            let cands := flat_map (fun x => match pg_shape g1 x with Some s => [s] | None => [] end) (n_ins n) in
            match broadcast_dims cands with None => g1 | Some m => set_shape g1 y m end
        end
  end.

(* ---------------------------------------------------------------- the decision *)
Definition producer (ns : list node) (v : name) : option node := find (fun n => existsb (Nat.eqb v) (n_outs n)) ns.
Definition consumers (ns : list node) (v : name) : list node := filter (fun m => existsb (Nat.eqb v) (n_ins m)) ns.
Definition observed (g : pgraph) (v : name) : bool :=        (* _value_is_observed *)
  existsb (Nat.eqb v) (pg_outputs g) || existsb (fun m => existsb (Nat.eqb v) (n_caps m)) (pg_nodes g).
Definition is_reshape (n : node) : bool := String.eqb (n_op n) "Reshape".
Definition is_allowed (n : node) : bool := str_in (n_op n) ALLOWED_ELEMWISE.

(* backward walk from T2's data input over first inputs: (T1, chain in forward order) *)
Fixpoint walk (ns : list node) (fuel : nat) (v : name) (acc : list node) : option (node * list node) :=
  match fuel with
  | O => None
  | S k => match producer ns v with
           | None => None
           | Some p => if is_allowed p then match n_ins p with x :: _ => walk ns k x (p :: acc) | [] => None end
                       else if is_reshape p then Some (p, acc) else None
           end
  end.

(* side operands of a chain member: the data value, CastLike's type operand (position 1), or a scalar constant *)
Fixpoint side_ok (g : pgraph) (castlike : bool) (prev : name) (pos : nat) (ins : list name) : bool :=
  match ins with
  | [] => true
  | x :: r => (Nat.eqb x prev || (castlike && Nat.eqb pos 1) || pg_scalar g x) && side_ok g castlike prev (S pos) r
  end.

Fixpoint chain_ok (g : pgraph) (prev : name) (chain : list node) : bool :=
  match chain with
  | [] => true
  | n :: r => match n_outs n, n_caps n, n_ins n with
              | [y], [], x :: _ =>
                  Nat.eqb x prev          (* implied by the walk when outputs are single *)
                  && side_ok g (String.eqb (n_op n) "CastLike") prev 0 (n_ins n) && negb (observed g y) && chain_ok g y r
              | _, _, _ => false
              end
  end.

Definition out_of (n : node) : name := match n_outs n with y :: _ => y | [] => 0 end.
Definition in_members (outs : list name) (m : node) : bool :=
  match n_outs m with [y] => existsb (Nat.eqb y) outs | _ => false end.

Record action := mkAct { ac_src : name; ac_t1 : name; ac_chain : list node; ac_t2 : name }.
Definition chain_outs (a : action) : list name := map out_of (ac_chain a).
Definition dirty (a : action) : list name := ac_t1 a :: chain_outs a.

Definition decide (g : pgraph) (T2 : node) : option action :=
  if negb (is_reshape T2) then None else
  match n_ins T2, n_outs T2 with
  | v :: _, [b] =>
      match walk (pg_nodes g) 8 v [] with
      | None => None
      | Some (T1, chain) =>
          match n_ins T1, n_outs T1 with
          | src :: _, [a0] =>
              let a := mkAct src a0 chain b in
              if shapes_compatible (pg_shape g src) (pg_shape g b)
                 && negb (observed g a0) && chain_ok g a0 chain
                 && forallb (fun x => forallb (in_members (chain_outs a ++ [b])) (consumers (pg_nodes g) x)) (dirty a)
                 && nodupb (src :: dirty a ++ [b])      (* acyclicity *)
              then Some a else None
          | _, _ => None
          end
      end
  | _, _ => None
  end.

Fixpoint first_action (g : pgraph) (ns : list node) : option action :=
  match ns with [] => None | n :: r => match decide g n with Some a => Some a | None => first_action g r end end.

(* ---------------------------------------------------------------- the rewrite *)
Definition new_src (a : action) : name := last (chain_outs a) (ac_src a).

Definition apply_action (g : pgraph) (a : action) : pgraph :=
  let g1 := match ac_chain a with [] => pg_graph g | _ => replace_all_uses (ac_t1 a) (ac_src a) (pg_graph g) end in
  let gs := match ac_chain a with
            | [] => g
            | _ => fold_left refresh (map (subst_node (ac_t1 a) (ac_src a)) (ac_chain a))
                             (mkPG (g_nodes g1) (g_outputs g1) (pg_shape g) (pg_scalar g))
            end in
  let g2 := replace_all_uses (ac_t2 a) (new_src a) g1 in
  mkPG (remove_first (node_is (ac_t2 a)) (remove_first (node_is (ac_t1 a)) (g_nodes g2))) (g_outputs g2)
       (pg_shape gs) (pg_scalar g).

Definition reshape_pair_step (g : pgraph) : option pgraph := option_map (apply_action g) (first_action g (pg_nodes g)).
Fixpoint reshape_pair_pass (fuel : nat) (g : pgraph) : pgraph :=
  match fuel with O => g | S k => match reshape_pair_step g with Some g' => reshape_pair_pass k g' | None => g end end.

(* the check the real pass lacks (defect: a one-element side constant whose rank exceeds the rank of src left-pads the
   folded result with 1s): every side operand of a non-CastLike chain member is declared with rank <= rank of src *)
Definition decl_rank_le (g : pgraph) (u src : name) : bool :=
  match pg_shape g u, pg_shape g src with Some du, Some ds => Nat.leb (length du) (length ds) | _, _ => false end.
Definition side_ranks_ok (g : pgraph) (a : action) : bool :=
  forallb (fun n => String.eqb (n_op n) "CastLike" ||
                    forallb (fun u => existsb (Nat.eqb u) (dirty a ++ [ac_t2 a]) || decl_rank_le g u (ac_src a)) (n_ins n))
          (ac_chain a).

(* ================================================================ structure of an accepted action *)
Fixpoint chain_facts (g : pgraph) (prev : name) (chain : list node) : Prop :=
  match chain with
  | [] => True
  | n :: r => exists y rest, n_outs n = [y] /\ n_caps n = [] /\ n_ins n = prev :: rest /\
                side_ok g (String.eqb (n_op n) "CastLike") prev 0 (n_ins n) = true /\ observed g y = false /\ chain_facts g y r
  end.

Lemma chain_ok_facts g : forall chain prev, chain_ok g prev chain = true -> chain_facts g prev chain.
Proof.
  induction chain as [|n r IH]; simpl; intros prev H; auto.
  destruct (n_outs n) as [|y [|]] eqn:Ho; try discriminate. destruct (n_caps n) eqn:Hc; try discriminate.
  destruct (n_ins n) as [|x rest] eqn:Hi; try discriminate.
  apply andb_prop in H as [H H4]. apply andb_prop in H as [H H3]. apply andb_prop in H as [H1 H2].
  apply Nat.eqb_eq in H1. subst x. apply negb_true_iff in H3. exists y, rest. repeat split; auto.
Qed.

Lemma chain_facts_in g : forall chain prev n, chain_facts g prev chain -> In n chain ->
  exists p y rest, In p (prev :: map out_of chain) /\ n_outs n = [y] /\ In y (map out_of chain) /\ n_caps n = [] /\
    n_ins n = p :: rest /\ side_ok g (String.eqb (n_op n) "CastLike") p 0 (n_ins n) = true.
Proof.
  induction chain as [|m r IH]; simpl; intros prev n H Hin; [contradiction|].
  destruct H as (y & rest & Ho & Hc & Hi & Hs & Hobs & Hr).
  assert (Hoy : out_of m = y) by (unfold out_of; now rewrite Ho).
  destruct Hin as [<-|Hin].
  - exists prev, y, rest. rewrite Hoy. repeat split; auto.
  - destruct (IH y n Hr Hin) as (p & y' & rest' & Hp & H1 & H2 & H3 & H4 & H5).
    exists p, y', rest'. rewrite Hoy. repeat split; auto. destruct Hp as [<-|Hp]; [right; now left | right; now right].
Qed.

Lemma chain_facts_unobs g : forall chain prev y, chain_facts g prev chain -> In y (map out_of chain) -> observed g y = false.
Proof.
  induction chain as [|m r IH]; simpl; intros prev y H Hin; [contradiction|].
  destruct H as (y0 & rest & Ho & _ & _ & _ & Hobs & Hr).
  destruct Hin as [<-|Hin]; [unfold out_of; now rewrite Ho | eauto].
Qed.

Lemma chain_facts_last g : forall chain prev, chain_facts g prev chain -> chain <> [] ->
  n_outs (last chain (mkNode "" [] [] [] [])) = [last (map out_of chain) prev].
Proof.
  induction chain as [|m r IH]; intros prev H Hne; [congruence|].
  destruct H as (y & rest & Ho & _ & _ & _ & _ & Hr). destruct r as [|m2 r2].
  - simpl. unfold out_of. now rewrite Ho.
  - change (last (m :: m2 :: r2) _) with (last (m2 :: r2) (mkNode "" [] [] [] [])).
    change (last (map out_of (m :: m2 :: r2)) prev) with (last (map out_of (m2 :: r2)) prev).
    rewrite (IH y Hr) by discriminate. f_equal. simpl. destruct (map out_of r2); reflexivity.
Qed.

Lemma producer_spec ns v p : producer ns v = Some p -> In p ns /\ In v (n_outs p).
Proof.
  unfold producer. intro H. apply find_some in H as [H1 H2]. split; auto.
  apply existsb_exists in H2 as (y & Hy & E). apply Nat.eqb_eq in E. now subst.
Qed.

Lemma walk_spec ns : forall fuel v acc T1 chain, walk ns fuel v acc = Some (T1, chain) ->
  exists new, chain = new ++ acc /\ In T1 ns /\ is_reshape T1 = true /\
    (forall n, In n new -> In n ns /\ is_allowed n = true) /\ In v (n_outs (last new T1)).
Proof.
  induction fuel as [|k IH]; simpl; intros v acc T1 chain H; [discriminate|].
  destruct (producer ns v) as [p|] eqn:Ep; [|discriminate]. apply producer_spec in Ep as [Hp Hv].
  destruct (is_allowed p) eqn:Ea.
  - destruct (n_ins p) as [|x rest]; [discriminate|].
    destruct (IH _ _ _ _ H) as (new & -> & H1 & H2 & H3 & H4).
    exists (new ++ [p]). rewrite <- app_assoc. repeat split; auto.
    + apply in_app_or in H0 as [H0|[<-|[]]]; [now apply H3 | exact Hp].
    + apply in_app_or in H0 as [H0|[<-|[]]]; [now apply H3 | exact Ea].
    + now rewrite last_last.
  - destruct (is_reshape p) eqn:Er; [|discriminate]. injection H as <- <-.
    exists []. repeat split; auto; intros n [].
Qed.

Record action_facts (g : pgraph) (a : action) (T1 T2 : node) : Prop := {
  af_T1_in : In T1 (pg_nodes g);
  af_T1_op : n_op T1 = "Reshape"%string;
  af_T1_ins : exists r, n_ins T1 = ac_src a :: r;
  af_T1_outs : n_outs T1 = [ac_t1 a];
  af_T2_in : In T2 (pg_nodes g);
  af_T2_op : n_op T2 = "Reshape"%string;
  af_T2_ins : exists r, n_ins T2 = last (dirty a) 0 :: r;
  af_T2_outs : n_outs T2 = [ac_t2 a];
  af_chain_in : forall n, In n (ac_chain a) -> In n (pg_nodes g) /\ is_allowed n = true;
  af_compat : shapes_compatible (pg_shape g (ac_src a)) (pg_shape g (ac_t2 a)) = true;
  af_unobs : forall x, In x (dirty a) -> observed g x = false;
  af_chain : chain_facts g (ac_t1 a) (ac_chain a);
  af_cons : forall x m, In x (dirty a) -> In m (pg_nodes g) -> In x (n_ins m) -> in_members (chain_outs a ++ [ac_t2 a]) m = true;
  af_nodup : NoDup (ac_src a :: dirty a ++ [ac_t2 a]) }.

Lemma decide_facts g T2 a : In T2 (pg_nodes g) -> decide g T2 = Some a -> exists T1, action_facts g a T1 T2.
Proof.
  intros HT2 H. unfold decide in H.
  destruct (is_reshape T2) eqn:Er2; [|discriminate]. simpl in H.
  destruct (n_ins T2) as [|v rest2] eqn:Hi2; [discriminate|].
  destruct (n_outs T2) as [|b [|]] eqn:Ho2; try discriminate.
  destruct (walk (pg_nodes g) 8 v []) as [[T1 chain]|] eqn:Ew; [|discriminate].
  destruct (n_ins T1) as [|src rest1] eqn:Hi1; [discriminate|].
  destruct (n_outs T1) as [|a0 [|]] eqn:Ho1; try discriminate.
  match type of H with (if ?c then _ else _) = _ => destruct c eqn:Ec; [|discriminate] end.
  injection H as <-.
  apply andb_prop in Ec as [Ec H5]. apply andb_prop in Ec as [Ec H4]. apply andb_prop in Ec as [Ec H3].
  apply andb_prop in Ec as [H1 H2]. apply negb_true_iff in H2.
  destruct (walk_spec _ _ _ _ _ _ Ew) as (new & Hnew & HT1 & Hr1 & Hch & Hlink). rewrite app_nil_r in Hnew. subst new.
  pose proof (chain_ok_facts _ _ _ H3) as Hcf.
  exists T1. constructor; cbn [ac_src ac_t1 ac_chain ac_t2]; auto.
  - unfold is_reshape in Hr1. now apply String.eqb_eq in Hr1.
  - eauto.
  - unfold is_reshape in Er2. now apply String.eqb_eq in Er2.
  - (* T2's data input is the last dirty name *)
    exists rest2. f_equal. unfold dirty, chain_outs. cbn [ac_t1 ac_chain].
    destruct chain as [|c0 cr] eqn:Ech.
    + simpl in Hlink. rewrite Ho1 in Hlink. destruct Hlink as [<-|[]]. reflexivity.
    + rewrite <- Ech in *. assert (Hne : chain <> []) by (rewrite Ech; discriminate).
      rewrite (last_indep _ T1 (mkNode "" [] [] [] [])) in Hlink by exact Hne.
      rewrite (chain_facts_last g chain a0 Hcf Hne) in Hlink. destruct Hlink as [<-|[]].
      rewrite Ech. simpl. destruct (map out_of cr); reflexivity.
  - intros x [<-|Hx]; [exact H2|]. eapply chain_facts_unobs; eauto.
  - intros x m Hx Hm Hin. rewrite forallb_forall in H4. specialize (H4 x Hx). rewrite forallb_forall in H4. apply H4.
    unfold consumers. apply filter_In. split; auto. apply existsb_exists. exists x. split; auto. apply Nat.eqb_refl.
  - now apply nodupb_NoDup.
Qed.

Lemma last_indep_dummy : True. Proof. exact I. Qed.
